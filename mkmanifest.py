#!/usr/bin/env python3
"""Regenerates /verif/MANIFEST.json from the table below and validates it against the schema."""
import json, subprocess, sys

def git_hooks():
    out = subprocess.run(["git", "-C", "/repo", "log", "--format=%H %s"], capture_output=True, text=True).stdout
    return [l.split()[0] for l in out.splitlines() if "verif hook" in l]

MC = "model_checking"
EX = "exploration"

CHECKS = {
 "C01": dict(level=MC, design="§4 C01", technique="bounded-exhaustive enumeration of Fun programs x inputs; every program compiled by the real pipeline, assembled (GNU as), linked with the repository's C driver, executed natively and compared with the reference machine R-FUN",
    text="Every member of the bounded Fun program families x argument tuples is executed as a real x86-64 process; stdout bytes and exit status must equal what R-FUN prescribes. The twin run on the emulator provides the state/transition counts and validates the emulator against the CPU on every case.",
    note="GNU as (after a syntax-only transliteration) stands in for yasm; R-FUN written from the property's statement of the source semantics and validated on the repository's examples"),
 "C02": dict(level=MC, design="§4 C02", technique="bounded-exhaustive enumeration of Fun programs (incl. the complete shadowing product) x inputs; reference machine R-FUN vs Core abstract machine on the real translation output, every execution compared",
    text="Every program of the bounded families, in particular FUN-SHADOW (binder kind x inner name x outer name x continuation kind x label/covariable shadowing) and the generated-name lookalikes, is translated by the real compile_prog and executed on the Core machine with lexical scoping; output and result must equal R-FUN's; scoping/typing and name uniqueness of the output are checked statically.",
    note="R-FUN/R-CORE independent of the repository; both agree with compiled code on the repository's examples"),
 "C03": dict(level=MC, design="§4 C03", technique="bounded-exhaustive enumeration of Core programs reachable from Fun (effects in every argument position) and of hand-built Core programs (G-CORE: every statement up to a node bound over a two-name pool, so that every shadowing occurs); Core machine before vs after the real focusing, every execution compared, binder uniqueness on every path",
    text="R-CORE on the translation output vs R-CORE on the focused program (embedded back into Core): identical print sequence and result on every program x input of the families incl. FUN-EFFECT (print/goto/exit in operator, call, constructor, destructor, condition and codata arguments); binder ids along every path distinct, non-zero and <= max_id. The same for every program of the G-CORE enumeration (TC-CORE confirms the premise).",
    note="R-CORE's dynamic focusing is the oracle for evaluation order"),
 "C04": dict(level=MC, design="§4 C04", technique="bounded-exhaustive enumeration of focused Core programs (from the Fun families and from G-CORE incl. a two-constructor type whose critical pairs are lifted); Core machine vs AxCut machine on the real shrinking output, every execution compared; lifted signatures checked",
    text="R-CORE(focused) vs the by-name AxCut machine on shrink_prog's output on every program x input; lifted definitions receive exactly their free variables; output well-scoped with unique binders per path.",
    note="as C03"),
 "C05": dict(level=MC, design="§4 C05", technique="complete enumeration of non-linear AxCut statements over <= 4 variables + all pipeline programs (Fun families and G-CORE); ordered-linear judgment on every statement of every path; by-name vs positional machine, every execution compared",
    text="The complete input space of the linearizer for small contexts (kinds x statement kinds x argument tuples with repetition x used-afterwards subsets x captured subsets) and every shrunk program of the Fun families are linearized by the real code; TC-AX (DESIGN App. A) must accept every statement of the result and the positional machine must reproduce the by-name machine's observations.",
    note="Appendix A judgment is read off the backends"),
 "C06": dict(level=MC, design="§4 C06/C07/C08", technique="bounded-exhaustive enumeration of linear AxCut programs; every execution of the real x86-64 output on a text-level emulator checked against a reference machine",
    text="Every member of the bounded program space (k = 0..22 variables x statement kinds x operand placements x literal boundary set x object sizes 0..8) is compiled by the real code generator and executed to completion on an emulator of the printed text; print sequence and result are compared with the positional AxCut machine. States are statement boundaries; exhaustive within the stated bounds.",
    note="x86-64 emulator for the ~45 instruction forms the backend prints (cross-validated against native execution by C01); reference = positional AxCut machine (DESIGN App. A)"),
 "C07": dict(level=MC, design="§4 C06/C07/C08", technique="bounded-exhaustive enumeration of linear AxCut programs; every execution of the real AArch64 output on a text-level emulator checked against a reference machine",
    text="As C06 for the AArch64 backend (register file boundary at 13 variables, MOVZ/MOVN/MOVK literal synthesis over the halfword boundary set, LR handling).",
    note="AArch64 emulator written from the ISA manual for the ~30 forms the backend prints; no hardware/qemu in the sandbox"),
 "C08": dict(level=MC, design="§4 C06/C07/C08", technique="bounded-exhaustive enumeration of print-free linear AxCut programs; RV64 emulator vs reference machine plus three-backend agreement",
    text="As C06 for the RV64 pseudo-assembly (<= 14 live variables, print-free, 64-bit LW/SW): result register at the exit label equals the reference result, and x86-64 and AArch64 agree on every such program.",
    note="RV64 emulator for the 21 forms the backend prints; start state as on the other backends (heap/free registers initialised by the harness)"),
 "C09": dict(level=MC, design="§4 C09", technique="explicit-state BFS over histories of heap operations with real generated code as transitions (canonical-state dedup, to a fixpoint) + invariant at every boundary of every emulated program execution",
    text="(B) Breadth-first search from the post-prologue machine state: each transition compiles one AxCut statement (literal, let, dup, drop, move, switch, create, invoke) with the real code generator and runs it on the emulator; states are deduplicated on a canonical form (block addresses renamed in discovery order, dead data scrubbed to undefined); in every state the heap partition / exact-refcount / memory-safety invariant and agreement with a reference value model are checked; the search reaches a fixpoint for each stated (variables, live-block) bound on all three backends, so histories of any length over the alphabet are covered. (A) The same invariant is evaluated at every statement boundary (hook H1 markers) of every emulated run of the C06-C08 program families.",
    note="heap geometry read from the backend crates; emulators as C06-C08; canonical form argued in DESIGN §4 C09"),
 "C10": dict(level=MC, design="§4 C10", technique="the C09 explicit-state BFS to a fixpoint with the footprint criterion in every transition + loop programs at n, 4n, 16n",
    text="In every transition of the fixpoint search: if the allocation frontier advanced, no reusable, deferred or waiting block may remain (fresh memory only when both lists are empty), and along every discovered path blocks-below-frontier <= peak reachable + 2. Loop programs of six shapes (lists, shared lists, closures, trees, multi-block records) run at n, 4n, 16n iterations on all three backends: the frontier must be identical.",
    note="as C09"),
 "C11": dict(level=MC, design="§4 C11", technique="complete enumeration of substitution configurations (all maps m,n<=5 x kinds x offsets x 3 backends); each compiled by the real code generator and executed; post-state compared with the simultaneous-assignment model",
    text="Every configuration in the stated finite space is executed: simultaneous assignment of both temporaries, count arithmetic, exactly-once release of dropped last references, and a frame condition on everything else. Thorough tier completes n,m <= 5 (exhaustive: true).",
    note="emulators as C06-C08; the pre-state is constructed by the harness on top of the real post-prologue machine state"),
 "C12": dict(level=EX, design="§4 C12", technique="bounded-exhaustive enumeration of accepted programs and of hand-built Core programs (G-CORE); independent type checkers for Core and AxCut on every stage output; panics caught per stage",
    text="Every program of the Fun families passes through all stages and the three code generators under catch_unwind; TC-CORE/TC-AX check each intermediate program with the judgments of the property. The RV64 print panic is a recorded known finding.",
    note="checkers use only the annotations the programs carry and the declared signatures"),
 "C14": dict(level=EX, design="§4 C14", technique="bounded-exhaustive enumeration of emitted assembly files; static lint of every label/operand/table per instruction form, GNU as acceptance and object-code read-back for x86-64, symbol-injection closure over generated names",
    text="Every file emitted for the AxCut and Fun families on the three backends is linted for label definedness/uniqueness, runtime-symbol clashes, operand ranges of the printed instruction forms and jump-table entry form; x86-64 files are assembled by GNU as and their tables read back from the object code; for each generated definition symbol the variant program with a user definition of that spelling is compiled and linted (iterated so that the injected name follows the generated numbering).",
    note="range tables written from the ISA manuals; GNU as stands in for yasm"),
 "C15": dict(level=EX, design="§4 C15", technique="bounded-exhaustive enumeration of well-typed programs x 30+8 single-edit mutation classes x every applicable site; the real checker must accept the former and reject every mutant",
    text="All programs of the Fun families and dedicated polymorphic/covariable/shadowing programs are accepted; every applicable site of every edit class (argument counts, wrong-type operand, unbound names of every sort, missing/extra/duplicated clauses, binders, type-argument arity in terms and in declarations, constructor at i64, cocase at data, duplicates of every declaration sort, variable for covariable) yields a tree that Program::check rejects.",
    note="each edit is ill-typed by construction"),
 "C16": dict(level=EX, design="§4 C16", technique="bounded-exhaustive enumeration of parser-accepted texts (every term form in every slot of every term form) x all (width, indent) configurations; reparse equality and idempotence on every distinct rendering",
    text="For every accepted text and every configuration: parse(print(ast, cfg)) == ast and printing the result again is the identity; a slice runs through the real scc fmt --inplace.",
    note="tree equality = the repository's derived PartialEq (spans ignored)"),
 "C17": dict(level=MC, design="§4 C17", technique="exhaustive enumeration of owned nondeterminism: all histories of earlier compilations up to a length bound (fresh process each), hash seeds through a getrandom shim, a product of environments; every stage output compared byte-wise (modulo label numbering for histories)",
    text="Every history over a 12-program alphabet (incl. conflicting namesakes) up to length 2/3 x every target, every seed 0..15/0..255 x corpus, and 7 environments x the real scc subcommands are executed; all printable stages must be identical. Distinct outcomes per program are reported (exactly 1 expected).",
    note="the hash-seed seam relies on std drawing its keys through getrandom(); its effect was observed before the instance-order fix"),
 "C18": dict(level=EX, design="§4 C18", technique="bounded-exhaustive enumeration of inputs (all token sequences up to length 3/4, all short character strings, all single-token edits of a corpus, boundary literals, nesting depths, entry shapes) through the real front end and, when accepted, all later stages under catch_unwind; byte-level inputs through the real binary",
    text="No input may make parsing, checking or (for accepted programs with a valid entry point) any later stage panic, other than the capacity assertions. The RV64 print panic is a recorded known finding.",
    note="1 GiB worker stacks; stack exhaustion excluded by the property"),
 "C19": dict(level=EX, design="§4 C19", technique="exhaustive enumeration of 13 scalable program families and of 15 one-hole contexts (singly and in all 210 alternating pairs) at every depth 1..12/16 (pairs ..24/32); growth ratio and quadratic cap on the size of every stage output",
    text="For every family and depth the real pipeline's outputs are measured at six stages: ratio size(k+1)/size(k) <= 1.5 from depth 8 on and size(kmax) <= 64 * source^2.",
    note="printed length without layout stands for node count"),
 "C20": dict(level=EX, design="§4 C20", technique="exhaustive enumeration over a boundary value set and all argument tuples/arities/wrong counts; io.c compiled unmodified into a harness; echo programs compiled by the real pipeline and run natively; AArch64 entry on the emulator",
    text="print_i64/println_i64 on every boundary value (decimal text, nothing else); every argument tuple over a value set with values beyond 32 bits for arities 0..5 natively (0..7 AArch64 on the emulator); every wrong argument count 0..7 reported without running; exit status = low 8 bits.",
    note="gcc/glibc of the sandbox"),
 "C13": dict(level=MC, design="§4 C13", technique="bounded-exhaustive enumeration of programs with prints at 0..22 live variables; every emulated execution under a calling-convention model with definedness tracking",
    text="All executions of the linear AxCut families on x86-64 and AArch64 run under the external-call model: alignment at every call (every SP access on AArch64), caller-saved registers / flags / LR / stack below SP become undefined at each print call and may not reach a branch, address, jump target, print argument or the result; callee-saved registers and SP compared with entry sentinels at return.",
    note="register classes from the System V x86-64 and AAPCS64 documents; print runtime modelled as an arbitrary conforming callee"),
}

ALL = ["C%02d" % i for i in range(1, 21)]
NOT_BUILT_REASON = "no check registered yet (machinery under construction; see DESIGN.md §9 build order)"

def main():
    checks = []
    for pid in ALL:
        if pid not in CHECKS:
            continue
        c = CHECKS[pid]
        checks.append({
            "property_id": pid,
            "quick_cmd": f"./run {pid} quick",
            "thorough_cmd": f"./run {pid} thorough",
            "evidence_file": f"/verif/evidence/{pid}.json",
            "replay_cmd_template": f"./run {pid} --replay {{path}}",
            "engine": "vcheck",
            "level_claimed": {"category": c["level"], "text": c["text"], "design_ref": c["design"]},
            "level_note": c["note"],
            "technique": c["technique"],
        })
    manifest = {
        "version": 1,
        "setup_cmd": "./setup.sh",
        "hooks": {
            "guard": "cargo feature `verif-hooks` (axcut2backend; fun)",
            "enable": "the engine crate /verif/engine depends on the repository crates by path with features = [\"verif-hooks\"]; `./run` rebuilds it against /repo's working tree",
            "baseline_off_cmd": "./repo_tests.sh",
            "source_commits": git_hooks(),
            "add_only": True,
        },
        "engines": [{
            "name": "vcheck", "path": "/verif/engine",
            "serves_properties": sorted(CHECKS.keys()),
            "kind_free_text": "Rust harness linking the repository crates by path: exhaustive enumerators, reference abstract machines, text-level emulators for the three backends with taint tracking, heap/calling-convention monitors, explicit-state BFS over generated code; process-sharded",
        }],
        "checks": checks,
        "not_applicable": [{"property_id": p, "reason": NOT_BUILT_REASON} for p in ALL if p not in CHECKS],
        "notes": "Exit codes: 0 held, 1 violation (VIOLATION line + replay file), 2 machinery error. Known findings: /verif/known_findings.json.",
    }
    json.dump(manifest, open("/verif/MANIFEST.json", "w"), indent=1)
    try:
        import jsonschema
        jsonschema.validate(manifest, json.load(open("/root/.vp/MANIFEST.schema.json")))
        print("MANIFEST.json valid;", len(checks), "checks")
    except ImportError:
        print("jsonschema not importable here; wrote MANIFEST.json unvalidated")

if __name__ == "__main__":
    main()
