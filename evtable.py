#!/usr/bin/env python3
"""Prints one line per evidence file: cases / distinct / states / transitions / wall / exhaustive."""
import json, glob, sys
d = sys.argv[1] if len(sys.argv) > 1 else "/verif/evidence"
for f in sorted(glob.glob(d + "/C*.json")):
    e = json.load(open(f)); c = e["coverage"]
    print(f"{e['property_id']} tier={e['tier']} cases={c.get('cases')} distinct={c.get('distinct_nontrivial')} states={c.get('states')} "
          f"transitions={c.get('transitions')} outcomes={c.get('distinct_outcomes')} wall={e.get('wall_s')} exhaustive={c.get('exhaustive')} cap={c.get('cap_hit')}")
