/* LD_PRELOAD shim: makes the process's hash seeds a harness choice. Rust's std obtains the keys of
 * RandomState through getrandom(); with this shim they are a function of VERIF_HASH_SEED. */
#define _GNU_SOURCE
#include <stdint.h>
#include <stdlib.h>
#include <sys/types.h>

ssize_t getrandom(void *buf, size_t buflen, unsigned int flags) {
  (void)flags;
  const char *s = getenv("VERIF_HASH_SEED");
  uint64_t x = s ? strtoull(s, 0, 10) : 0;
  unsigned char *p = buf;
  for (size_t i = 0; i < buflen; i++) {
    x = x * 6364136223846793005ULL + 1442695040888963407ULL;
    p[i] = (unsigned char)(x >> 56);
  }
  return (ssize_t)buflen;
}
