#!/bin/bash
# setup_cmd: build the engine, the scc binary and the getrandom shim once, offline, from files on disk.
set -e
cd /verif/engine
export CARGO_NET_OFFLINE=true
mkdir -p target
cargo build --release --offline 2>&1 | tail -3
(cd /repo && cargo build --release --offline -p scc --target-dir /verif/engine/target/scc 2>&1 | tail -2)
if [ -f /verif/shim/getrandom_seed.c ]; then
    gcc -shared -fPIC -O1 -o /verif/engine/target/getrandom_seed.so /verif/shim/getrandom_seed.c
fi
