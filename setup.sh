#!/bin/bash
# setup_cmd: build the engine once, offline, from files on disk only.
set -e
cd /verif/engine
export CARGO_NET_OFFLINE=true
mkdir -p target
cargo build --release --offline 2>&1 | tail -3
