//! Native x86-64 execution: the printed NASM text is transliterated (syntax only) to GNU as,
//! assembled, linked with the repository's own C driver and I/O runtime, and run as a process.
//! yasm/nasm are not installed in the sandbox; GNU `as` stands in for them (DESIGN §3.3).
use std::path::{Path, PathBuf};
use std::process::{Command, Stdio};

/// Syntax-only NASM -> GAS (intel_syntax) transliteration.
pub fn nasm_to_gas(text: &str) -> String {
    let mut out = String::with_capacity(text.len() + 64);
    out.push_str(".intel_syntax noprefix\n");
    for line in text.lines() {
        let t = line.trim();
        if let Some(c) = t.strip_prefix(';') {
            out.push_str("#");
            out.push_str(c);
            out.push('\n');
            continue;
        }
        if t.starts_with("section .note.GNU-stack") {
            out.push_str(".section .note.GNU-stack,\"\",@progbits\n");
            continue;
        }
        if t == "section .text" {
            out.push_str(".text\n");
            continue;
        }
        if let Some(r) = t.strip_prefix("extern ") {
            out.push_str(&format!(".extern {r}\n"));
            continue;
        }
        if let Some(r) = t.strip_prefix("global ") {
            out.push_str(&format!(".globl {r}\n"));
            continue;
        }
        let mut l = line.to_string();
        if let Some(p) = l.find("[rel ") {
            l.replace_range(p..p + 5, "[rip + ");
        }
        l = l.replace("qword [", "qword ptr [");
        if let Some(p) = l.find("jmp near ") {
            l.replace_range(p..p + 9, "{disp32} jmp ");
        }
        out.push_str(&l);
        out.push('\n');
    }
    out
}

pub struct NativeEnv {
    pub dir: PathBuf,
    driver_objs: std::collections::HashMap<usize, PathBuf>,
    io_obj: Option<PathBuf>,
    counter: u64,
}

#[derive(Debug, Clone)]
pub struct NativeRun {
    pub stdout: Vec<u8>,
    pub status: Option<i32>,
    pub signal: Option<i32>,
}

impl NativeEnv {
    /// Creates a private scratch directory (under the engine's target directory, never /tmp) and
    /// makes it the working directory, because the repository's `generate_c_driver` writes
    /// relative to the current directory.
    pub fn new(tag: &str) -> Result<NativeEnv, String> {
        let dir = crate::framework::scratch_dir().join(format!("native-{tag}-{}", std::process::id()));
        let _ = std::fs::remove_dir_all(&dir);
        std::fs::create_dir_all(&dir).map_err(|e| e.to_string())?;
        std::env::set_current_dir(&dir).map_err(|e| e.to_string())?;
        Ok(NativeEnv { dir, driver_objs: Default::default(), io_obj: None, counter: 0 })
    }

    fn cc(&self, src: &Path, obj: &Path) -> Result<(), String> {
        let out = Command::new("gcc").arg("-c").arg("-O1").arg("-o").arg(obj).arg(src).output().map_err(|e| format!("gcc: {e}"))?;
        if !out.status.success() {
            return Err(format!("gcc failed on {}: {}", src.display(), String::from_utf8_lossy(&out.stderr)));
        }
        Ok(())
    }

    pub fn io_obj(&mut self) -> Result<PathBuf, String> {
        if let Some(p) = &self.io_obj {
            return Ok(p.clone());
        }
        let src = std::panic::catch_unwind(driver::generate_io_runtime).map_err(|_| "generate_io_runtime panicked".to_string())?;
        let obj = self.dir.join("io.o");
        self.cc(&self.dir.join(&src), &obj)?;
        self.io_obj = Some(obj.clone());
        Ok(obj)
    }

    /// The driver template instantiated for `n` arguments and an explicit heap size (the `--heap-size`
    /// route of `scc codegen`), compiled each time.
    pub fn link_heap(&mut self, obj: &Path, nargs: usize, heap: usize) -> Result<PathBuf, String> {
        let src = std::panic::catch_unwind(|| driver::generate_c_driver(nargs, Some(heap))).map_err(|_| "generate_c_driver panicked".to_string())?;
        let d = self.dir.join(format!("driver{nargs}_h{heap}.o"));
        self.cc(&self.dir.join(&src), &d)?;
        let io = self.io_obj()?;
        let exe = obj.with_extension(format!("h{heap}.exe"));
        let out = Command::new("gcc").arg("-o").arg(&exe).arg(&d).arg(&io).arg(obj).output().map_err(|e| format!("gcc: {e}"))?;
        if !out.status.success() {
            return Err(String::from_utf8_lossy(&out.stderr).lines().take(4).collect::<Vec<_>>().join(" / "));
        }
        Ok(exe)
    }

    /// The repository's own driver template instantiated for `n` arguments, compiled once.
    pub fn driver_obj(&mut self, n: usize) -> Result<PathBuf, String> {
        if let Some(p) = self.driver_objs.get(&n) {
            return Ok(p.clone());
        }
        let src = std::panic::catch_unwind(|| driver::generate_c_driver(n, None)).map_err(|_| "generate_c_driver panicked".to_string())?;
        let obj = self.dir.join(format!("driver{n}.o"));
        self.cc(&self.dir.join(&src), &obj)?;
        self.driver_objs.insert(n, obj.clone());
        Ok(obj)
    }

    /// Assembles the (NASM-syntax) text. Err carries the assembler's diagnostics.
    pub fn assemble(&mut self, nasm_text: &str) -> Result<PathBuf, String> {
        self.counter += 1;
        let s = self.dir.join(format!("p{}.s", self.counter));
        let o = self.dir.join(format!("p{}.o", self.counter));
        std::fs::write(&s, nasm_to_gas(nasm_text)).map_err(|e| e.to_string())?;
        let out = Command::new("as").arg("-o").arg(&o).arg(&s).output().map_err(|e| format!("as: {e}"))?;
        let _ = std::fs::remove_file(&s);
        if !out.status.success() {
            return Err(String::from_utf8_lossy(&out.stderr).lines().take(4).collect::<Vec<_>>().join(" / "));
        }
        Ok(o)
    }

    pub fn link(&mut self, obj: &Path, nargs: usize) -> Result<PathBuf, String> {
        let d = self.driver_obj(nargs)?;
        let io = self.io_obj()?;
        let exe = obj.with_extension("exe");
        let out = Command::new("gcc").arg("-o").arg(&exe).arg(&d).arg(&io).arg(obj).output().map_err(|e| format!("gcc: {e}"))?;
        if !out.status.success() {
            return Err(String::from_utf8_lossy(&out.stderr).lines().take(4).collect::<Vec<_>>().join(" / "));
        }
        Ok(exe)
    }

    pub fn run(&self, exe: &Path, args: &[String]) -> Result<NativeRun, String> {
        use std::os::unix::process::ExitStatusExt;
        let mut child = Command::new(exe).args(args).stdin(Stdio::null()).stdout(Stdio::piped()).stderr(Stdio::null()).spawn().map_err(|e| format!("spawn: {e}"))?;
        // a simple wall-clock guard
        let start = std::time::Instant::now();
        loop {
            match child.try_wait() {
                Ok(Some(_)) => break,
                Ok(None) => {
                    if start.elapsed().as_secs() > 60 {
                        let _ = child.kill();
                        let _ = child.wait();
                        return Ok(NativeRun { stdout: vec![], status: None, signal: Some(-1) });
                    }
                    std::thread::sleep(std::time::Duration::from_micros(200));
                }
                Err(e) => return Err(e.to_string()),
            }
        }
        let out = child.wait_with_output().map_err(|e| e.to_string())?;
        Ok(NativeRun { stdout: out.stdout, status: out.status.code(), signal: out.status.signal() })
    }

    pub fn remove(&self, p: &Path) {
        let _ = std::fs::remove_file(p);
    }

    pub fn cleanup(&self) {
        let _ = std::env::set_current_dir("/verif");
        let _ = std::fs::remove_dir_all(&self.dir);
    }
}

impl Drop for NativeEnv {
    fn drop(&mut self) {
        self.cleanup();
    }
}
