//! Shared check framework: process-level sharding, report merging, evidence files, replay files,
//! known findings, exit codes (DESIGN §2).
use serde_json::{json, Map, Value};
use std::collections::{BTreeMap, BTreeSet, HashSet};
use std::hash::{Hash, Hasher};
use std::io::Write;
use std::path::{Path, PathBuf};
use std::time::Instant;

pub const VERIF_DIR: &str = "/verif";

/// The repository under test (`VERIF_REPO` lets the seed-regression script point a copy of the
/// engine at a copy of the repository; the registered commands always use /repo).
pub fn repo_dir() -> String {
    std::env::var("VERIF_REPO").unwrap_or_else(|_| "/repo".to_string())
}

/// The `scc` binary built by `./run` from the repository's working tree.
pub fn scc_path() -> std::path::PathBuf {
    std::env::var("VERIF_SCC").map(std::path::PathBuf::from).unwrap_or_else(|_| std::path::PathBuf::from("/verif/engine/target/scc/release/scc"))
}

#[derive(Debug, Clone, Copy, PartialEq, Eq)]
pub enum Tier {
    Quick,
    Thorough,
}
impl Tier {
    pub fn name(self) -> &'static str {
        match self {
            Tier::Quick => "quick",
            Tier::Thorough => "thorough",
        }
    }
    pub fn thorough(self) -> bool {
        self == Tier::Thorough
    }
    pub fn parse(s: &str) -> Option<Tier> {
        match s {
            "quick" => Some(Tier::Quick),
            "thorough" => Some(Tier::Thorough),
            _ => None,
        }
    }
}

pub fn hash64<T: Hash>(t: &T) -> u64 {
    // SipHash with fixed keys: deterministic across runs and processes
    #[allow(deprecated)]
    let mut h = std::hash::SipHasher::new_with_keys(0x5eed, 0xc0de);
    t.hash(&mut h);
    h.finish()
}

#[derive(Debug, Clone)]
pub struct Violation {
    /// grouping key: one root cause should map to one signature
    pub sig: String,
    pub msg: String,
    /// everything needed to replay the case without the explorer
    pub case: Value,
}

#[derive(Debug, Default, Clone)]
pub struct Report {
    pub counters: BTreeMap<String, u64>,
    pub maxima: BTreeMap<String, i64>,
    pub samples: Vec<Value>,
    pub violations: Vec<Violation>,
    pub machinery: Vec<String>,
    pub distinct: Vec<u64>,
    pub outcomes: BTreeSet<String>,
    pub notes: Vec<String>,
    /// set when a cap was hit; the text says which and what was completed below it
    pub capped: Option<String>,
}

impl Report {
    pub fn count(&mut self, key: &str, n: u64) {
        *self.counters.entry(key.to_string()).or_insert(0) += n;
    }
    pub fn get(&self, key: &str) -> u64 {
        self.counters.get(key).copied().unwrap_or(0)
    }
    pub fn max(&mut self, key: &str, v: i64) {
        let e = self.maxima.entry(key.to_string()).or_insert(i64::MIN);
        if v > *e {
            *e = v;
        }
    }
    pub fn sample(&mut self, v: Value) {
        if self.samples.len() < 4 {
            self.samples.push(v);
        }
    }
    pub fn violation(&mut self, sig: impl Into<String>, msg: impl Into<String>, case: Value) {
        let sig = sig.into();
        // keep at most 8 witnesses per signature per shard (smallest cases)
        let same: Vec<usize> = self.violations.iter().enumerate().filter(|(_, v)| v.sig == sig).map(|(i, _)| i).collect();
        self.count("violating_cases", 1);
        if same.len() >= 8 {
            return;
        }
        self.violations.push(Violation { sig, msg: msg.into(), case });
    }
    pub fn machinery(&mut self, msg: impl Into<String>) {
        if self.machinery.len() < 20 {
            self.machinery.push(msg.into());
        }
        self.count("machinery_errors", 1);
    }
    pub fn merge(&mut self, other: Report) {
        for (k, v) in other.counters {
            *self.counters.entry(k).or_insert(0) += v;
        }
        for (k, v) in other.maxima {
            let e = self.maxima.entry(k).or_insert(i64::MIN);
            if v > *e {
                *e = v;
            }
        }
        for s in other.samples {
            if self.samples.len() < 8 {
                self.samples.push(s);
            }
        }
        self.violations.extend(other.violations);
        self.machinery.extend(other.machinery);
        self.distinct.extend(other.distinct);
        self.outcomes.extend(other.outcomes);
        self.notes.extend(other.notes);
        if self.capped.is_none() {
            self.capped = other.capped;
        }
    }
    pub fn to_json(&self) -> Value {
        json!({
            "counters": self.counters,
            "maxima": self.maxima,
            "samples": self.samples,
            "violations": self.violations.iter().map(|v| json!({"sig": v.sig, "msg": v.msg, "case": v.case})).collect::<Vec<_>>(),
            "machinery": self.machinery,
            "distinct": self.distinct,
            "outcomes": self.outcomes.iter().collect::<Vec<_>>(),
            "notes": self.notes,
            "capped": self.capped,
        })
    }
    pub fn from_json(v: &Value) -> Report {
        let mut r = Report::default();
        if let Some(m) = v["counters"].as_object() {
            for (k, x) in m {
                r.counters.insert(k.clone(), x.as_u64().unwrap_or(0));
            }
        }
        if let Some(m) = v["maxima"].as_object() {
            for (k, x) in m {
                r.maxima.insert(k.clone(), x.as_i64().unwrap_or(0));
            }
        }
        if let Some(a) = v["samples"].as_array() {
            r.samples = a.clone();
        }
        if let Some(a) = v["violations"].as_array() {
            for x in a {
                r.violations.push(Violation {
                    sig: x["sig"].as_str().unwrap_or("").to_string(),
                    msg: x["msg"].as_str().unwrap_or("").to_string(),
                    case: x["case"].clone(),
                });
            }
        }
        if let Some(a) = v["machinery"].as_array() {
            r.machinery = a.iter().filter_map(|x| x.as_str().map(String::from)).collect();
        }
        if let Some(a) = v["distinct"].as_array() {
            r.distinct = a.iter().filter_map(|x| x.as_u64()).collect();
        }
        if let Some(a) = v["outcomes"].as_array() {
            r.outcomes = a.iter().filter_map(|x| x.as_str().map(String::from)).collect();
        }
        if let Some(a) = v["notes"].as_array() {
            r.notes = a.iter().filter_map(|x| x.as_str().map(String::from)).collect();
        }
        r.capped = v["capped"].as_str().map(String::from);
        r
    }
}

pub struct WorkerCtx {
    pub tier: Tier,
    pub shard: u64,
    pub nshards: u64,
    pub seed: u64,
    pub started: Instant,
    /// soft wall-clock budget for this worker, seconds
    pub budget_s: f64,
}
impl WorkerCtx {
    pub fn mine(&self, idx: u64) -> bool {
        idx % self.nshards == self.shard
    }
    pub fn out_of_time(&self) -> bool {
        self.started.elapsed().as_secs_f64() > self.budget_s
    }
}

pub fn nshards() -> u64 {
    std::env::var("VERIF_JOBS").ok().and_then(|s| s.parse().ok()).unwrap_or_else(|| {
        std::thread::available_parallelism().map(|n| n.get() as u64).unwrap_or(4).min(16)
    })
}

pub fn seed() -> u64 {
    std::env::var("VERIF_SEED").ok().and_then(|s| s.parse().ok()).unwrap_or(0)
}

pub fn scratch_dir() -> PathBuf {
    let p = PathBuf::from(VERIF_DIR).join("engine/target/scratch");
    let _ = std::fs::create_dir_all(&p);
    p
}

/// Spawns `n` worker processes of this binary and merges their reports. A worker that dies
/// without a report is a machinery error.
pub fn run_sharded(check: &str, tier: Tier, extra: &[String]) -> Report {
    let n = nshards();
    let exe = std::env::current_exe().expect("current_exe");
    let dir = scratch_dir().join(format!("{check}-{}-{}", tier.name(), std::process::id()));
    let _ = std::fs::remove_dir_all(&dir);
    std::fs::create_dir_all(&dir).unwrap();
    let mut children = Vec::new();
    for shard in 0..n {
        let out = dir.join(format!("shard{shard}.json"));
        let mut cmd = std::process::Command::new(&exe);
        cmd.arg("worker").arg(check).arg(tier.name()).arg(shard.to_string()).arg(n.to_string()).arg(&out);
        for e in extra {
            cmd.arg(e);
        }
        cmd.stdout(std::process::Stdio::null());
        let child = cmd.spawn().expect("spawn worker");
        children.push((shard, out, child));
    }
    let mut merged = Report::default();
    for (shard, out, mut child) in children {
        let status = child.wait().expect("wait worker");
        match std::fs::read_to_string(&out) {
            Ok(s) => match serde_json::from_str::<Value>(&s) {
                Ok(v) => merged.merge(Report::from_json(&v)),
                Err(e) => merged.machinery(format!("worker {shard}: unreadable report: {e}")),
            },
            Err(_) => merged.machinery(format!("worker {shard} died without a report (status {status})")),
        }
    }
    let _ = std::fs::remove_dir_all(&dir);
    merged
}

pub fn write_worker_report(path: &str, r: &Report) {
    let mut f = std::fs::File::create(path).expect("create worker report");
    f.write_all(serde_json::to_string(&r.to_json()).unwrap().as_bytes()).unwrap();
}

// ---------------------------------------------------------------------------------------------
// known findings
// ---------------------------------------------------------------------------------------------

#[derive(Debug, Clone)]
pub struct Finding {
    pub property: String,
    pub id: String,
    pub status: String,
    pub what: String,
    pub sig_contains: Option<String>,
    pub msg_contains: Option<String>,
}

pub fn load_findings() -> Vec<Finding> {
    let p = Path::new(VERIF_DIR).join("known_findings.json");
    let Ok(s) = std::fs::read_to_string(&p) else { return vec![] };
    let Ok(v) = serde_json::from_str::<Value>(&s) else {
        eprintln!("known_findings.json is not valid JSON");
        std::process::exit(2);
    };
    let mut out = Vec::new();
    if let Some(a) = v["findings"].as_array() {
        for f in a {
            out.push(Finding {
                property: f["property"].as_str().unwrap_or("").to_string(),
                id: f["id"].as_str().unwrap_or("").to_string(),
                status: f["status"].as_str().unwrap_or("").to_string(),
                what: f["what"].as_str().unwrap_or("").to_string(),
                sig_contains: f["match"]["sig_contains"].as_str().map(String::from),
                msg_contains: f["match"]["msg_contains"].as_str().map(String::from),
            });
        }
    }
    out
}

fn finding_matches(f: &Finding, property: &str, v: &Violation) -> bool {
    if f.status != "known" || f.property != property {
        return false;
    }
    if f.sig_contains.is_none() && f.msg_contains.is_none() {
        return false;
    }
    if let Some(s) = &f.sig_contains {
        if !v.sig.contains(s.as_str()) {
            return false;
        }
    }
    if let Some(s) = &f.msg_contains {
        if !v.msg.contains(s.as_str()) {
            return false;
        }
    }
    true
}

// ---------------------------------------------------------------------------------------------
// evidence + verdict
// ---------------------------------------------------------------------------------------------

pub struct CheckMeta {
    pub property: &'static str,
    pub level: &'static str,
    pub rule: String,
    pub assumptions: Vec<String>,
}

/// Finishes a check: groups violations, applies known findings, writes replay files and the
/// evidence file, prints the verdict lines and returns the process exit code.
pub fn finish(meta: &CheckMeta, tier: Tier, started: Instant, mut report: Report, extra_cov: Map<String, Value>) -> i32 {
    let property = meta.property;
    let findings = load_findings();
    // group by signature, smallest witness first
    let mut groups: BTreeMap<String, Vec<Violation>> = BTreeMap::new();
    for v in std::mem::take(&mut report.violations) {
        groups.entry(v.sig.clone()).or_default().push(v);
    }
    let mut new_violations = Vec::new();
    let mut known_hits: BTreeMap<String, (Finding, usize, String)> = BTreeMap::new();
    for (_sig, mut vs) in groups {
        vs.sort_by_key(|v| v.case.to_string().len());
        let v = vs[0].clone();
        match findings.iter().find(|f| finding_matches(f, property, &v)) {
            Some(f) => {
                let e = known_hits.entry(f.id.clone()).or_insert((f.clone(), 0, v.msg.clone()));
                e.1 += vs.len();
            }
            None => new_violations.push((v, vs.len())),
        }
    }
    let replay_dir = Path::new(VERIF_DIR).join("replays").join(property);
    let mut lines = Vec::new();
    for (v, n) in &new_violations {
        let _ = std::fs::create_dir_all(&replay_dir);
        let h = hash64(&(v.sig.clone(), v.case.to_string()));
        let path = replay_dir.join(format!("{h:016x}.json"));
        let body = json!({
            "property": property,
            "tier": tier.name(),
            "signature": v.sig,
            "message": v.msg,
            "witnesses_with_this_signature": n,
            "case": v.case,
        });
        let _ = std::fs::write(&path, serde_json::to_string_pretty(&body).unwrap());
        lines.push(format!("VIOLATION property={property} replay={}", path.display()));
        eprintln!("[{property}] {} :: {}", v.sig, v.msg);
    }
    for (id, (f, n, msg)) in &known_hits {
        println!("KNOWN-FINDING: property={property} {id} {} ({n} witness group(s); e.g. {msg})", f.what);
    }
    let machinery = !report.machinery.is_empty();
    for m in &report.machinery {
        eprintln!("[{property}] MACHINERY: {m}");
    }

    // evidence
    let distinct: HashSet<u64> = report.distinct.iter().copied().collect();
    let mut cov = Map::new();
    for (k, v) in &report.counters {
        cov.insert(k.clone(), json!(v));
    }
    for (k, v) in &report.maxima {
        cov.insert(format!("max_{k}"), json!(v));
    }
    cov.insert("distinct_nontrivial".into(), json!(distinct.len()));
    if !cov.contains_key("evaluations") {
        cov.insert("evaluations".into(), json!(report.get("cases")));
    }
    cov.insert("rule".into(), json!(meta.rule));
    cov.insert("samples".into(), Value::Array(if report.samples.is_empty() { vec![json!("none")] } else { report.samples.clone() }));
    cov.insert("distinct_outcomes".into(), json!(report.outcomes.len()));
    cov.insert("exhaustive".into(), json!(report.capped.is_none() && !machinery));
    if let Some(c) = &report.capped {
        cov.insert("cap_hit".into(), json!(c));
    }
    if !report.notes.is_empty() {
        let mut notes = report.notes.clone();
        notes.sort();
        notes.dedup();
        cov.insert("notes".into(), json!(notes));
    }
    cov.insert("known_findings_hit".into(), json!(known_hits.keys().collect::<Vec<_>>()));
    for (k, v) in extra_cov {
        cov.insert(k, v);
    }
    if meta.level == "model_checking" {
        for k in ["states", "transitions", "traces_validated_against_impl"] {
            if !cov.contains_key(k) {
                cov.insert(k.into(), json!(0));
            }
        }
    }
    let evidence = json!({
        "property_id": property,
        "tier": tier.name(),
        "seed": seed(),
        "level": meta.level,
        "coverage": Value::Object(cov),
        "assumptions": meta.assumptions,
        "wall_s": started.elapsed().as_secs_f64(),
        "violations": new_violations.len(),
    });
    // (VERIF_EVIDENCE_DIR redirects the evidence of exploratory runs away from the committed directory)
    let ev_dir = std::env::var("VERIF_EVIDENCE_DIR").map(PathBuf::from).unwrap_or_else(|_| Path::new(VERIF_DIR).join("evidence"));
    let _ = std::fs::create_dir_all(&ev_dir);
    std::fs::write(ev_dir.join(format!("{property}.json")), serde_json::to_string_pretty(&evidence).unwrap()).expect("write evidence");

    println!(
        "[{property}] tier={} cases={} distinct={} violations={} known={} wall={:.1}s",
        tier.name(),
        report.get("cases"),
        distinct.len(),
        new_violations.len(),
        known_hits.len(),
        started.elapsed().as_secs_f64()
    );
    for l in &lines {
        println!("{l}");
    }
    if !new_violations.is_empty() {
        1
    } else if machinery {
        2
    } else {
        0
    }
}
