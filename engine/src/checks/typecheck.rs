//! C15: the type checker accepts the well-typed-by-construction programs and rejects every single
//! certainly-ill-typed edit of them (mutation classes x every applicable site). Mutations are
//! applied to the parsed syntax tree and handed to the real `Program::check`.
use crate::framework::*;
use crate::generate::funfam::{all_fun_families, FunCase, FunCfg, FunSink};
use crate::pipeline::{guarded, StageError};
use fun::syntax::context::{Chirality, ContextBinding};
use fun::syntax::declarations::Declaration;
use fun::syntax::program::Program;
use fun::syntax::terms::*;
use fun::syntax::types::{Ty, TypeArgs};
use printer::Print;
use serde_json::json;
use std::rc::Rc;

#[derive(Clone, Copy, Debug, PartialEq, Eq)]
pub enum Class {
    CallArgMinus,
    CallArgPlus,
    CtorArgMinus,
    CtorArgPlus,
    DtorArgMinus,
    DtorArgPlus,
    WrongTypeOperand,
    UnboundVar,
    UnboundCovar,
    UnboundDef,
    UnboundCtor,
    UnboundDtor,
    UnboundType,
    MissingClause,
    ExtraClause,
    DuplicateClause,
    ExtraBinder,
    MissingBinder,
    ExtraTypeArg,
    MissingTypeArg,
    ProducerForCovar,
    CtorAtInt,
    NewAtData,
    LitAtData,
    /// constructor of a *different* declared type that is instantiated at the same type arguments
    ForeignCtor,
    /// all clauses of a case / cocase renamed to the xtors of a different declared type
    ForeignClauses,
    /// destructor of a different codata type invoked on the scrutinee
    ForeignDtor,
    /// `goto a (t)` under a new innermost *variable* binding of `a` (an outer covariable `a` exists)
    RebindGotoTarget,
    /// a call / constructor / destructor whose last variable-shaped argument is re-bound right
    /// outside by a `let` at a type no parameter has (covariable arguments become variables)
    RebindArgument,
    /// a variable occurrence under a new innermost *label* of the same name
    RebindVarAsLabel,
    /// the first binder of one clause (the first / second clause that has binders) is renamed to a
    /// fresh name, that clause's body becomes `exit 0`, and the body of the next / previous clause
    /// (cyclically) becomes that fresh name: a binder used in a sibling clause
    SiblingBinderNext0,
    SiblingBinderPrev0,
    SiblingBinderNext1,
    SiblingBinderPrev1,
}

/// Classes that need the twin declarations (`TWIN`) in front of the program.
pub const FOREIGN_CLASSES: [Class; 6] = [Class::ForeignCtor, Class::ForeignClauses, Class::ForeignDtor, Class::RebindGotoTarget, Class::RebindArgument, Class::RebindVarAsLabel];

/// Twin types with the same shape as List / Fun, instantiated (by a signature and by use) at the
/// type arguments the generated programs use most.
const TWIN: &str = "data TwList[A] { TwNil, TwCons(x: A, xs: TwList[A]) }\ncodata TwFun[A, B] { twap(x: A): B }\ndef tw_use(l: TwList[i64], f: TwFun[i64, i64], ll: TwList[TwList[i64]]): i64 { l.case[i64] { TwNil => f.twap[i64, i64](0), TwCons(x, xs) => ll.case[TwList[i64]] { TwNil => x, TwCons(y, ys) => 1 } } }\n";

pub const CLASSES: [Class; 28] = [
    Class::SiblingBinderNext0,
    Class::SiblingBinderPrev0,
    Class::SiblingBinderNext1,
    Class::SiblingBinderPrev1,
    Class::CallArgMinus,
    Class::CallArgPlus,
    Class::CtorArgMinus,
    Class::CtorArgPlus,
    Class::DtorArgMinus,
    Class::DtorArgPlus,
    Class::WrongTypeOperand,
    Class::UnboundVar,
    Class::UnboundCovar,
    Class::UnboundDef,
    Class::UnboundCtor,
    Class::UnboundDtor,
    Class::UnboundType,
    Class::MissingClause,
    Class::ExtraClause,
    Class::DuplicateClause,
    Class::ExtraBinder,
    Class::MissingBinder,
    Class::ExtraTypeArg,
    Class::MissingTypeArg,
    Class::ProducerForCovar,
    Class::CtorAtInt,
    Class::NewAtData,
    Class::LitAtData,
];

fn span() -> miette::SourceSpan {
    fun::syntax::util::dummy_span()
}
fn lit(n: i64) -> Term {
    Lit { span: span(), lit: n }.into()
}
fn nil() -> Term {
    Constructor { span: span(), id: "Nil".into(), args: vec![].into(), ty: None }.into()
}
fn unbound_var() -> Term {
    XVar { span: span(), var: "zz_unbound".into(), ty: None, chi: None }.into()
}

/// `goto` and `exit` check at ANY expected type (they never return): with such a receiver / scrutinee
/// a foreign destructor or foreign clauses are not certainly ill-typed.
fn any_type_term(t: &Term) -> bool {
    match t {
        Term::Goto(_) | Term::Exit(_) => true,
        Term::Paren(p) => any_type_term(&p.inner),
        // terms whose type is that of their continuation / branches
        Term::IfC(i) => any_type_term(&i.thenc) && any_type_term(&i.elsec),
        Term::Let(l) => any_type_term(&l.in_term),
        Term::PrintI64(p) => any_type_term(&p.next),
        Term::Label(l) => any_type_term(&l.term),
        Term::Case(c) => !c.clauses.is_empty() && c.clauses.iter().all(|cl| any_type_term(&cl.body)),
        _ => false,
    }
}

fn sibling_binder(class: Class, clauses: &mut Vec<fun::syntax::terms::Clause>) -> bool {
    let (which, next) = match class {
        Class::SiblingBinderNext0 => (0, true),
        Class::SiblingBinderPrev0 => (0, false),
        Class::SiblingBinderNext1 => (1, true),
        _ => (1, false),
    };
    let with_binders: Vec<usize> = clauses.iter().enumerate().filter(|(_, c)| !c.context_names.bindings.is_empty()).map(|(i, _)| i).collect();
    let Some(&i) = with_binders.get(which) else { return false };
    let n = clauses.len();
    let j = if next { (i + 1) % n } else { (i + n - 1) % n };
    clauses[i].context_names.bindings[0] = "zz_sibling".into();
    clauses[i].body = fun::syntax::terms::Exit { span: span(), arg: std::rc::Rc::new(lit(0)), ty: None }.into();
    clauses[j].body = XVar { span: span(), var: "zz_sibling".into(), ty: None, chi: None }.into();
    true
}

fn last_var_arg(args: &[Term]) -> Option<String> {
    args.iter().rev().find_map(|a| if let Term::XVar(v) = a { Some(v.var.clone()) } else { None })
}

/// `let NAME: TwList[i64] = TwNil; INNER` — NAME becomes a variable of a type nothing else has.
fn rebind_let(name: &str, inner: Term) -> Term {
    let tw = Ty::Decl { span: None, name: "TwList".into(), type_args: TypeArgs { span: None, args: vec![Ty::mk_i64()] } };
    let tw_nil: Term = Constructor { span: span(), id: "TwNil".into(), args: vec![].into(), ty: None }.into();
    Let { span: span(), variable: name.into(), var_ty: tw, bound_term: Rc::new(tw_nil), in_term: Rc::new(inner), ty: None }.into()
}

/// Tries to apply `class` at this node. Returns true if the node was an applicable site (and was
/// mutated).
fn apply(t: &mut Term, class: Class) -> bool {
    // classes that wrap the node itself
    let wrap_name: Option<(String, bool)> = match (class, &*t) {
        (Class::RebindGotoTarget, Term::Goto(g)) => Some((g.target.clone(), false)),
        (Class::RebindArgument, Term::Call(c)) => last_var_arg(&c.args.entries).map(|n| (n, false)),
        (Class::RebindArgument, Term::Constructor(c)) => last_var_arg(&c.args.entries).map(|n| (n, false)),
        (Class::RebindArgument, Term::Destructor(d)) => last_var_arg(&d.args.entries).map(|n| (n, false)),
        (Class::RebindVarAsLabel, Term::XVar(v)) => Some((v.var.clone(), true)),
        _ => None,
    };
    if let Some((name, as_label)) = wrap_name {
        let inner = t.clone();
        *t = if as_label { Label { span: span(), label: name, term: Rc::new(inner), ty: None }.into() } else { rebind_let(&name, inner) };
        return true;
    }
    if matches!(class, Class::RebindGotoTarget | Class::RebindArgument | Class::RebindVarAsLabel) {
        return false;
    }
    match (class, t) {
        (Class::CallArgMinus, Term::Call(c)) if !c.args.entries.is_empty() => {
            c.args.entries.pop();
            true
        }
        (Class::CallArgPlus, Term::Call(c)) => {
            c.args.entries.push(lit(0));
            true
        }
        (Class::CtorArgMinus, Term::Constructor(c)) if !c.args.entries.is_empty() => {
            c.args.entries.pop();
            true
        }
        (Class::CtorArgPlus, Term::Constructor(c)) => {
            c.args.entries.push(lit(0));
            true
        }
        (Class::DtorArgMinus, Term::Destructor(d)) if !d.args.entries.is_empty() => {
            d.args.entries.pop();
            true
        }
        (Class::DtorArgPlus, Term::Destructor(d)) => {
            d.args.entries.push(lit(0));
            true
        }
        (Class::WrongTypeOperand, Term::Op(o)) => {
            o.snd = Rc::new(nil());
            true
        }
        (Class::UnboundVar, Term::XVar(v)) => {
            v.var = "zz_unbound".into();
            true
        }
        (Class::UnboundCovar, Term::Goto(g)) => {
            g.target = "zz_unbound".into();
            true
        }
        (Class::UnboundDef, Term::Call(c)) => {
            c.name = "zz_undefined".into();
            true
        }
        (Class::UnboundCtor, Term::Constructor(c)) => {
            c.id = "ZzUndefined".into();
            true
        }
        (Class::UnboundDtor, Term::Destructor(d)) => {
            d.id = "zz_undefined".into();
            true
        }
        (Class::UnboundType, Term::Let(l)) => {
            l.var_ty = Ty::Decl { span: None, name: "ZzUndeclared".into(), type_args: TypeArgs { span: None, args: vec![] } };
            true
        }
        (Class::MissingClause, Term::Case(c)) if !c.clauses.is_empty() => {
            c.clauses.pop();
            true
        }
        (Class::MissingClause, Term::New(n)) if !n.clauses.is_empty() => {
            n.clauses.pop();
            true
        }
        (Class::ExtraClause, Term::Case(c)) if !c.clauses.is_empty() => {
            let mut extra = c.clauses[0].clone();
            extra.xtor = "ZzExtra".into();
            c.clauses.push(extra);
            true
        }
        (Class::ExtraClause, Term::New(n)) if !n.clauses.is_empty() => {
            let mut extra = n.clauses[0].clone();
            extra.xtor = "zz_extra".into();
            n.clauses.push(extra);
            true
        }
        (Class::SiblingBinderNext0 | Class::SiblingBinderPrev0 | Class::SiblingBinderNext1 | Class::SiblingBinderPrev1, Term::Case(c)) if c.clauses.len() >= 2 => sibling_binder(class, &mut c.clauses),
        (Class::SiblingBinderNext0 | Class::SiblingBinderPrev0 | Class::SiblingBinderNext1 | Class::SiblingBinderPrev1, Term::New(n)) if n.clauses.len() >= 2 => sibling_binder(class, &mut n.clauses),
        (Class::DuplicateClause, Term::Case(c)) if !c.clauses.is_empty() => {
            let dup = c.clauses[0].clone();
            c.clauses.push(dup);
            true
        }
        (Class::DuplicateClause, Term::New(n)) if !n.clauses.is_empty() => {
            let dup = n.clauses[0].clone();
            n.clauses.push(dup);
            true
        }
        (Class::ExtraBinder, Term::Case(c)) if !c.clauses.is_empty() => {
            c.clauses[0].context_names.bindings.push("zz_extra_binder".into());
            true
        }
        (Class::ExtraBinder, Term::New(n)) if !n.clauses.is_empty() => {
            n.clauses[0].context_names.bindings.push("zz_extra_binder".into());
            true
        }
        (Class::MissingBinder, Term::Case(c)) if c.clauses.iter().any(|cl| !cl.context_names.bindings.is_empty()) => {
            let cl = c.clauses.iter_mut().find(|cl| !cl.context_names.bindings.is_empty()).unwrap();
            cl.context_names.bindings.pop();
            true
        }
        (Class::MissingBinder, Term::New(n)) if n.clauses.iter().any(|cl| !cl.context_names.bindings.is_empty()) => {
            let cl = n.clauses.iter_mut().find(|cl| !cl.context_names.bindings.is_empty()).unwrap();
            cl.context_names.bindings.pop();
            true
        }
        (Class::ExtraTypeArg, Term::Case(c)) => {
            c.type_args.args.push(Ty::mk_i64());
            true
        }
        (Class::ExtraTypeArg, Term::Destructor(d)) => {
            d.type_args.args.push(Ty::mk_i64());
            true
        }
        (Class::MissingTypeArg, Term::Case(c)) if !c.type_args.args.is_empty() => {
            c.type_args.args.pop();
            true
        }
        (Class::MissingTypeArg, Term::Destructor(d)) if !d.type_args.args.is_empty() => {
            d.type_args.args.pop();
            true
        }
        // a literal where a covariable is required: the target of a goto cannot be a producer, so
        // the applicable site is an argument that is a covariable variable (found by name below)
        (Class::CtorAtInt, Term::Let(l)) if matches!(l.var_ty, Ty::I64 { .. }) => {
            l.bound_term = Rc::new(nil());
            true
        }
        (Class::NewAtData, Term::Let(l)) if matches!(&l.var_ty, Ty::Decl { name, .. } if name == "List") => {
            let body = lit(1);
            l.bound_term = Rc::new(
                New { span: span(), clauses: vec![Clause { span: span(), pol: fun::syntax::declarations::Polarity::Codata, xtor: "ap".into(), context_names: Default::default(), context: Default::default(), body }], ty: None }.into(),
            );
            true
        }
        (Class::LitAtData, Term::Let(l)) if matches!(&l.var_ty, Ty::Decl { .. }) => {
            l.bound_term = Rc::new(lit(3));
            true
        }
        (Class::ForeignCtor, Term::Constructor(c)) if c.id == "Nil" || c.id == "Cons" => {
            c.id = if c.id == "Nil" { "TwNil".into() } else { "TwCons".into() };
            true
        }
        (Class::ForeignClauses, Term::Case(c)) if !c.clauses.is_empty() && !any_type_term(&c.scrutinee) && c.clauses.iter().all(|cl| cl.xtor == "Nil" || cl.xtor == "Cons") => {
            for cl in &mut c.clauses {
                cl.xtor = if cl.xtor == "Nil" { "TwNil".into() } else { "TwCons".into() };
            }
            true
        }
        (Class::ForeignClauses, Term::New(n)) if n.clauses.len() == 1 && n.clauses[0].xtor == "ap" => {
            n.clauses[0].xtor = "twap".into();
            true
        }
        (Class::ForeignDtor, Term::Destructor(d)) if d.id == "ap" && !any_type_term(&d.scrutinee) => {
            d.id = "twap".into();
            true
        }
        _ => false,
    }
}

/// Pre-order traversal over all subterms; applies `class` at the `target`-th applicable site.
/// Returns the number of applicable sites seen so far (stops early once applied).
fn walk(t: &mut Term, class: Class, target: Option<usize>, seen: &mut usize, done: &mut bool) {
    if *done {
        return;
    }
    // ProducerForCovar: an argument that is syntactically a variable bound as covariable cannot be
    // recognised without scopes; use goto targets' names: replace a call/ctor argument equal to a
    // label name in the enclosing labels — handled through the dedicated sites below.
    let applicable_here = {
        let mut probe = t.clone();
        apply(&mut probe, class)
    };
    if applicable_here {
        if Some(*seen) == target {
            apply(t, class);
            *done = true;
            *seen += 1;
            return;
        }
        *seen += 1;
    }
    let rc = |x: &mut Rc<Term>, seen: &mut usize, done: &mut bool| walk(Rc::make_mut(x), class, target, seen, done);
    match t {
        Term::XVar(_) | Term::Lit(_) => {}
        Term::Op(o) => {
            rc(&mut o.fst, seen, done);
            rc(&mut o.snd, seen, done);
        }
        Term::IfC(i) => {
            rc(&mut i.fst, seen, done);
            if let Some(s) = &mut i.snd {
                rc(s, seen, done);
            }
            rc(&mut i.thenc, seen, done);
            rc(&mut i.elsec, seen, done);
        }
        Term::PrintI64(p) => {
            rc(&mut p.arg, seen, done);
            rc(&mut p.next, seen, done);
        }
        Term::Let(l) => {
            rc(&mut l.bound_term, seen, done);
            rc(&mut l.in_term, seen, done);
        }
        Term::Call(c) => {
            for a in &mut c.args.entries {
                walk(a, class, target, seen, done);
            }
        }
        Term::Constructor(c) => {
            for a in &mut c.args.entries {
                walk(a, class, target, seen, done);
            }
        }
        Term::Destructor(d) => {
            rc(&mut d.scrutinee, seen, done);
            for a in &mut d.args.entries {
                walk(a, class, target, seen, done);
            }
        }
        Term::Case(c) => {
            rc(&mut c.scrutinee, seen, done);
            for cl in &mut c.clauses {
                walk(&mut cl.body, class, target, seen, done);
            }
        }
        Term::New(n) => {
            for cl in &mut n.clauses {
                walk(&mut cl.body, class, target, seen, done);
            }
        }
        Term::Label(l) => rc(&mut l.term, seen, done),
        Term::Goto(g) => rc(&mut g.term, seen, done),
        Term::Exit(e) => rc(&mut e.arg, seen, done),
        Term::Paren(p) => rc(&mut p.inner, seen, done),
    }
}

fn count_sites(prog: &Program, class: Class) -> usize {
    let mut p = prog.clone();
    let mut seen = 0;
    let mut done = false;
    for d in &mut p.declarations {
        if let Declaration::Def(def) = d {
            walk(&mut def.body, class, None, &mut seen, &mut done);
        }
    }
    seen
}

fn mutate(prog: &Program, class: Class, target: usize) -> Option<Program> {
    let mut p = prog.clone();
    let mut seen = 0;
    let mut done = false;
    for d in &mut p.declarations {
        if let Declaration::Def(def) = d {
            walk(&mut def.body, class, Some(target), &mut seen, &mut done);
            if done {
                return Some(p);
            }
        }
    }
    None
}

/// The program with its definitions in reverse order, and with all declarations in reverse order.
fn reorderings(prog: &Program) -> Vec<(&'static str, Program)> {
    let mut out = Vec::new();
    let defs: Vec<Declaration> = prog.declarations.iter().filter(|d| matches!(d, Declaration::Def(_))).cloned().collect();
    if defs.len() >= 2 {
        let mut p = prog.clone();
        let mut rev = defs.into_iter().rev();
        for d in &mut p.declarations {
            if matches!(d, Declaration::Def(_)) {
                *d = rev.next().unwrap();
            }
        }
        out.push(("reversed-definitions", p));
    }
    if prog.declarations.len() >= 2 {
        let mut p = prog.clone();
        p.declarations.reverse();
        out.push(("reversed-declarations", p));
    }
    out
}

/// Program-level edits (duplicate declarations / parameters).
fn program_level(prog: &Program) -> Vec<(&'static str, Program)> {
    let mut out = Vec::new();
    if let Some(pos) = prog.declarations.iter().position(|d| matches!(d, Declaration::Def(_))) {
        let mut p = prog.clone();
        let dup = p.declarations[pos].clone();
        p.declarations.push(dup);
        out.push(("duplicate-definition", p));
        let mut p = prog.clone();
        if let Declaration::Def(d) = &mut p.declarations[pos] {
            if let Some(b) = d.context.bindings.first().cloned() {
                d.context.bindings.push(b);
                out.push(("duplicate-parameter", p));
            }
        }
    }
    if let Some(pos) = prog.declarations.iter().position(|d| matches!(d, Declaration::Data(_))) {
        let mut p = prog.clone();
        let dup = p.declarations[pos].clone();
        p.declarations.push(dup);
        out.push(("duplicate-type", p));
        let mut p = prog.clone();
        if let Declaration::Data(d) = &mut p.declarations[pos] {
            if let Some(c) = d.ctors.first().cloned() {
                d.ctors.push(c);
                out.push(("duplicate-constructor", p));
            }
        }
    }
    if let Some(pos) = prog.declarations.iter().position(|d| matches!(d, Declaration::Codata(_))) {
        let mut p = prog.clone();
        if let Declaration::Codata(d) = &mut p.declarations[pos] {
            if let Some(c) = d.dtors.first().cloned() {
                d.dtors.push(c);
                out.push(("duplicate-destructor", p));
            }
        }
    }
    // ill-formed type parameter lists: a parameter bound twice; a parameter named like a declared type
    for (pos, d) in prog.declarations.iter().enumerate() {
        let (params, is_data) = match d {
            Declaration::Data(d) => (&d.type_params, true),
            Declaration::Codata(d) => (&d.type_params, false),
            _ => continue,
        };
        if params.bindings.is_empty() {
            continue;
        }
        let mut p = prog.clone();
        match &mut p.declarations[pos] {
            Declaration::Data(d) => {
                let first = d.type_params.bindings[0].clone();
                d.type_params.bindings.push(first);
            }
            Declaration::Codata(d) => {
                let first = d.type_params.bindings[0].clone();
                d.type_params.bindings.push(first);
            }
            _ => {}
        }
        out.push((if is_data { "duplicate-type-parameter-data" } else { "duplicate-type-parameter-codata" }, p));
        // rename the first parameter (binder and every use inside the declaration) to the name of
        // another declared type
        let other = prog.declarations.iter().enumerate().find_map(|(i, o)| match o {
            Declaration::Data(o) if i != pos => Some(o.name.clone()),
            Declaration::Codata(o) if i != pos => Some(o.name.clone()),
            _ => None,
        });
        if let Some(other) = other {
            fn rename(t: &mut Ty, from: &str, to: &str) {
                if let Ty::Decl { name, type_args, .. } = t {
                    if name == from && type_args.args.is_empty() {
                        *name = to.to_string();
                    }
                    for a in &mut type_args.args {
                        rename(a, from, to);
                    }
                }
            }
            let mut p = prog.clone();
            match &mut p.declarations[pos] {
                Declaration::Data(d) => {
                    let from = d.type_params.bindings[0].clone();
                    d.type_params.bindings[0] = other.clone();
                    for c in &mut d.ctors {
                        for b in &mut c.args.bindings {
                            rename(&mut b.ty, &from, &other);
                        }
                    }
                }
                Declaration::Codata(d) => {
                    let from = d.type_params.bindings[0].clone();
                    d.type_params.bindings[0] = other.clone();
                    for c in &mut d.dtors {
                        for b in &mut c.args.bindings {
                            rename(&mut b.ty, &from, &other);
                        }
                        rename(&mut c.cont_ty, &from, &other);
                    }
                }
                _ => {}
            }
            out.push((if is_data { "type-parameter-named-like-a-type-data" } else { "type-parameter-named-like-a-type-codata" }, p));
        }
    }
    // wrong number of type arguments inside declarations and signatures: every type occurrence
    {
        fn sites(p: &mut Program) -> Vec<&mut Ty> {
            let mut v: Vec<&mut Ty> = Vec::new();
            for d in &mut p.declarations {
                match d {
                    Declaration::Data(d) => {
                        for c in &mut d.ctors {
                            for b in &mut c.args.bindings {
                                v.push(&mut b.ty);
                            }
                        }
                    }
                    Declaration::Codata(d) => {
                        for c in &mut d.dtors {
                            for b in &mut c.args.bindings {
                                v.push(&mut b.ty);
                            }
                            v.push(&mut c.cont_ty);
                        }
                    }
                    Declaration::Def(d) => {
                        for b in &mut d.context.bindings {
                            v.push(&mut b.ty);
                        }
                        v.push(&mut d.ret_ty);
                    }
                }
            }
            v
        }
        let n = sites(&mut prog.clone()).len();
        for i in 0..n {
            for minus in [true, false] {
                let mut p = prog.clone();
                let mut applied = false;
                {
                    let mut ss = sites(&mut p);
                    if let Ty::Decl { type_args, .. } = &mut *ss[i] {
                        if minus {
                            if !type_args.args.is_empty() {
                                type_args.args.pop();
                                applied = true;
                            }
                        } else {
                            type_args.args.push(Ty::mk_i64());
                            applied = true;
                        }
                    }
                }
                if applied {
                    out.push((if minus { "missing-type-argument-in-declaration" } else { "extra-type-argument-in-declaration" }, p));
                }
            }
            // an undeclared name (neither a type nor a type parameter in scope) in place of the type,
            // and in place of its last type argument (one level down: `List[Zzz9]`)
            for nested in [false, true] {
                let mut p = prog.clone();
                let mut applied = false;
                {
                    let mut ss = sites(&mut p);
                    let undeclared = Ty::mk_decl("Zzz9", fun::syntax::types::TypeArgs::mk(vec![]));
                    if nested {
                        if let Ty::Decl { type_args, .. } = &mut *ss[i] {
                            if let Some(last) = type_args.args.last_mut() {
                                *last = undeclared;
                                applied = true;
                            }
                        }
                    } else {
                        *ss[i] = undeclared;
                        applied = true;
                    }
                }
                if applied {
                    out.push((if nested { "undeclared-type-argument-in-declaration" } else { "undeclared-type-in-declaration" }, p));
                }
            }
        }
    }
    // a producer where a covariable parameter is required, and a covariable used as a term
    for (pos, d) in prog.declarations.iter().enumerate() {
        if let Declaration::Def(def) = d {
            let body_text = def.body.print_to_string(None);
            if def.context.bindings.iter().any(|b| b.chi == Chirality::Cns && body_text.contains(&format!("goto {} ", b.var))) {
                // turn the covariable parameter into a variable parameter of the same type: its uses
                // as goto target / covariable argument become ill-typed
                let mut p = prog.clone();
                if let Declaration::Def(d2) = &mut p.declarations[pos] {
                    for b in &mut d2.context.bindings {
                        if b.chi == Chirality::Cns {
                            *b = ContextBinding { var: b.var.clone(), chi: Chirality::Prd, ty: b.ty.clone() };
                        }
                    }
                }
                out.push(("variable-where-covariable-required", p));
            }
        }
    }
    out
}

pub fn check_base(case: &FunCase, rep: &mut Report) {
    let parsed = match crate::pipeline::parse(&case.src) {
        Ok(p) => p,
        Err(e) => {
            rep.machinery(format!("{}: {e:?}", case.name));
            return;
        }
    };
    // (+) the well-typed program must be accepted
    rep.count("cases", 1);
    rep.count("evaluations", 1);
    match guarded("check", || parsed.clone().check()) {
        Ok(Ok(_)) => rep.count("accepted_well_typed", 1),
        Ok(Err(e)) => {
            rep.violation("reject-well-typed".to_string(), format!("{}: a well-typed program is rejected: {e:?}", case.name), json!({"kind": "tc-accept", "name": case.name, "source": case.src}));
            return;
        }
        Err(e) => {
            rep.violation("check-panic".to_string(), format!("{}: {e:?}", case.name), json!({"kind": "tc-accept", "name": case.name, "source": case.src}));
            return;
        }
    }
    // (+) the order of declarations is immaterial: the same program with its definitions reversed,
    // and with all declarations reversed, must be accepted as well (instances of types are created
    // on demand while checking; nothing may depend on what was checked earlier)
    for (label, reordered) in reorderings(&parsed) {
        rep.count("cases", 1);
        rep.count("evaluations", 1);
        match guarded("check", || reordered.clone().check()) {
            Ok(Ok(_)) => rep.count("accepted_reordered", 1),
            Ok(Err(e)) => {
                rep.violation(
                    format!("reject-well-typed/{label}"),
                    format!("{}: the program is accepted, but rejected after {label}: {e:?}", case.name),
                    json!({"kind": "tc-mutant", "name": case.name, "edit": label, "mutant": reordered.print_to_string(None)}),
                );
            }
            Err(e) => rep.violation(format!("check-panic/{label}"), format!("{}: {e:?}", case.name), json!({"kind": "tc-mutant", "name": case.name, "edit": label, "mutant": reordered.print_to_string(None)})),
        }
    }
    // (-) every single certainly-ill-typed edit must be rejected
    let verdict = |label: String, mutant: Program, rep: &mut Report| {
        rep.count("cases", 1);
        rep.count("evaluations", 1);
        let text = mutant.print_to_string(None);
        rep.distinct.push(hash64(&text));
        match guarded("check", || mutant.check()) {
            Ok(Err(_)) => {
                rep.count("rejected_ill_typed", 1);
                rep.outcomes.insert(format!("rejected/{}", label.split('@').next().unwrap_or("")));
            }
            Ok(Ok(_)) => {
                rep.outcomes.insert("violation/accepted".into());
                rep.violation(
                    format!("accept-ill-typed/{}", label.split('@').next().unwrap_or("")),
                    format!("{}: the edit {label} yields an ill-typed program that the checker accepts", case.name),
                    json!({"kind": "tc-mutant", "name": case.name, "edit": label, "mutant": text}),
                );
            }
            Err(StageError::Panic { msg, .. }) => {
                rep.violation(
                    format!("check-panic/{}", label.split('@').next().unwrap_or("")),
                    format!("{}: the checker panics on the edit {label}: {msg}", case.name),
                    json!({"kind": "tc-mutant", "name": case.name, "edit": label, "mutant": text}),
                );
            }
            Err(e) => rep.machinery(format!("{e:?}")),
        }
    };
    for class in CLASSES {
        let n = count_sites(&parsed, class);
        for target in 0..n {
            if let Some(m) = mutate(&parsed, class, target) {
                verdict(format!("{class:?}@{target}"), m, rep);
            }
        }
    }
    for (label, m) in program_level(&parsed) {
        verdict(label.to_string(), m, rep);
    }
    // foreign xtors: the twin declarations are put in front (so that their instances exist when the
    // edited term is checked); the twinned program itself must still be accepted
    if FOREIGN_CLASSES.iter().any(|c| count_sites(&parsed, *c) > 0) {
        let twinned = match crate::pipeline::parse(&format!("{TWIN}{}", case.src)) {
            Ok(p) => p,
            Err(e) => {
                rep.machinery(format!("{}: twinned program does not parse: {e:?}", case.name));
                return;
            }
        };
        match guarded("check", || twinned.clone().check()) {
            Ok(Ok(_)) => {}
            other => {
                rep.machinery(format!("{}: twinned program is not accepted: {:?}", case.name, other.map(|r| r.map(|_| ()))));
                return;
            }
        }
        for class in FOREIGN_CLASSES {
            let n = count_sites(&twinned, class);
            for target in 0..n {
                if let Some(m) = mutate(&twinned, class, target) {
                    verdict(format!("{class:?}@{target}"), m, rep);
                }
            }
        }
    }
}

pub fn worker(ctx: &WorkerCtx) -> Report {
    let mut rep = Report::default();
    let cfg = FunCfg { thorough: ctx.tier.thorough(), small_max: 0, with_unsequenced: true };
    {
        let mut handle = |case: FunCase| {
            // the small family is huge: mutate a slice of it, accept-check all of it
            let full = !case.name.starts_with("small/") || hash64(&case.name) % (if ctx.tier.thorough() { 4 } else { 40 }) == 0;
            if full {
                check_base(&case, &mut rep);
            } else {
                rep.count("cases", 1);
                rep.count("evaluations", 1);
                match crate::pipeline::parse_check(&case.src) {
                    Ok(_) => rep.count("accepted_well_typed", 1),
                    Err(e) => rep.violation("reject-well-typed".to_string(), format!("{}: {e:?}", case.name), json!({"kind": "tc-accept", "name": case.name, "source": case.src})),
                }
            }
        };
        let mut sink = FunSink { idx: 0, shard: ctx.shard, n: ctx.nshards, f: &mut handle };
        all_fun_families(&cfg, &mut sink);
    }
    // polymorphic declarations instantiated at several types, shadowing, covariable parameters
    if ctx.shard == 0 {
        for (i, src) in extra_positive().iter().enumerate() {
            check_base(&FunCase { name: format!("positive/{i}"), src: src.to_string(), inputs: vec![], sequenced: true }, &mut rep);
        }
    }
    rep.sample(json!({"classes": CLASSES.iter().chain(FOREIGN_CLASSES.iter()).map(|c| format!("{c:?}")).collect::<Vec<_>>()}));
    rep
}

fn extra_positive() -> Vec<&'static str> {
    vec![
        "data List[A] { Nil, Cons(x: A, xs: List[A]) }\ndata Pair[A, B] { Tup(a: A, b: B) }\ndef f(p: Pair[i64, List[i64]], q: Pair[List[i64], i64]): i64 { p.case[i64, List[i64]] { Tup(a, b) => q.case[List[i64], i64] { Tup(c, d) => a + d } } }\ndef main(n: i64): i64 { f(Tup(n, Nil), Tup(Cons(1, Nil), 2)) }\n",
        "data List[A] { Nil, Cons(x: A, xs: List[A]) }\ndef len2(l: List[List[i64]]): i64 { l.case[List[i64]] { Nil => 0, Cons(h, t) => (h.case[i64] { Nil => 0, Cons(a, b) => 1 }) + len2(t) } }\ndef main(n: i64): i64 { len2(Cons(Cons(n, Nil), Cons(Nil, Nil))) }\n",
        "codata Fun[A, B] { ap(x: A): B }\ndef compose(f: Fun[i64, i64], g: Fun[i64, Fun[i64, i64]]): Fun[i64, i64] { new { ap(x) => f.ap[i64, i64](g.ap[i64, Fun[i64, i64]](x).ap[i64, i64](x)) } }\ndef main(n: i64): i64 { compose(new { ap(x) => x + 1 }, new { ap(x) => new { ap(y) => x * y } }).ap[i64, i64](n) }\n",
        "def k(x: i64, a :cns i64, b :cns i64): i64 { if x == 0 { goto a (1) } else { goto b (x) } }\ndef main(n: i64): i64 { label a { label b { k(n, a, b) } } }\n",
        "def main(x: i64): i64 { let x: i64 = x + 1; let x: i64 = x * 2; label x { 3 } }\n",
    ]
}
