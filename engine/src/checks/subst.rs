//! C11: explicit substitutions are simultaneous assignments. Complete enumeration of all maps
//! new(m) -> old(n), all kind assignments, all window offsets across the register/spill boundary,
//! on all three backends; each case compiles one real `Substitute` statement and runs it.
use crate::arch::{arch_info, fragment};
use crate::emu::any::{run_any, AnyProg, AnyState};
use crate::emu::{ArchInfo, Fault, Loc, NoMonitor, Stop, Word, HEAP_BASE};
use crate::framework::*;
use crate::generate::axb::{ident, std_types, ty};
use crate::pipeline::{codegen, Arch, StageError};
use axcut::syntax::statements::*;
use axcut::syntax::{Chirality, ContextBinding, Identifier, Statement, Ty, TypingContext};
use serde_json::json;
use std::rc::Rc;

#[derive(Clone, Debug)]
pub struct SubCase {
    pub arch: Arch,
    /// number of identity integer variables in front of the window
    pub off: usize,
    /// kinds of the old window variables: true = object
    pub obj: Vec<bool>,
    /// for each new window variable, the index of its source in the old window
    pub map: Vec<usize>,
    /// all object variables alias one block
    pub alias: bool,
    /// the object variables are closures / continuations (chirality cns) instead of data (prd)
    pub cns: bool,
    /// naming of the new variables: false = the first use of a source keeps the source's identifier,
    /// copies are fresh (what the linearizer writes); true = the new variable at position j takes the
    /// identifier of the old variable at position j (an "in-place" substitution such as
    /// `(a := b)(b := a)`: same names, different sources)
    pub positional: bool,
}

impl SubCase {
    pub fn to_json(&self) -> serde_json::Value {
        json!({"kind": "subst", "arch": self.arch.name(), "off": self.off, "obj": self.obj, "map": self.map, "alias": self.alias, "cns": self.cns, "positional": self.positional})
    }
    pub fn from_json(v: &serde_json::Value) -> Option<SubCase> {
        Some(SubCase {
            arch: match v["arch"].as_str()? {
                "x86_64" => Arch::X86,
                "aarch64" => Arch::A64,
                _ => Arch::Rv64,
            },
            off: v["off"].as_u64()? as usize,
            obj: v["obj"].as_array()?.iter().filter_map(|x| x.as_bool()).collect(),
            map: v["map"].as_array()?.iter().filter_map(|x| x.as_u64().map(|y| y as usize)).collect(),
            alias: v["alias"].as_bool()?,
            cns: v["cns"].as_bool().unwrap_or(false),
            positional: v["positional"].as_bool().unwrap_or(false),
        })
    }
}

fn binding(is_obj: bool, id: usize, cns: bool) -> ContextBinding {
    let var = Identifier { name: "v".into(), id };
    if is_obj && cns {
        ContextBinding { var, chi: Chirality::Cns, ty: ty("_Cont") }
    } else if is_obj {
        ContextBinding { var, chi: Chirality::Prd, ty: ty("Box") }
    } else {
        ContextBinding { var, chi: Chirality::Ext, ty: Ty::I64 }
    }
}

pub struct Template {
    pub info: ArchInfo,
    pub state: AnyState,
}

pub fn template(arch: Arch) -> Result<Template, String> {
    let info = arch_info(arch);
    let types = std_types();
    let heap_words = info.block_words * 16;
    let state = match arch {
        Arch::Rv64 => AnyState::entry(arch, &info, heap_words, 8, &[]),
        _ => {
            let main = crate::generate::axb::def("main", vec![], Call { label: ident("stopinit"), args: TypingContext { bindings: vec![] } }.into());
            let p = crate::generate::axb::prog(vec![main], types);
            let (text, _) = codegen(p, arch).map_err(|e| format!("{e:?}"))?;
            let mut prog = AnyProg::new(arch);
            prog.append(&text)?;
            let entry = prog.label("asm_main").ok_or("no asm_main")?;
            let mut st = AnyState::entry(arch, &info, heap_words, 400, &[]);
            let r = run_any(&prog, &info, &mut st, entry, 10_000, &mut NoMonitor);
            match r.stop {
                Stop::External(l) if l == "stopinit_" => {}
                other => return Err(format!("prologue did not reach main: {other:?}")),
            }
            st
        }
    };
    Ok(Template { info, state })
}

pub enum SubVerdict {
    Ok { insns: u64 },
    Capacity,
    Violation(String, String),
    Machinery(String),
}

pub fn run_sub(t: &Template, c: &SubCase) -> SubVerdict {
    let info = &t.info;
    let types = std_types();
    let n_old = c.off + c.obj.len();
    let n_new = c.off + c.map.len();
    if 2 * n_old.max(n_new) + 2 > info.temps.len() {
        return SubVerdict::Capacity;
    }
    // old and new environments
    let old_kinds: Vec<bool> = std::iter::repeat(false).take(c.off).chain(c.obj.iter().copied()).collect();
    let old_ctx: Vec<ContextBinding> = old_kinds.iter().enumerate().map(|(i, o)| binding(*o, i + 1, c.cns)).collect();
    let src: Vec<usize> = (0..c.off).chain(c.map.iter().map(|s| c.off + *s)).collect();
    let rearrange: Vec<(ContextBinding, Identifier)> = src
        .iter()
        .enumerate()
        .map(|(j, s)| {
            // the first use of a source keeps its identifier (as the linearizer does), copies are fresh
            let first = src[..j].iter().all(|x| x != s);
            let id = if c.positional {
                if j < old_ctx.len() { old_ctx[j].var.id } else { 100 + j }
            } else if first {
                old_ctx[*s].var.id
            } else {
                100 + j
            };
            (binding(old_kinds[*s], id, c.cns), old_ctx[*s].var.clone())
        })
        .collect();
    let stmt: Statement = Substitute {
        rearrange,
        next: Rc::new(Call { label: ident("stop0"), args: TypingContext { bindings: vec![] } }.into()),
    }
    .into();
    let text = match fragment(c.arch, &types, stmt, TypingContext { bindings: old_ctx }) {
        Ok(t) => t,
        Err(StageError::Panic { msg, .. }) if super::codegen::is_capacity_panic(&msg) => return SubVerdict::Capacity,
        Err(e) => return SubVerdict::Violation("codegen-panic".into(), format!("{e:?}")),
    };
    let mut prog = AnyProg::new(c.arch);
    let start = match prog.append(&text) {
        Ok(s) => s,
        Err(e) => return SubVerdict::Machinery(e),
    };

    // ---- pre-state ----------------------------------------------------------------------------
    let mut st = t.state.clone();
    let bw = info.block_words;
    let dead = crate::emu::any::SCRUBBED;
    for p in 0..info.temps.len() {
        st.set_loc(info.temps[p], dead);
    }
    for r in &info.scratch_regs {
        st.set_reg(*r, dead);
    }
    if let Some(off) = info.scratch_spill {
        st.set_loc(Loc::Spill(off), dead);
    }
    st.clear_flags();
    // heap: block 0 is the spare, object blocks follow, then the frontier
    let objs: Vec<usize> = (0..n_old).filter(|i| old_kinds[*i]).collect();
    let nblocks = if c.alias { objs.len().min(1) } else { objs.len() };
    let block_addr = |k: usize| HEAP_BASE as i64 + ((1 + k) * bw * 8) as i64;
    let block_of = |var: usize| -> usize {
        if c.alias { 0 } else { objs.iter().position(|x| *x == var).unwrap() }
    };
    let mut counts: Vec<i64> = Vec::new();
    for k in 0..nblocks {
        let cnt = if c.alias { objs.len() as i64 - 1 + (objs.len() as i64 % 2) } else { (k % 3) as i64 };
        counts.push(cnt);
        let base = (1 + k) * bw;
        let mem = st.mem_mut();
        mem.heap[base + (info.refcount_off / 8) as usize] = Word::def(cnt);
        for (fi, (fst, snd)) in info.field_off.iter().enumerate() {
            mem.heap[base + (*fst / 8) as usize] = Word::def(0);
            mem.heap[base + (*snd / 8) as usize] = Word::def(7000 + (k * 10 + fi) as i64);
        }
        mem.heap_high_water = mem.heap_high_water.max(base + bw);
    }
    let frontier_addr = block_addr(nblocks);
    st.set_reg(info.free_reg, Word::def(frontier_addr));
    st.set_reg(info.heap_reg, Word::def(HEAP_BASE as i64));
    let mut old_vals: Vec<(Word, Word)> = Vec::new();
    for i in 0..n_old {
        let (fst, snd) = if old_kinds[i] {
            (Word::def(block_addr(block_of(i))), Word::def(5000 + i as i64))
        } else {
            (dead, Word::def(1000 + i as i64))
        };
        st.set_loc(info.temps[2 * i], fst);
        st.set_loc(info.temps[2 * i + 1], snd);
        old_vals.push((fst, snd));
    }
    let pre = st.clone();

    // ---- run ----------------------------------------------------------------------------------
    let r = run_any(&prog, info, &mut st, start, 50_000, &mut NoMonitor);
    match &r.stop {
        Stop::External(l) if l == "stop0_" => {}
        Stop::Fault(Fault::Unmodelled(m)) => return SubVerdict::Machinery(m.clone()),
        Stop::Fault(f) => {
            let kind = match f {
                Fault::Undefined(_) => "reads-dead-value",
                Fault::OutOfBounds { .. } => "memory-safety",
                _ => "fault",
            };
            return SubVerdict::Violation(kind.into(), format!("{f:?}; last instructions: {}", r.tail.join(" | ")));
        }
        other => return SubVerdict::Violation("control".into(), format!("substitution ended with {other:?}")),
    }

    // ---- post-state ---------------------------------------------------------------------------
    for (j, s) in src.iter().enumerate() {
        let snd = st.get_loc(info.temps[2 * j + 1]);
        if snd != old_vals[*s].1 {
            return SubVerdict::Violation(
                "wrong-value".into(),
                format!("new variable {j} (source old {s}) holds {snd:?} in its second temporary, expected {:?}", old_vals[*s].1),
            );
        }
        if old_kinds[*s] {
            let fst = st.get_loc(info.temps[2 * j]);
            if fst != old_vals[*s].0 {
                return SubVerdict::Violation(
                    "wrong-value".into(),
                    format!("new object variable {j} (source old {s}) holds {fst:?} in its first temporary, expected {:?}", old_vals[*s].0),
                );
            }
        }
    }
    // reference counts and releases
    let mut expected_free = frontier_addr;
    let mut released: Vec<usize> = Vec::new();
    for k in 0..nblocks {
        let holders: Vec<usize> = objs.iter().copied().filter(|v| block_of(*v) == k).collect();
        let delta: i64 = holders.iter().map(|v| src.iter().filter(|s| *s == v).count() as i64 - 1).sum();
        let expect = counts[k] + delta;
        let base = (1 + k) * bw;
        let w0 = st.mem().heap[base + (info.refcount_off / 8) as usize];
        if expect >= 0 {
            if !w0.d || w0.v != expect {
                return SubVerdict::Violation(
                    "wrong-count".into(),
                    format!("block {k}: count {} before, {} net copies, stored count afterwards {w0:?}, expected {expect}", counts[k], delta),
                );
            }
        } else if expect == -1 {
            released.push(k);
        } else {
            return SubVerdict::Machinery(format!("inconsistent pre-state: count {} delta {delta}", counts[k]));
        }
    }
    // released blocks must form the deferred list, each exactly once, ending at the old frontier
    let mut cur = st.reg(info.free_reg);
    let mut seen: Vec<usize> = Vec::new();
    let mut guard = 0;
    loop {
        guard += 1;
        if guard > 32 || !cur.d {
            return SubVerdict::Violation("release".into(), "deferred list is broken after the substitution".into());
        }
        if cur.v == frontier_addr {
            break;
        }
        let off = cur.v - HEAP_BASE as i64;
        if off <= 0 || off % (bw as i64 * 8) != 0 {
            return SubVerdict::Violation("release".into(), format!("free register / link holds {:#x}", cur.v));
        }
        let k = (off / (bw as i64 * 8)) as usize - 1;
        if k >= nblocks || seen.contains(&k) {
            return SubVerdict::Violation("release".into(), format!("block {k} released twice or not a block"));
        }
        seen.push(k);
        cur = st.mem().heap[(1 + k) * bw + (info.next_off / 8) as usize];
    }
    let _ = &mut expected_free;
    let mut a = seen.clone();
    a.sort();
    let mut b = released.clone();
    b.sort();
    if a != b {
        return SubVerdict::Violation(
            "release".into(),
            format!("blocks on the deferred list afterwards: {a:?}; blocks whose last reference was dropped: {b:?}"),
        );
    }
    // frame: nothing else changed
    if st.reg(info.heap_reg) != pre.reg(info.heap_reg) {
        return SubVerdict::Violation("frame".into(), "the heap register changed".into());
    }
    if st.sp() != pre.sp() {
        return SubVerdict::Violation("frame".into(), "the stack pointer changed".into());
    }
    for (i, (x, y)) in st.mem().heap.iter().zip(pre.mem().heap.iter()).enumerate() {
        if x != y {
            let blk = i / bw;
            let is_w0 = i % bw == (info.refcount_off / 8) as usize;
            if !(is_w0 && blk >= 1 && blk <= nblocks) {
                return SubVerdict::Violation("frame".into(), format!("heap word {i} (block {blk}) changed from {y:?} to {x:?}"));
            }
        }
    }
    // stack words above the spill area (saved registers, return address) are untouched
    if c.arch != Arch::Rv64 {
        let sp = pre.sp();
        let base = pre.mem().stack_base();
        let lo = ((sp - base) / 8) as usize + 256;
        for i in lo..pre.mem().stack.len() {
            if st.mem().stack[i] != pre.mem().stack[i] {
                return SubVerdict::Violation("frame".into(), format!("stack word {i} above the spill area changed"));
            }
        }
    }
    SubVerdict::Ok { insns: r.stats.insns }
}

fn offsets(arch: Arch) -> Vec<usize> {
    match arch {
        Arch::X86 => (0..=8).collect(),
        Arch::A64 => (8..=16).collect(),
        Arch::Rv64 => (0..=9).collect(),
    }
}

pub fn enumerate(tier: Tier, mut f: impl FnMut(SubCase)) {
    let maxn = if tier.thorough() { 5 } else { 4 };
    for arch in Arch::all() {
        for off in offsets(arch) {
            for n in 0..=maxn {
                for m in 0..=maxn {
                    if n == 0 && m > 0 {
                        continue;
                    }
                    let nmaps = (n as u64).pow(m as u32).max(1);
                    for kinds in 0..(1u32 << n) {
                        let obj: Vec<bool> = (0..n).map(|i| kinds >> i & 1 == 1).collect();
                        let nobj = obj.iter().filter(|x| **x).count();
                        for mi in 0..nmaps {
                            let mut map = Vec::with_capacity(m);
                            let mut x = mi;
                            for _ in 0..m {
                                map.push((x % n.max(1) as u64) as usize);
                                x /= n.max(1) as u64;
                            }
                            for alias in [false, true] {
                                if alias && nobj < 2 {
                                    continue;
                                }
                                for positional in [false, true] { f(SubCase { arch, off, obj: obj.clone(), map: map.clone(), alias, cns: false, positional }); }
                                if nobj > 0 {
                                    for positional in [false, true] { f(SubCase { arch, off, obj: obj.clone(), map: map.clone(), alias, cns: true, positional }); }
                                }
                            }
                        }
                    }
                }
            }
            // beyond the complete space: structured permutations and fan-outs of larger windows
            let big: Vec<usize> = if tier.thorough() { (6..=12).collect() } else { vec![6, 7, 9] };
            for n in big {
                let mut maps: Vec<Vec<usize>> = Vec::new();
                for r in 1..n {
                    maps.push((0..n).map(|i| (i + r) % n).collect()); // one cycle (or several when gcd > 1)
                }
                maps.push((0..n).rev().collect()); // reversal: n/2 two-cycles
                maps.push((0..n).map(|i| i ^ 1).map(|i| i.min(n - 1)).collect()); // adjacent swaps
                maps.push((0..n).map(|i| if i + 2 >= n { 0 } else { i + 1 }).collect()); // chain into a fan-out of variable 0
                maps.push(vec![n - 1; n]); // everything from the last variable
                maps.push((0..n).map(|i| if i < n / 2 { (i + 1) % (n / 2) } else { n / 2 + (i - n / 2 + 1) % (n - n / 2) }).collect()); // two disjoint cycles
                maps.push((0..n).map(|i| if i == 0 { n - 1 } else if i == n - 1 { 0 } else { i }).collect()); // swap of the two ends
                for pat in 0..3 {
                    let obj: Vec<bool> = (0..n).map(|i| match pat { 0 => false, 1 => true, _ => i % 2 == 1 }).collect();
                    for map in &maps {
                        for alias in [false, true] {
                            if alias && pat == 0 {
                                continue;
                            }
                            for positional in [false, true] { f(SubCase { arch, off, obj: obj.clone(), map: map.clone(), alias, cns: false, positional }); }
                            if pat != 0 {
                                for positional in [false, true] { f(SubCase { arch, off, obj: obj.clone(), map: map.clone(), alias, cns: true, positional }); }
                            }
                        }
                    }
                }
            }
        }
    }
}

pub fn worker(ctx: &WorkerCtx) -> Report {
    let mut rep = Report::default();
    let mut templates = Vec::new();
    for arch in Arch::all() {
        match template(arch) {
            Ok(t) => templates.push((arch, t)),
            Err(e) => {
                rep.machinery(format!("{}: {e}", arch.name()));
                return rep;
            }
        }
    }
    let mut idx = 0u64;
    enumerate(ctx.tier, |c| {
        idx += 1;
        if !ctx.mine(idx) {
            return;
        }
        let t = &templates.iter().find(|(a, _)| *a == c.arch).unwrap().1;
        rep.count("cases", 1);
        match run_sub(t, &c) {
            SubVerdict::Ok { insns } => {
                rep.count("traces_validated_against_impl", 1);
                rep.count("states", 2);
                rep.count("transitions", 1);
                rep.count("instructions_emulated", insns);
                rep.count(&format!("ok_{}", c.arch.name()), 1);
                rep.distinct.push(hash64(&(c.arch.name(), c.off, &c.obj, &c.map, c.alias, c.cns, c.positional)));
                let shape = format!(
                    "{}{}{}",
                    if c.map.len() > c.obj.len() { "grow" } else if c.map.len() < c.obj.len() { "shrink" } else { "same" },
                    if insns > 2 { "/moves" } else { "/nomoves" },
                    if c.alias { "/alias" } else { "" }
                );
                rep.outcomes.insert(shape);
                if rep.samples.len() < 3 && c.map.len() >= 3 && c.obj.iter().any(|x| *x) {
                    rep.sample(c.to_json());
                }
            }
            SubVerdict::Capacity => rep.count("skipped_capacity", 1),
            SubVerdict::Machinery(m) => rep.machinery(format!("{:?}: {m}", c)),
            SubVerdict::Violation(kind, msg) => {
                rep.outcomes.insert(format!("violation/{kind}"));
                rep.violation(format!("{}/subst/{kind}", c.arch.name()), format!("{c:?}: {msg}"), c.to_json());
            }
        }
    });
    rep
}

pub fn replay(case: &serde_json::Value) -> Result<Option<String>, String> {
    let c = SubCase::from_json(case).ok_or("bad case")?;
    let t = template(c.arch)?;
    match run_sub(&t, &c) {
        SubVerdict::Ok { .. } | SubVerdict::Capacity => Ok(None),
        SubVerdict::Violation(k, m) => Ok(Some(format!("{k}: {m}"))),
        SubVerdict::Machinery(m) => Err(m),
    }
}
