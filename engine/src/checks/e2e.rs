//! C01: the x86-64 executable obtained through the real pipeline, the GNU assembler and the
//! repository's own C driver behaves like the source program (R-FUN). Also hosts the shared
//! "run a Fun case through every stage" helper used by the stage checks.
use crate::arch::arch_info;
use crate::emu::{ArchInfo, NoMonitor};
use crate::exec::{compare, run_text, ExecCfg, Verdict};
use crate::framework::*;
use crate::generate::funfam::{all_fun_families, FunCase, FunCfg, FunSink};
use crate::native::NativeEnv;
use crate::pipeline::{self, codegen, Arch, StageError, Stages};
use crate::sem::ax::{Outcome, Trace};
use crate::sem::fun::run_fun;
use serde_json::json;

pub const FUEL: u64 = 2_000_000;

pub fn fun_case_json(case: &FunCase, input: &[i64]) -> serde_json::Value {
    json!({"kind": "fun", "name": case.name, "source": case.src, "input": input})
}

pub fn stages_of(case: &FunCase) -> Result<Stages, StageError> {
    pipeline::all_stages(&case.src)
}

fn family_of(name: &str) -> &str {
    name.split('/').next().unwrap_or(name)
}

pub enum NativeVerdict {
    Match,
    Skip(String),
    Violation(String, String),
    Machinery(String),
}

/// One program, all its inputs, natively. `emu_info` enables the emulator cross-check.
pub fn native_case(nat: &mut NativeEnv, case: &FunCase, info: &ArchInfo, rep: &mut Report) {
    let st = match stages_of(case) {
        Ok(s) => s,
        Err(StageError::Panic { stage, msg }) => {
            if super::codegen::is_capacity_panic(&msg) {
                rep.count("skipped_capacity", 1);
            } else {
                rep.violation(format!("pipeline-panic/{stage}"), format!("{}: stage {stage} panicked: {msg}", case.name), fun_case_json(case, &[]));
            }
            return;
        }
        Err(e) => {
            // a well-typed-by-construction program that the front end rejects is C15's business
            // (its positive side reports it); here the program is outside the premise
            rep.count("skipped_rejected_by_front_end", 1);
            rep.notes.push(format!("front end rejects {} ({})", case.name, format!("{e:?}").chars().take(80).collect::<String>()));
            return;
        }
    };
    let nargs = st.linear.defs[0].context.bindings.len();
    let text = match codegen(st.linear.clone(), Arch::X86) {
        Ok((t, _)) => t,
        Err(StageError::Panic { msg, .. }) if super::codegen::is_capacity_panic(&msg) => {
            rep.count("skipped_capacity", 1);
            return;
        }
        Err(e) => {
            rep.violation("pipeline-panic/codegen".to_string(), format!("{}: {e:?}", case.name), fun_case_json(case, &[]));
            return;
        }
    };
    let exe = match nat.assemble(&text) {
        Ok(obj) => match nat.link(&obj, nargs) {
            Ok(exe) => {
                nat.remove(&obj);
                exe
            }
            Err(e) => {
                nat.remove(&obj);
                rep.violation("link".to_string(), format!("{}: linking failed: {e}", case.name), fun_case_json(case, &[]));
                return;
            }
        },
        Err(e) => {
            rep.violation("assemble".to_string(), format!("{}: the assembler rejects the emitted file: {e}", case.name), fun_case_json(case, &[]));
            return;
        }
    };
    rep.count("executables", 1);
    rep.distinct.push(hash64(&case.src));
    for input in &case.inputs {
        if input.len() != nargs {
            rep.machinery(format!("{}: input arity {} but main takes {nargs}", case.name, input.len()));
            continue;
        }
        rep.count("cases", 1);
        let reference = run_fun(&st.fun, input, FUEL);
        rep.count("transitions", reference.steps);
        let expected = match &reference.outcome {
            Outcome::Exit(v) => *v,
            Outcome::Undefined(_) | Outcome::Fuel => {
                rep.count("skipped_undefined", 1);
                continue;
            }
            Outcome::Stuck(m) => {
                rep.machinery(format!("{}: R-FUN stuck: {m}", case.name));
                continue;
            }
        };
        let args: Vec<String> = input.iter().map(|a| a.to_string()).collect();
        let run = match nat.run(&exe, &args) {
            Ok(r) => r,
            Err(e) => {
                rep.machinery(format!("cannot run {}: {e}", case.name));
                continue;
            }
        };
        let want_out = reference.output_bytes();
        let want_status = (expected & 0xff) as i32;
        let fam = family_of(&case.name);
        if run.signal.is_some() {
            rep.violation(format!("native/{fam}/signal"), format!("{} on {input:?}: executable died with signal {:?} (reference exits {expected})", case.name, run.signal), fun_case_json(case, input));
            rep.outcomes.insert("violation/signal".into());
        } else if run.stdout != want_out {
            rep.violation(
                format!("native/{fam}/stdout"),
                format!("{} on {input:?}: stdout {:?}, source semantics prescribes {:?}", case.name, String::from_utf8_lossy(&run.stdout), String::from_utf8_lossy(&want_out)),
                fun_case_json(case, input),
            );
            rep.outcomes.insert("violation/stdout".into());
        } else if run.status != Some(want_status) {
            rep.violation(
                format!("native/{fam}/status"),
                format!("{} on {input:?}: exit status {:?}, expected {want_status} (result {expected})", case.name, run.status),
                fun_case_json(case, input),
            );
            rep.outcomes.insert("violation/status".into());
        } else {
            rep.count("traces_validated_against_impl", 1);
            rep.outcomes.insert(format!("match/{fam}"));
            if rep.samples.len() < 3 {
                rep.sample(json!({"case": case.name, "input": input, "stdout": String::from_utf8_lossy(&run.stdout), "status": run.status}));
            }
        }
        // emulator cross-validation (the emulator stands for the CPU in C06/C09/C11/C13)
        let cfg = ExecCfg { heap_words: 8 * 65536, insn_limit: 50_000_000 };
        if let Ok(er) = run_text(Arch::X86, info, &text, input, cfg, &mut NoMonitor) {
            rep.count("states", er.stats.boundaries);
            let same = match &er.stop {
                crate::emu::Stop::Return(v) => run.signal.is_none() && Some((*v & 0xff) as i32) == run.status && {
                    let t = Trace { prints: er.prints.clone(), outcome: Outcome::Exit(*v), steps: 0 };
                    t.output_bytes() == run.stdout
                },
                crate::emu::Stop::Fault(crate::emu::Fault::HeapExhausted | crate::emu::Fault::InsnLimit) => true,
                _ => run.signal.is_some(),
            };
            if same {
                rep.count("emulator_agrees_with_cpu", 1);
            } else {
                rep.count("emulator_disagrees_with_cpu", 1);
                rep.notes.push(format!("emulator/CPU disagreement on {} {input:?}: emulator {:?}, process status {:?}", case.name, er.stop, run.status));
            }
        }
    }
    nat.remove(&exe);
}

pub fn worker(ctx: &WorkerCtx) -> Report {
    let mut rep = Report::default();
    let mut nat = match NativeEnv::new(&format!("c01-{}", ctx.shard)) {
        Ok(n) => n,
        Err(e) => {
            rep.machinery(e);
            return rep;
        }
    };
    let info = arch_info(Arch::X86);
    let cfg = FunCfg { thorough: ctx.tier.thorough(), small_max: 0, with_unsequenced: false };
    {
        let mut handle = |case: FunCase| {
            if ctx.out_of_time() {
                rep.capped = Some("time budget".into());
                return;
            }
            native_case(&mut nat, &case, &info, &mut rep);
        };
        let mut sink = FunSink { idx: 0, shard: ctx.shard, n: ctx.nshards, f: &mut handle };
        all_fun_families(&cfg, &mut sink);
    }
    nat.cleanup();
    rep
}

pub fn replay(case: &serde_json::Value) -> Result<Option<String>, String> {
    let src = case["source"].as_str().ok_or("source")?.to_string();
    let input: Vec<i64> = case["input"].as_array().ok_or("input")?.iter().filter_map(|x| x.as_i64()).collect();
    let name = case["name"].as_str().unwrap_or("replay").to_string();
    let fc = FunCase { name, src, inputs: if input.is_empty() { vec![] } else { vec![input] }, sequenced: true };
    let mut nat = NativeEnv::new("replay")?;
    let info = arch_info(Arch::X86);
    let mut rep = Report::default();
    native_case(&mut nat, &fc, &info, &mut rep);
    nat.cleanup();
    if let Some(v) = rep.violations.first() {
        return Ok(Some(format!("{}: {}", v.sig, v.msg)));
    }
    if let Some(m) = rep.machinery.first() {
        return Err(m.clone());
    }
    Ok(None)
}
