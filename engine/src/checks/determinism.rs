//! C17: compilation is deterministic — across histories of earlier compilations in one process,
//! across hash seeds (owned through an LD_PRELOAD shim for getrandom) and across environments.
use crate::framework::*;
use crate::pipeline::{self, Arch, StageError};
use printer::Print;
use serde_json::json;
use std::collections::HashMap;
use std::process::Command;

pub const STAGES: [&str; 7] = ["core", "focused", "shrunk", "linearized", "x86_64", "aarch64", "rv64"];

/// Every printable stage of one compilation, in this process.
pub fn dump_all(src: &str) -> Vec<(String, String)> {
    let mut out = Vec::new();
    let st = match pipeline::all_stages(src) {
        Ok(s) => s,
        Err(e) => {
            out.push(("error".to_string(), format!("{e:?}")));
            return out;
        }
    };
    out.push(("core".into(), st.core.print_to_string(None)));
    out.push(("focused".into(), st.focused.print_to_string(None)));
    out.push(("shrunk".into(), st.shrunk.print_to_string(None)));
    out.push(("linearized".into(), st.linear.print_to_string(None)));
    for arch in Arch::all() {
        let text = match pipeline::codegen(st.linear.clone(), arch) {
            Ok((t, _)) => t,
            Err(StageError::Panic { msg, .. }) => format!("PANIC: {msg}"),
            Err(e) => format!("ERROR: {e:?}"),
        };
        out.push((arch.name().to_string(), text));
    }
    out
}

/// Renumbers the suffixes of generated labels (`lab<N>`, `<Type>_<N>`, `<Type>_<N>_<Xtor>`) in
/// order of first occurrence: the property allows outputs to differ in this numbering only.
pub fn renumber_labels(text: &str) -> String {
    let mut map: HashMap<String, usize> = HashMap::new();
    let mut out = String::with_capacity(text.len());
    let cs: Vec<char> = text.chars().collect();
    let mut i = 0;
    while i < cs.len() {
        let c = cs[i];
        if c.is_ascii_alphanumeric() || c == '_' {
            let mut j = i;
            while j < cs.len() && (cs[j].is_ascii_alphanumeric() || cs[j] == '_') {
                j += 1;
            }
            let ident: String = cs[i..j].iter().collect();
            out.push_str(&renumber_ident(&ident, &mut map));
            i = j;
        } else {
            out.push(c);
            i += 1;
        }
    }
    out
}

fn renumber_ident(ident: &str, map: &mut HashMap<String, usize>) -> String {
    let fresh = |n: &str, map: &mut HashMap<String, usize>| -> String {
        let next = map.len() + 1;
        format!("#{}", *map.entry(n.to_string()).or_insert(next))
    };
    if let Some(n) = ident.strip_prefix("lab") {
        if !n.is_empty() && n.chars().all(|c| c.is_ascii_digit()) {
            return format!("lab{}", fresh(n, map));
        }
    }
    let first = ident.trim_start_matches('_').chars().next();
    if first.map(|c| c.is_ascii_uppercase()).unwrap_or(false) {
        let parts: Vec<&str> = ident.split('_').collect();
        // the counter is the last all-digit component that is not the first component
        if let Some(pos) = (1..parts.len()).rev().find(|p| !parts[*p].is_empty() && parts[*p].chars().all(|c| c.is_ascii_digit())) {
            let mut p2: Vec<String> = parts.iter().map(|s| s.to_string()).collect();
            p2[pos] = fresh(parts[pos], map);
            return p2.join("_");
        }
    }
    ident.to_string()
}

pub fn history_programs() -> Vec<String> {
    use crate::generate::funlang::{PRELUDE_DEFS, PRELUDE_TYPES};
    let bodies = [
        "def main(n: i64): i64 { n + 1 }",
        "def main(n: i64): i64 { if n == 0 { 1 } else { 2 } }",
        "def main(n: i64): i64 { println_i64(sum(range(n))); 0 }",
        "def main(n: i64): i64 { let f: Fun[i64, i64] = new { ap(q) => q * n }; f.ap[i64, i64](3) }",
        "def main(n: i64): i64 { let t: Tri = if n == 0 { T0 } else { T2(n, 1) }; t.case { T0 => 1, T1(a) => a, T2(a, b) => a + b } }",
        "def main(n: i64): i64 { label a { if n < 0 { goto a (0) } else { nats(n).tl[i64].hd[i64] } } }",
        "def g(p: Pair[i64, List[i64]]): i64 { p.case[i64, List[i64]] { Tup(a, b) => a + sum(b) } }\ndef main(n: i64): i64 { g(Tup(n, range(2))) }",
        "def main(n: i64): i64 { let a: i64 = if n == 1 { 3 } else { 4 }; let b: i64 = range(a).case[i64] { Nil => 0, Cons(h, t) => h }; a + b }",
    ];
    let mut v: Vec<String> = bodies.iter().map(|b| format!("{PRELUDE_TYPES}{PRELUDE_DEFS}{b}\n")).collect();
    // conflicting namesakes: self-contained programs that declare DIFFERENT things under the same
    // type / constructor / destructor / definition names (anything remembered by name from an
    // earlier compilation in the same process would be wrong for the later one)
    let namesakes = [
        "data Shape { Circle(r: i64), Square(s: i64) }\ndef area(s: Shape): i64 { s.case { Circle(r) => r * 3, Square(s) => s * s } }\ndef main(n: i64): i64 { area(Square(n)) + area(Circle(2)) }\n",
        "data Shape { Square(s: i64), Circle(r: i64, q: i64) }\ndef area(s: Shape, k: i64): i64 { s.case { Square(s) => s * k, Circle(r, q) => r - q } }\ndef main(n: i64): i64 { area(Square(n), 5) + area(Circle(2, n), 1) }\n",
        "codata Obj { get: i64, put(x: i64): i64 }\ndata List[A] { Nil, Cons(x: A, xs: List[A]) }\ndef helper(a: i64): i64 { a + 1 }\ndef mk(n: i64): Obj { new { get => helper(n), put(x) => x + n } }\ndef main(n: i64): i64 { let l: List[i64] = Cons(mk(n).get, Nil); l.case[i64] { Nil => mk(n).put(1), Cons(h, t) => h } }\n",
        "codata Obj { put(x: i64, y: i64): i64, get: i64 }\ndata List[A] { Cons(x: A, xs: List[A]), Nil }\ndef helper(a: i64, b: i64): i64 { a * b }\ndef mk(n: i64): Obj { new { put(x, y) => helper(x, y) + n, get => n } }\ndef main(n: i64): i64 { let l: List[i64] = Cons(mk(n).put(2, 3), Nil); l.case[i64] { Cons(h, t) => h, Nil => mk(n).get } }\n",
    ];
    v.extend(namesakes.iter().map(|x| x.to_string()));
    v
}

fn stage_hashes(dump: &[(String, String)]) -> Vec<(String, u64)> {
    dump.iter().map(|(s, t)| (s.clone(), hash64(&renumber_labels(t)))).collect()
}

/// Child mode: compile the history in order in this process, then the target; print one line per
/// stage with the hash of the (label-renumbered) output and, for `raw`, of the exact bytes.
pub fn child_history(args: &[String]) -> i32 {
    let progs = history_programs();
    let hist: Vec<usize> = if args[0].is_empty() { vec![] } else { args[0].split(',').filter_map(|x| x.parse().ok()).collect() };
    let target: usize = args[1].parse().unwrap_or(0);
    for h in hist {
        let _ = dump_all(&progs[h]);
    }
    let d = dump_all(&progs[target]);
    for (s, t) in &d {
        println!("{s} {} {}", hash64(&renumber_labels(t)), hash64(t));
    }
    0
}

/// Child mode: dump every stage of a file (exact bytes hashed), used under different hash seeds.
pub fn child_dump(path: &str) -> i32 {
    let Ok(src) = std::fs::read_to_string(path) else { return 2 };
    for (s, t) in dump_all(&src) {
        println!("{s} {} {}", hash64(&renumber_labels(&t)), hash64(&t));
    }
    0
}

fn run_child(args: &[&str], envs: &[(&str, String)]) -> Result<Vec<(String, u64, u64)>, String> {
    let exe = std::env::current_exe().map_err(|e| e.to_string())?;
    let mut cmd = Command::new(exe);
    cmd.args(args);
    for (k, v) in envs {
        cmd.env(k, v);
    }
    let out = cmd.output().map_err(|e| e.to_string())?;
    if !out.status.success() {
        return Err(format!("child {:?} failed: {}", args, String::from_utf8_lossy(&out.stderr)));
    }
    let mut v = Vec::new();
    for line in String::from_utf8_lossy(&out.stdout).lines() {
        let parts: Vec<&str> = line.split_whitespace().collect();
        if parts.len() == 3 {
            v.push((parts[0].to_string(), parts[1].parse().unwrap_or(0), parts[2].parse().unwrap_or(0)));
        }
    }
    Ok(v)
}

pub fn corpus() -> Vec<(String, String)> {
    let mut v: Vec<(String, String)> = super::robust::corpus().into_iter().filter(|(n, _)| !n.starts_with("T-") && !n.contains("missing") && !n.contains("mixed") && !n.contains("additional") && !n.contains("clash") && !n.contains("twice")).collect();
    for (i, p) in history_programs().into_iter().enumerate() {
        v.push((format!("history{i}"), p));
    }
    // user names inside the namespaces the compiler generates fresh names in (`x<n>` for variables,
    // `a<n>` for covariables), with and without gaps between the indices: every pair of five
    // variable names x every pair of three label names
    let xs = ["x0", "x1", "x2", "x5", "x10"];
    let aa = ["a0", "a1", "a5"];
    for i in 0..xs.len() {
        for j in i + 1..xs.len() {
            for k in 0..aa.len() {
                for l in k + 1..aa.len() {
                    let (p, q, a, b) = (xs[i], xs[j], aa[k], aa[l]);
                    v.push((
                        format!("generated-names/{p}-{q}/{a}-{b}"),
                        format!(
                            "def pick({p}: i64, {q}: i64): i64 {{ let r: i64 = if {p} < {q} {{ {q} - {p} }} else {{ {p} - {q} }}; label {a} {{ label {b} {{ if r == 0 {{ goto {a} (1) }} else {{ if r == 1 {{ goto {b} (2) }} else {{ r * ({p} + {q}) }} }} }} }} }}
                             def main({p}: i64, {q}: i64): i64 {{ println_i64(pick({p}, {q}) + pick({q}, {p})); 0 }}
"
                        ),
                    ));
                }
            }
        }
    }
    // several instances of several polymorphic types in one program
    v.push((
        "instances".into(),
        "data List[A] { Nil, Cons(x: A, xs: List[A]) }\ndata Pair[A, B] { Tup(a: A, b: B) }\ncodata Fun[A, B] { ap(x: A): B }\ncodata Stream[A] { hd: A, tl: Stream[A] }\n\
         def f1(l: List[i64]): i64 { l.case[i64] { Nil => 0, Cons(h, t) => h } }\n\
         def f2(l: List[List[i64]]): i64 { l.case[List[i64]] { Nil => 0, Cons(h, t) => f1(h) } }\n\
         def f3(p: Pair[i64, List[i64]]): i64 { p.case[i64, List[i64]] { Tup(a, b) => a + f1(b) } }\n\
         def f4(p: Pair[List[i64], i64]): i64 { p.case[List[i64], i64] { Tup(a, b) => b + f1(a) } }\n\
         def f5(g: Fun[i64, List[i64]]): i64 { f1(g.ap[i64, List[i64]](1)) }\n\
         def f6(s: Stream[List[i64]]): i64 { f1(s.hd[List[i64]]) }\n\
         def main(n: i64): i64 { (f2(Cons(Cons(n, Nil), Nil)) + f3(Tup(n, Nil))) + (f4(Tup(Nil, n)) + f5(new { ap(q) => Cons(q, Nil) })) }\n".into(),
    ));
    v
}

pub fn worker(ctx: &WorkerCtx) -> Report {
    let mut rep = Report::default();
    let thorough = ctx.tier.thorough();
    let mut idx = 0u64;
    let progs = history_programs();
    let n = progs.len();
    // ---- histories: every sequence of <= 2 (quick) / <= 3 (thorough) earlier compilations ------
    let maxlen = if thorough { 3 } else { 2 };
    let mut fresh: HashMap<usize, Vec<(String, u64, u64)>> = HashMap::new();
    for len in 0..=maxlen {
        for code in 0..n.pow(len as u32) {
            for target in 0..n {
                idx += 1;
                if !ctx.mine(idx) {
                    continue;
                }
                let mut c = code;
                let mut hist = Vec::new();
                for _ in 0..len {
                    hist.push((c % n).to_string());
                    c /= n;
                }
                let hs = hist.join(",");
                rep.count("cases", 1);
                rep.count("states", STAGES.len() as u64);
                rep.count("transitions", len as u64 + 1);
                rep.distinct.push(hash64(&("history", &hs, target)));
                let base = match fresh.get(&target) {
                    Some(b) => b.clone(),
                    None => match run_child(&["c17-history", "", &target.to_string()], &[]) {
                        Ok(b) => {
                            fresh.insert(target, b.clone());
                            b
                        }
                        Err(e) => {
                            rep.machinery(e);
                            continue;
                        }
                    },
                };
                match run_child(&["c17-history", &hs, &target.to_string()], &[]) {
                    Ok(got) => {
                        let mut ok = true;
                        for ((s, h, _), (_, h0, _)) in got.iter().zip(base.iter()) {
                            if h != h0 {
                                ok = false;
                                rep.outcomes.insert(format!("violation/history/{s}"));
                                rep.violation(
                                    format!("history/{s}"),
                                    format!("program {target} compiled after the history [{hs}] differs at stage {s} from a fresh-process compilation (beyond label numbering)"),
                                    json!({"kind": "history", "history": hs, "target": target}),
                                );
                                break;
                            }
                        }
                        if ok {
                            rep.count("traces_validated_against_impl", 1);
                            rep.outcomes.insert("history/identical".into());
                        }
                    }
                    Err(e) => rep.machinery(e),
                }
            }
        }
    }
    // ---- hash seeds: fresh processes under the getrandom shim ----------------------------------
    let shim = "/verif/engine/target/getrandom_seed.so";
    if !std::path::Path::new(shim).exists() {
        rep.machinery("getrandom shim not built".to_string());
        return rep;
    }
    let seeds: Vec<u64> = if thorough { (0..256).collect() } else { (0..16).collect() };
    let dir = scratch_dir().join(format!("c17-{}-{}", std::process::id(), ctx.shard));
    let _ = std::fs::create_dir_all(&dir);
    for (ci, (name, src)) in corpus().into_iter().enumerate() {
        if !ctx.mine(ci as u64) {
            continue;
        }
        let file = dir.join(format!("p{ci}.sc"));
        std::fs::write(&file, &src).unwrap();
        let fs = file.to_string_lossy().to_string();
        let mut reference: Option<(u64, Vec<(String, u64, u64)>)> = None;
        let mut distinct_outputs: std::collections::BTreeSet<Vec<u64>> = Default::default();
        for seed in &seeds {
            rep.count("cases", 1);
            rep.count("states", STAGES.len() as u64);
            rep.count("transitions", 1);
            rep.distinct.push(hash64(&("seed", &name, seed)));
            match run_child(&["c17-dump", &fs], &[("LD_PRELOAD", shim.to_string()), ("VERIF_HASH_SEED", seed.to_string())]) {
                Ok(got) => {
                    distinct_outputs.insert(got.iter().map(|x| x.2).collect());
                    match &reference {
                        None => reference = Some((*seed, got)),
                        Some((s0, base)) => {
                            let mut ok = true;
                            for ((s, _, raw), (_, _, raw0)) in got.iter().zip(base.iter()) {
                                if raw != raw0 {
                                    ok = false;
                                    rep.outcomes.insert(format!("violation/seed/{s}"));
                                    rep.violation(
                                        format!("hash-seed/{s}"),
                                        format!("{name}: stage {s} differs between hash seeds {s0} and {seed} (fresh processes, identical source)"),
                                        json!({"kind": "seed", "program": name, "source": src, "seed_a": s0, "seed_b": seed}),
                                    );
                                    break;
                                }
                            }
                            if ok {
                                rep.count("traces_validated_against_impl", 1);
                            }
                        }
                    }
                }
                Err(e) => rep.machinery(e),
            }
        }
        rep.max("distinct_outputs_per_program", distinct_outputs.len() as i64);
        rep.outcomes.insert(format!("seeds/{}-distinct-output(s)", distinct_outputs.len()));
        // the shim must really own the seeds: same seed twice => identical (sanity of the seam)
        let _ = std::fs::remove_file(&file);
    }
    let _ = std::fs::remove_dir_all(&dir);
    // ---- environment: the real scc subcommands under a small product of environments -----------
    if ctx.shard == 0 {
        environment_part(&mut rep);
    }
    driver_sequences(ctx, &mut rep);
    rep.sample(json!({"histories": "all sequences over 12 programs (8 over a common prelude, 4 conflicting namesakes) up to the tier's length", "seeds": seeds.len(), "stages": STAGES}));
    rep
}

fn read_tree(dir: &std::path::Path, out: &mut Vec<(String, u64)>, root: &std::path::Path) {
    if let Ok(rd) = std::fs::read_dir(dir) {
        let mut es: Vec<_> = rd.flatten().map(|e| e.path()).collect();
        es.sort();
        for p in es {
            if p.is_dir() {
                read_tree(&p, out, root);
            } else if let Ok(b) = std::fs::read(&p) {
                out.push((p.strip_prefix(root).unwrap_or(&p).to_string_lossy().to_string(), hash64(&b)));
            }
        }
    }
}

fn environment_part(rep: &mut Report) {
    let scc = scc_path();
    if !scc.exists() {
        rep.notes.push("scc binary not built; the environment part was not exercised".into());
        return;
    }
    let base = scratch_dir().join(format!("c17-env-{}", std::process::id()));
    let envs: Vec<(&str, Vec<(&str, &str)>, &str)> = vec![
        ("plain", vec![("PATH", "/usr/bin:/bin")], "w1"),
        ("term-dumb", vec![("PATH", "/usr/bin:/bin"), ("TERM", "dumb")], "w1"),
        ("term-xterm-columns", vec![("PATH", "/usr/bin:/bin"), ("TERM", "xterm-256color"), ("COLUMNS", "40")], "w1"),
        ("no-color", vec![("PATH", "/usr/bin:/bin"), ("NO_COLOR", "1")], "w1"),
        ("lang-c", vec![("PATH", "/usr/bin:/bin"), ("LANG", "C"), ("LC_ALL", "C")], "w1"),
        ("lang-utf8", vec![("PATH", "/usr/bin:/bin"), ("LANG", "C.UTF-8")], "w1"),
        ("other-cwd", vec![("PATH", "/usr/bin:/bin")], "deeper/w2"),
        // the same file name was compiled before in this directory with a different, longer program
        ("after-another-program", vec![("PATH", "/usr/bin:/bin")], "w1"),
    ];
    let earlier = "data List[A] { Nil, Cons(x: A, xs: List[A]) }\ndata Tri { T0, T1(a: i64), T2(a: i64, b: i64) }\ncodata Fun[A, B] { ap(x: A): B }\ndef len(l: List[i64]): i64 { l.case[i64] { Nil => 0, Cons(h, t) => 1 + len(t) } }\ndef sum(l: List[i64]): i64 { l.case[i64] { Nil => 0, Cons(h, t) => h + sum(t) } }\ndef map(f: Fun[i64, i64], l: List[i64]): List[i64] { l.case[i64] { Nil => Nil, Cons(h, t) => Cons(f.ap[i64, i64](h), map(f, t)) } }\ndef tri(t: Tri): i64 { t.case { T0 => 0, T1(a) => a, T2(a, b) => a * b } }\ndef main(n: i64): i64 { println_i64(sum(map(new { ap(q) => q * n }, Cons(1, Cons(2, Cons(3, Cons(4, Nil))))))); println_i64(len(Cons(n, Nil)) + tri(T2(n, 3))); println_i64(tri(T1(n)) + tri(T0)); 0 }\n";
    let progs: Vec<(String, String)> = corpus().into_iter().filter(|(n, _)| n == "instances" || n == "Lists" || n == "history4").collect();
    for (name, src) in progs {
        let mut reference: Option<(String, Vec<(String, u64)>)> = None;
        for (ename, vars, cwd) in &envs {
            let wd = base.join(ename).join(cwd);
            let _ = std::fs::create_dir_all(&wd);
            let file = wd.join("prog.sc");
            // every environment starts from an empty output directory (each program's own history is
            // part of the `after-another-program` environment only)
            let _ = std::fs::remove_dir_all(wd.join("target_scc"));
            if *ename == "after-another-program" {
                std::fs::write(&file, earlier).unwrap();
                for sub in [vec!["compile"], vec!["focus"], vec!["shrink"], vec!["linearize"], vec!["codegen", "x86-64"], vec!["codegen", "aarch64"]] {
                    let mut cmd = Command::new(&scc);
                    cmd.current_dir(&wd).env_clear().env("PATH", "/usr/bin:/bin");
                    cmd.arg(sub[0]).arg("prog.sc");
                    for extra in &sub[1..] {
                        cmd.arg(extra);
                    }
                    let _ = cmd.output();
                }
            }
            std::fs::write(&file, &src).unwrap();
            for sub in [vec!["compile"], vec!["focus"], vec!["shrink"], vec!["linearize"], vec!["codegen", "x86-64"], vec!["codegen", "aarch64"]] {
                let mut cmd = Command::new(&scc);
                cmd.current_dir(&wd).env_clear();
                for (k, v) in vars {
                    cmd.env(k, v);
                }
                cmd.arg(sub[0]).arg("prog.sc");
                for extra in &sub[1..] {
                    cmd.arg(extra);
                }
                let _ = cmd.output();
            }
            let mut files = Vec::new();
            read_tree(&wd.join("target_scc"), &mut files, &wd);
            // object files / binaries depend on external tools that are absent: compare text outputs
            files.retain(|(p, _)| p.ends_with(".txt") || p.ends_with(".asm") || p.ends_with(".s") || p.ends_with(".S"));
            rep.count("cases", 1);
            rep.count("states", files.len() as u64);
            rep.count("transitions", 6);
            rep.distinct.push(hash64(&("env", &name, ename)));
            match &reference {
                None => reference = Some((ename.to_string(), files)),
                Some((e0, base_files)) => {
                    if &files != base_files {
                        let diff: Vec<String> = files.iter().zip(base_files.iter()).filter(|(a, b)| a != b).map(|(a, _)| a.0.clone()).take(3).collect();
                        rep.violation(
                            "environment".to_string(),
                            format!("{name}: files written by scc differ between environments {e0} and {ename}: {diff:?} ({} vs {} files)", base_files.len(), files.len()),
                            json!({"kind": "env", "program": name, "env_a": e0, "env_b": ename}),
                        );
                    } else {
                        rep.count("traces_validated_against_impl", 1);
                        rep.count("environment_files_compared", files.len() as u64);
                    }
                }
            }
        }
        // routes: the same stage printed through another subcommand / option must be the same text
        // (`codegen --print-ir` writes all intermediate representations from ONE driver object that has
        // already computed the later stages)
        if let Some((e0, base_files)) = &reference {
            for backend in ["x86-64", "aarch64", "rv64"] {
                let wd = base.join(format!("route-print-ir-{backend}")).join("w1");
                let _ = std::fs::create_dir_all(&wd);
                std::fs::write(wd.join("prog.sc"), &src).unwrap();
                let mut cmd = Command::new(&scc);
                cmd.current_dir(&wd).env_clear().env("PATH", "/usr/bin:/bin");
                cmd.arg("codegen").arg("prog.sc").arg(backend).arg("--print-ir");
                let _ = cmd.output();
                let mut files = Vec::new();
                read_tree(&wd.join("target_scc"), &mut files, &wd);
                files.retain(|(p, _)| p.ends_with(".txt") || p.ends_with(".asm") || p.ends_with(".s") || p.ends_with(".S"));
                rep.count("cases", 1);
                rep.count("transitions", 1);
                rep.distinct.push(hash64(&("route", &name, backend)));
                let mut compared = 0u64;
                for (path, h) in &files {
                    if let Some((_, h0)) = base_files.iter().find(|(p0, _)| p0 == path) {
                        compared += 1;
                        if h0 != h {
                            rep.violation(
                                "route".to_string(),
                                format!("{name}: {path} written by `scc codegen {backend} --print-ir` differs from the file written by the dedicated subcommand (environment {e0})"),
                                json!({"kind": "env", "program": name, "env_a": e0, "env_b": format!("codegen {backend} --print-ir")}),
                            );
                        }
                    }
                }
                rep.count("states", compared);
                rep.count("route_files_compared", compared);
                if compared > 0 {
                    rep.count("traces_validated_against_impl", 1);
                }
            }
        }
    }
    tool_route_part(&scc, &base, rep);
    let _ = std::fs::remove_dir_all(&base);
}

/// The full `codegen` route hands files to external tools (yasm / as, gcc). Stand-ins for the tools
/// (shell scripts that only log their arguments, check that every input file exists and create the
/// requested output) own that seam: in a fresh output directory every file a tool is asked to read
/// must have been written by this very invocation — for every shape of source file name (extra
/// dots, spaces, a dotted directory) and both backends that have an assembler step.
fn tool_route_part(scc: &std::path::Path, base: &std::path::Path, rep: &mut Report) {
    use std::os::unix::fs::PermissionsExt;
    let stubs = base.join("stubs");
    let _ = std::fs::create_dir_all(&stubs);
    let script = "#!/bin/sh\n# stand-in for an external tool: logs, checks inputs, creates the output\nname=${0##*/}\nout=\nskip=0\nline=\"$name\"\nfor a in \"$@\"; do\n  line=\"$line|$a\"\n  if [ $skip = 1 ]; then skip=0; continue; fi\n  if [ $skip = 2 ]; then out=\"$a\"; skip=0; continue; fi\n  case \"$a\" in\n    -o) skip=2;;\n    -f) skip=1;;\n    -*) ;;\n    *) if [ ! -e \"$a\" ]; then echo \"MISSING|$name|$a\" >> \"$STUB_LOG\"; fi;;\n  esac\ndone\necho \"$line\" >> \"$STUB_LOG\"\nif [ -n \"$out\" ]; then : > \"$out\"; fi\nexit 0\n";
    for tool in ["yasm", "as", "gcc"] {
        let p = stubs.join(tool);
        if std::fs::write(&p, script).is_err() {
            rep.machinery("cannot write tool stand-ins");
            return;
        }
        let _ = std::fs::set_permissions(&p, std::fs::Permissions::from_mode(0o755));
    }
    let src = "def main(n: i64, m: i64): i64 { println_i64(n * m); 0 }\n";
    let names = ["prog.sc", "prog.v2.sc", "a b.sc", "p-1_x.sc", "x.tar.gz.sc", "dir.d/inner.sc", "dir.d/in.ner.sc"];
    for (ni, fname) in names.iter().enumerate() {
        for backend in ["x86-64", "aarch64"] {
            let wd = base.join(format!("tools-{ni}-{backend}"));
            let file = wd.join(fname);
            let _ = std::fs::create_dir_all(file.parent().unwrap());
            std::fs::write(&file, src).unwrap();
            let log = wd.join("stub.log");
            let mut cmd = Command::new(scc);
            cmd.current_dir(&wd).env_clear().env("PATH", &stubs).env("STUB_LOG", &log);
            cmd.arg("codegen").arg(fname).arg(backend);
            let out = cmd.output();
            rep.count("cases", 1);
            rep.count("transitions", 1);
            rep.distinct.push(hash64(&("tools", fname, backend)));
            let text = std::fs::read_to_string(&log).unwrap_or_default();
            let invocations = text.lines().filter(|l| !l.starts_with("MISSING|")).count();
            rep.count("tool_invocations_observed", invocations as u64);
            rep.count("states", invocations as u64);
            let cj = json!({"kind": "env", "program": format!("tool route, source file {fname}"), "env_a": backend, "env_b": "stand-in tools"});
            if let Some(m) = text.lines().find(|l| l.starts_with("MISSING|")) {
                rep.violation(
                    "tool-route".to_string(),
                    format!("`scc codegen {fname:?} {backend}` in a fresh directory asks an external tool to read a file it has not written: {m} (all invocations: {:?})", text.lines().filter(|l| !l.starts_with("MISSING|")).collect::<Vec<_>>()),
                    cj,
                );
            } else if invocations < 2 {
                let status = out.map(|o| format!("{:?} {}", o.status.code(), String::from_utf8_lossy(&o.stderr).chars().take(200).collect::<String>())).unwrap_or_default();
                rep.violation("tool-route".to_string(), format!("`scc codegen {fname:?} {backend}` ran {invocations} external tool(s) instead of assembler and linker ({status})"), cj);
            } else {
                rep.count("traces_validated_against_impl", 1);
            }
        }
    }
}


// ---------------------------------------------------------------------------------------------
// The driver object: every sequence of queries against one `driver::Driver`
// ---------------------------------------------------------------------------------------------

const DRIVER_QUERIES: [&str; 7] = ["parsed", "checked", "compiled", "uniquified", "focused", "shrunk", "linearized"];

fn driver_query(d: &mut driver::Driver, q: usize, path: &std::path::PathBuf) -> String {
    let r = std::panic::catch_unwind(std::panic::AssertUnwindSafe(|| match q {
        0 => d.parsed(path).map(|p| p.print_to_string(None)).map_err(|e| format!("{e:?}")),
        1 => d.checked(path).map(|p| format!("{p:?}")).map_err(|e| format!("{e:?}")),
        2 => d.compiled(path).map(|p| p.print_to_string(None)).map_err(|e| format!("{e:?}")),
        3 => d.uniquified(path).map(|p| p.print_to_string(None)).map_err(|e| format!("{e:?}")),
        4 => d.focused(path).map(|p| p.print_to_string(None)).map_err(|e| format!("{e:?}")),
        5 => d.shrunk(path).map(|p| p.print_to_string(None)).map_err(|e| format!("{e:?}")),
        _ => d.linearized(path).map(|p| p.print_to_string(None)).map_err(|e| format!("{e:?}")),
    }));
    match r {
        Ok(Ok(t)) => t,
        Ok(Err(e)) => format!("ERROR {e}"),
        Err(_) => "PANIC".to_string(),
    }
}

/// The session object of the compiler (`driver::Driver`) caches every intermediate result per
/// path. All sequences of up to 3 (quick) / 4 (thorough) queries — 7 kinds of query x 2 source
/// files, the files being conflicting namesakes — are run against one driver object each; the
/// answer to every query must be the answer a fresh driver gives to that query alone (the reference
/// model: no history).
fn driver_sequences(ctx: &WorkerCtx, rep: &mut Report) {
    let progs = history_programs();
    let n = progs.len();
    let dir = scratch_dir().join(format!("c17-driver-{}-{}", std::process::id(), ctx.shard));
    let _ = std::fs::create_dir_all(&dir);
    // two namesake programs (they declare different things under the same names) and a plain one
    let files: Vec<std::path::PathBuf> = [n - 4, n - 3, 3].iter().enumerate().map(|(i, pi)| {
        let f = dir.join(format!("q{i}.sc"));
        std::fs::write(&f, &progs[*pi]).unwrap();
        f
    }).collect();
    let nfiles = if ctx.tier.thorough() { 3 } else { 2 };
    // reference: one query on a fresh driver
    let mut reference: Vec<Vec<String>> = Vec::new();
    for f in files.iter().take(nfiles) {
        reference.push((0..DRIVER_QUERIES.len()).map(|q| driver_query(&mut driver::Driver::new(), q, f)).collect());
    }
    let alphabet = DRIVER_QUERIES.len() * nfiles;
    let depth = if ctx.tier.thorough() { 4 } else { 3 };
    let mut idx = 0u64;
    for len in 1..=depth {
        let total = alphabet.pow(len as u32);
        for code in 0..total {
            idx += 1;
            if !ctx.mine(idx) {
                continue;
            }
            let mut c = code;
            let mut d = driver::Driver::new();
            let mut seq = Vec::with_capacity(len);
            rep.count("cases", 1);
            rep.count("driver_query_sequences", 1);
            rep.distinct.push(hash64(&("driver", len, code)));
            let mut ok = true;
            for _ in 0..len {
                let (q, fi) = (c % DRIVER_QUERIES.len(), (c / DRIVER_QUERIES.len()) % nfiles);
                c /= alphabet;
                seq.push(format!("{}({})", DRIVER_QUERIES[q], fi));
                let got = driver_query(&mut d, q, &files[fi]);
                rep.count("transitions", 1);
                if got != reference[fi][q] {
                    ok = false;
                    rep.outcomes.insert(format!("violation/driver/{}", DRIVER_QUERIES[q]));
                    rep.violation(
                        format!("driver-history/{}", DRIVER_QUERIES[q]),
                        format!("one driver object, queries {:?}: the last answer differs from the answer of a fresh driver to the same query", seq),
                        json!({"kind": "driver", "sequence": seq, "files": files.iter().take(nfiles).map(|f| std::fs::read_to_string(f).unwrap_or_default()).collect::<Vec<_>>()}),
                    );
                    break;
                }
            }
            if ok {
                rep.count("traces_validated_against_impl", 1);
            }
        }
    }
    let _ = std::fs::remove_dir_all(&dir);
}
