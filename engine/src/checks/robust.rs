//! C18: any input yields a result or a diagnostic, never a crash.
use crate::framework::*;
use crate::pipeline::{self, guarded, Arch, StageError};
use fun::syntax::context::Chirality;
use fun::syntax::program::CheckedProgram;
use fun::syntax::types::Ty;
use serde_json::json;
use std::io::Write;

pub const TOKENS: [&str; 58] = [
    "(", ")", "{", "}", "[", "]", ";", "=>", ",", ":", ":cns", ".", "=", "==", "!=", "<", "<=", ">", ">=", "+", "*", "-", "/", "%", "x", "main", "f", "Nil", "Cons", "List", "0", "1", "42",
    "9223372036854775807", "9223372036854775808", "label", "goto", "exit", "if", "else", "print_i64", "println_i64", "let", "case", "new", "def", "data", "codata", "i64", "a", "ap", "A", "// c\n", "\n", " ", "00", "_", "x0",
];

fn valid_entry(p: &CheckedProgram) -> bool {
    let Some(main) = p.defs.iter().find(|d| d.name == "main") else { return false };
    main.context.bindings.len() <= 5
        && main.context.bindings.iter().all(|b| b.chi == Chirality::Prd && matches!(b.ty, Ty::I64 { .. }))
        && matches!(main.ret_ty, Ty::I64 { .. })
}

/// Runs one input through the front end and, if it is an accepted program with a valid entry
/// point, through every later stage. Returns a description of a crash, if any.
pub fn run_input(src: &str, rep: &mut Report) -> Option<(String, String)> {
    rep.count("cases", 1);
    rep.count("evaluations", 1);
    let parsed = match guarded("parse", || fun::parser::parse_module(src)) {
        Ok(Ok(p)) => p,
        Ok(Err(e)) => {
            rep.count("rejected_by_parser", 1);
            return render_diagnostic(driver::result::DriverError::from(e), src, "parse-diagnostic", rep);
        }
        Err(StageError::Panic { msg, .. }) => return Some(("parse".into(), msg)),
        Err(_) => return None,
    };
    rep.count("reached_the_checker", 1);
    let checked = match guarded("check", || parsed.check()) {
        Ok(Ok(p)) => p,
        Ok(Err(e)) => {
            rep.count("rejected_by_checker", 1);
            return render_diagnostic(driver::result::DriverError::from(e), src, "check-diagnostic", rep);
        }
        Err(StageError::Panic { msg, .. }) => return Some(("check".into(), msg)),
        Err(_) => return None,
    };
    rep.count("accepted", 1);
    if !valid_entry(&checked) {
        rep.count("accepted_without_valid_entry", 1);
        return None;
    }
    rep.count("accepted_with_valid_entry", 1);
    let core = match pipeline::to_core(checked) {
        Ok(c) => c,
        Err(StageError::Panic { stage, msg }) => return Some((stage.into(), msg)),
        Err(_) => return None,
    };
    let focused = match pipeline::focus(core) {
        Ok(c) => c,
        Err(StageError::Panic { stage, msg }) => return Some((stage.into(), msg)),
        Err(_) => return None,
    };
    let shrunk = match pipeline::shrink(focused) {
        Ok(c) => c,
        Err(StageError::Panic { stage, msg }) => return Some((stage.into(), msg)),
        Err(_) => return None,
    };
    let linear = match pipeline::linearize(shrunk) {
        Ok(c) => c,
        Err(StageError::Panic { stage, msg }) => return Some((stage.into(), msg)),
        Err(_) => return None,
    };
    let main_params = linear.defs.first().map(|d| d.context.bindings.len()).unwrap_or(0);
    for arch in Arch::all() {
        match pipeline::codegen(linear.clone(), arch) {
            Ok(_) => {}
            Err(StageError::Panic { msg, .. }) if super::codegen::is_capacity_panic_for(&msg, main_params, arch) => rep.count("capacity_assertions", 1),
            Err(StageError::Panic { stage, msg }) => return Some((stage.into(), msg)),
            Err(_) => {}
        }
    }
    rep.count("compiled_by_all_stages", 1);
    None
}

/// A rejected input must come with a *reported* error: the diagnostic is rendered against the
/// source text exactly as `scc` does (`Driver::error_to_report`, then the report's Debug form).
fn render_diagnostic(err: driver::result::DriverError, src: &str, stage: &'static str, rep: &mut Report) -> Option<(String, String)> {
    let src_owned = src.to_string();
    match guarded(stage, move || {
        let report: miette::Report = miette::Report::from(err).with_source_code(src_owned);
        format!("{report:?}").len()
    }) {
        Ok(n) => {
            rep.count("diagnostics_rendered", 1);
            if n == 0 {
                return Some((stage.into(), "empty diagnostic".into()));
            }
            None
        }
        Err(StageError::Panic { msg, .. }) => Some((stage.into(), msg)),
        Err(_) => None,
    }
}

fn handle(src: &str, origin: &str, rep: &mut Report) {
    if let Some((stage, msg)) = run_input(src, rep) {
        let short: String = msg.chars().take(160).collect();
        // one signature per panic site (message without the data-dependent tail)
        let site: String = short.split(|c: char| c.is_ascii_digit()).next().unwrap_or("").chars().take(60).collect();
        rep.outcomes.insert(format!("crash/{stage}"));
        rep.violation(format!("crash/{stage}/{site}"), format!("{origin}: stage {stage} panics: {short}"), json!({"kind": "input", "origin": origin, "source": src}));
    }
}

/// A tokenizer that approximates the lexer well enough to enumerate single-token edits.
pub fn tokenize(src: &str) -> Vec<String> {
    let mut out = Vec::new();
    let cs: Vec<char> = src.chars().collect();
    let mut i = 0;
    while i < cs.len() {
        let c = cs[i];
        if c.is_whitespace() {
            let mut j = i;
            while j < cs.len() && cs[j].is_whitespace() {
                j += 1;
            }
            out.push(cs[i..j].iter().collect());
            i = j;
        } else if c.is_alphanumeric() || c == '_' {
            let mut j = i;
            while j < cs.len() && (cs[j].is_alphanumeric() || cs[j] == '_') {
                j += 1;
            }
            out.push(cs[i..j].iter().collect());
            i = j;
        } else if c == '/' && i + 1 < cs.len() && cs[i + 1] == '/' {
            let mut j = i;
            while j < cs.len() && cs[j] != '\n' {
                j += 1;
            }
            out.push(cs[i..j].iter().collect());
            i = j;
        } else {
            let two: String = cs[i..(i + 2).min(cs.len())].iter().collect();
            if ["=>", "==", "!=", "<=", ">="].contains(&two.as_str()) {
                out.push(two);
                i += 2;
            } else {
                out.push(c.to_string());
                i += 1;
            }
        }
    }
    out
}

pub fn corpus() -> Vec<(String, String)> {
    let mut v = Vec::new();
    for dir in super::selftest::example_dirs() {
        let name = dir.file_name().unwrap().to_string_lossy().to_string();
        if let Ok(s) = std::fs::read_to_string(dir.join(format!("{name}.sc"))) {
            v.push((name, s));
        }
    }
    for base in [format!("{}/testsuite/success_check", repo_dir()), format!("{}/testsuite/fail_check", repo_dir())] {
        if let Ok(rd) = std::fs::read_dir(base) {
            let mut files: Vec<_> = rd.flatten().map(|e| e.path()).collect();
            files.sort();
            for p in files {
                if let Ok(s) = std::fs::read_to_string(&p) {
                    v.push((p.file_name().unwrap().to_string_lossy().to_string(), s));
                }
            }
        }
    }
    v.push((
        "all_forms".into(),
        "data List[A] { Nil, Cons(x: A, xs: List[A]) }\ncodata Fun[A, B] { ap(x: A): B }\ndef g(k :cns i64, v: i64): i64 { goto k (v) }\ndef main(n: i64): i64 { let l: List[i64] = Cons(n, Nil); let f: Fun[i64, i64] = new { ap(q) => q + 1 }; println_i64(label a { if n == 0 { g(a, 1) } else { l.case[i64] { Nil => exit 3, Cons(h, t) => f.ap[i64, i64](h) * (2 - n) } } }); 0 }\n".into(),
    ));
    for (n, src) in unusual_programs() {
        v.push((n.to_string(), src.to_string()));
    }
    // two pairs of declared types of the same shape, all instantiated at the same type arguments
    // (identifier swaps then produce xtors of the wrong type whose instance exists)
    v.push((
        "twin_types".into(),
        "data List[A] { Nil, Cons(x: A, xs: List[A]) }\ndata Opt[A] { None, Some(x: A) }\ncodata Fun[A, B] { ap(x: A): B }\ncodata Lazy[A, B] { force(x: A): B }\ndef len(l: List[i64]): i64 { l.case[i64] { Nil => 0, Cons(x, xs) => 1 + len(xs) } }\ndef get(o: Opt[i64]): i64 { o.case[i64] { None => 0, Some(x) => x } }\ndef run(f: Fun[i64, i64], g: Lazy[i64, i64]): i64 { f.ap[i64, i64](g.force[i64, i64](1)) }\ndef main(n: i64): i64 { println_i64(get(Some(len(Cons(n, Nil))))); println_i64(get(None)); run(new { ap(x) => x + n }, new { force(x) => x * 2 }) }\n".into(),
    ));
    v
}

/// Legal but unusual programs (accepted by the unchanged checker).
pub fn unusual_programs() -> Vec<(&'static str, &'static str)> {
    vec![
        ("nonregular_type", "data Box[A] { B(x: A) }\ndata Nest[A] { Flat(x: A), Deep(n: Nest[Box[A]]) }\ndef depth(t: Nest[i64]): i64 { t.case[i64] { Flat(x) => x, Deep(n) => 1 } }\ndef main(n: i64): i64 { depth(Flat(n)) }\n"),
        ("nonregular_pair", "data Pair[A, B] { Tup(a: A, b: B) }\ndata Grow[A] { Stop(x: A), More(n: Grow[Pair[A, A]]) }\ndef peek(t: Grow[i64]): i64 { t.case[i64] { Stop(x) => x, More(n) => 2 } }\ndef main(n: i64): i64 { peek(Stop(n)) }\n"),
        ("mutual_types", "data Even { Z, SE(o: Odd) }\ndata Odd { SO(e: Even) }\ndef half(e: Even): i64 { e.case { Z => 0, SE(o) => o.case { SO(e2) => 1 + half(e2) } } }\ndef main(n: i64): i64 { half(SE(SO(SE(SO(Z))))) }\n"),
        ("empty_types", "data Void { }\ncodata Top { }\ndef absurd(v: Void): i64 { v.case { } }\ndef main(n: i64): i64 { let t: Top = new { }; n }\n"),
        ("only_exit", "def main(): i64 { exit 3 }\n"),
        ("unused_defs", "data List[A] { Nil, Cons(x: A, xs: List[A]) }\ncodata Stream[A] { hd: A, tl: Stream[A] }\ndef never(l: List[List[i64]], s: Stream[Stream[i64]]): List[List[i64]] { l }\ndef main(n: i64): i64 { n }\n"),
        ("nested_new", "codata Outer { inner: Inner }\ncodata Inner { val: i64 }\ndef main(n: i64): i64 { (new { inner => new { val => n } }).inner.val }\n"),
        ("deep_parens", "def main(n: i64): i64 { ((((((((((((((((((((((((((((((((n)))))))))))))))))))))))))))))))) }\n"),
        ("poly_mutual", "data Rose[A] { Node(x: A, kids: Forest[A]) }\ndata Forest[A] { Leafs, Trees(t: Rose[A], r: Forest[A]) }\ndef size(r: Rose[i64]): i64 { r.case[i64] { Node(x, kids) => 1 + fsize(kids) } }\ndef fsize(f: Forest[i64]): i64 { f.case[i64] { Leafs => 0, Trees(t, r) => size(t) + fsize(r) } }\ndef main(n: i64): i64 { size(Node(n, Trees(Node(1, Leafs), Leafs))) }\n"),
    ]
}

/// Runs every corpus entry unmodified through the real binary in a resource-limited subprocess; an
/// abort there (stack overflow, allocation failure, panic, no termination within a minute) is the
/// only way such a failure can be attributed to its input. Returns the names that crashed.
fn prescreen(corpus: &[(String, String)], report: bool, rep: &mut Report) -> std::collections::HashSet<String> {
    let mut crashed = std::collections::HashSet::new();
    let scc = scc_path();
    if !scc.exists() {
        return crashed;
    }
    let dir = scratch_dir().join(format!("c18-pre-{}", std::process::id()));
    let _ = std::fs::create_dir_all(&dir);
    for (name, src) in corpus {
        let file = dir.join("p.sc");
        if std::fs::write(&file, src).is_err() {
            continue;
        }
        for sub in ["check", "linearize"] {
            let cmdline = format!("ulimit -v 1500000; exec timeout 60 {} {sub} {}", scc.display(), file.display());
            let out = std::process::Command::new("sh").current_dir(&dir).arg("-c").arg(&cmdline).output();
            let Ok(o) = out else { continue };
            use std::os::unix::process::ExitStatusExt;
            let err = String::from_utf8_lossy(&o.stderr).to_string();
            let bad = o.status.code() == Some(101) || o.status.code() == Some(124) || o.status.code() == Some(134) || o.status.code() == Some(139) || err.contains("panicked at") || err.contains("has overflowed its stack") || err.contains("memory allocation") || o.status.signal().is_some();
            if report {
                rep.count("cases", 1);
                rep.count("evaluations", 1);
                rep.count("binary_runs", 1);
                rep.distinct.push(hash64(&(sub, "corpus", name)));
            }
            if bad {
                crashed.insert(name.clone());
                if report {
                    rep.violation(
                        format!("binary/{sub}/corpus"),
                        format!("`scc {sub}` on the corpus program {name}: exit {:?} signal {:?}, stderr {:?}", o.status.code(), o.status.signal(), err.chars().take(200).collect::<String>()),
                        json!({"kind": "bytes", "name": name, "bytes": src.as_bytes(), "subcommand": sub}),
                    );
                }
                break;
            } else if report {
                rep.count("binary_runs_without_crash", 1);
            }
        }
    }
    let _ = std::fs::remove_dir_all(&dir);
    crashed
}

pub fn worker(ctx: &WorkerCtx) -> Report {
    let mut rep = Report::default();
    let mut idx = 0u64;
    let thorough = ctx.tier.thorough();
    // (i) all token sequences up to length 3 (quick) / 4 (thorough), after a valid prefix and bare
    let maxlen = if thorough { 4 } else { 3 };
    let prefixes = ["", "def main(): i64 { ", "def main(n: i64): i64 { n } data "];
    let n = TOKENS.len();
    for len in 0..=maxlen {
        let total = n.pow(len as u32);
        for code in 0..total {
            idx += 1;
            if !ctx.mine(idx) {
                continue;
            }
            let mut c = code;
            let mut toks = Vec::with_capacity(len);
            for _ in 0..len {
                toks.push(TOKENS[c % n]);
                c /= n;
            }
            let body = toks.join(" ");
            // the longest sequences are tried bare only
            let pre: &[&str] = if len == maxlen && len >= 3 { &prefixes[..1] } else { &prefixes };
            for p in pre {
                let src = format!("{p}{body}");
                rep.distinct.push(hash64(&src));
                handle(&src, "token-sequence", &mut rep);
            }
        }
        if ctx.out_of_time() {
            rep.capped = Some(format!("time budget hit while enumerating token sequences of length {len}"));
            break;
        }
    }
    // all strings of up to 2 (quick) / 3 (thorough) characters over the printable ASCII range plus
    // a few multi-byte characters (valid UTF-8; other byte strings go through the binary below)
    let mut chars: Vec<char> = (0x20u8..0x7f).map(|b| b as char).collect();
    chars.extend(['\n', '\t', 'é', 'λ', '€', '\u{0}']);
    let cmax = if thorough { 3 } else { 2 };
    for len in 1..=cmax {
        let total = chars.len().pow(len as u32);
        for code in 0..total {
            idx += 1;
            if !ctx.mine(idx) {
                continue;
            }
            let mut c = code;
            let mut s = String::new();
            for _ in 0..len {
                s.push(chars[c % chars.len()]);
                c /= chars.len();
            }
            rep.distinct.push(hash64(&s));
            handle(&s, "character-sequence", &mut rep);
            handle(&format!("def main(): i64 {{ {s} }}"), "character-sequence-in-body", &mut rep);
        }
    }
    // (ii) every single-token replacement, insertion and deletion at every position of the corpus
    let alphabet: Vec<&str> = TOKENS.iter().copied().filter(|t| !t.trim().is_empty() || *t == "\n").collect();
    let the_corpus = corpus();
    let crashed = prescreen(&the_corpus, ctx.shard == 0, &mut rep);
    for (name, src) in the_corpus {
        if crashed.contains(&name) {
            // reported by the pre-screen; mutating it in-process would only take the worker down
            continue;
        }
        let toks = tokenize(&src);
        let significant: Vec<usize> = (0..toks.len()).filter(|i| !toks[*i].trim().is_empty()).collect();
        for &pos in &significant {
            // deletion
            idx += 1;
            if ctx.mine(idx) {
                let mut t = toks.clone();
                t.remove(pos);
                let s: String = t.concat();
                rep.distinct.push(hash64(&s));
                handle(&s, &format!("{name}: delete token {pos}"), &mut rep);
            }
            let stride = if thorough || toks.len() < 250 { 1 } else { 3 };
            for (ai, a) in alphabet.iter().enumerate() {
                if (ai + pos) % stride != 0 {
                    continue;
                }
                idx += 1;
                if !ctx.mine(idx) {
                    continue;
                }
                let mut t = toks.clone();
                t[pos] = a.to_string();
                let s: String = t.concat();
                rep.distinct.push(hash64(&s));
                handle(&s, &format!("{name}: replace token {pos} by `{}`", a.escape_debug()), &mut rep);
                let mut t = toks.clone();
                t.insert(pos, format!("{a} "));
                let s: String = t.concat();
                rep.distinct.push(hash64(&s));
                handle(&s, &format!("{name}: insert `{}` before token {pos}", a.escape_debug()), &mut rep);
            }
        }
        // every identifier occurrence replaced by every other identifier of the same program
        let is_ident = |t: &str| t.chars().next().is_some_and(|c| c.is_alphabetic() || c == '_');
        let mut idents: Vec<&str> = toks.iter().map(|t| t.as_str()).filter(|t| is_ident(t)).collect();
        idents.sort();
        idents.dedup();
        let stride = if thorough || toks.len() < 400 { 1 } else { 4 };
        for &pos in &significant {
            if !is_ident(&toks[pos]) {
                continue;
            }
            for (ai, a) in idents.iter().enumerate() {
                if *a == toks[pos] || (ai + pos) % stride != 0 {
                    continue;
                }
                idx += 1;
                if !ctx.mine(idx) {
                    continue;
                }
                let mut t = toks.clone();
                t[pos] = a.to_string();
                let s: String = t.concat();
                rep.distinct.push(hash64(&s));
                handle(&s, &format!("{name}: replace identifier at token {pos} by `{a}`"), &mut rep);
            }
        }
        if ctx.out_of_time() {
            rep.capped = Some("time budget hit during corpus mutation".into());
            break;
        }
    }
    // (iii) boundary literals in every literal position
    if ctx.shard == 0 {
        for l in ["9223372036854775807", "9223372036854775808", "18446744073709551616", "1000000000000000000000000000000", "00", "007", "-9223372036854775808", "-9223372036854775809", "-0", "0x10", "1_000", "1e3", "1.5"] {
            for tmpl in ["def main(): i64 { L }", "def main(n: i64): i64 { n + L }", "def main(n: i64): i64 { if n == L { 1 } else { 2 } }", "def main(n: i64): i64 { println_i64(L); 0 }", "def main(n: i64): i64 { exit L }"] {
                let src = tmpl.replace('L', l);
                rep.distinct.push(hash64(&src));
                handle(&src, "boundary-literal", &mut rep);
            }
        }
        // (v) entry-point shapes
        for src in entry_shapes() {
            rep.distinct.push(hash64(&src));
            handle(&src, "entry-shape", &mut rep);
        }
    }
    // (iv) nesting depth of every nestable construct (workers run on a 1 GiB stack)
    let depths: Vec<usize> = if thorough { vec![1, 2, 4, 8, 16, 32, 64, 128, 256] } else { vec![1, 8, 32, 64] };
    for (ci, (open, close, mid)) in nestables().iter().enumerate() {
        for d in &depths {
            idx += 1;
            if !ctx.mine(idx) {
                continue;
            }
            let src = format!("data List[A] {{ Nil, Cons(x: A, xs: List[A]) }}\ncodata Fun[A, B] {{ ap(x: A): B }}\ndef main(n: i64): i64 {{ {}{}{} }}", open.repeat(*d), mid, close.repeat(*d));
            rep.distinct.push(hash64(&(ci, d)));
            handle(&src, &format!("nesting depth {d} of construct {ci}"), &mut rep);
        }
    }
    // (v) every program of the Fun families (the well-typed programs the other properties run): an
    // accepted program must pass every later stage and code generator without a crash
    {
        use crate::generate::funfam::{all_fun_families, FunCase, FunCfg, FunSink};
        let fcfg = FunCfg { thorough, small_max: if thorough { 5 } else { 4 }, with_unsequenced: true };
        let mut fh = |fc: FunCase| {
            rep.distinct.push(hash64(&fc.src));
            handle(&fc.src, &format!("family program {}", fc.name), &mut rep);
        };
        let mut fsink = FunSink { idx: 0, shard: ctx.shard, n: ctx.nshards, f: &mut fh };
        all_fun_families(&fcfg, &mut fsink);
    }
    // a slice through the real binary, including byte strings that are not valid UTF-8
    if ctx.shard == 0 {
        binary_slice(&mut rep);
    }
    rep.sample(json!({"token_alphabet": TOKENS.len(), "example": "def main(): i64 { goto = 9223372036854775808"}));
    rep
}

fn nestables() -> Vec<(&'static str, &'static str, &'static str)> {
    vec![
        ("(", ")", "n"),
        ("1 + (", ")", "n"),
        ("if n == 1 { ", " } else { 0 }", "n"),
        ("let y: i64 = n; ", "", "n"),
        ("inc(", ")", "n"),
        ("label a { ", " }", "n"),
        ("println_i64(n); ", "", "n"),
        ("sum(Cons(1, ", "))", "Nil"),
        ("new { ap(q) => ", " }.ap[i64, i64](1)", "n"),
        ("exit ", "", "n"),
        ("goto a (", ")", "n"),
    ]
}

fn entry_shapes() -> Vec<String> {
    let mut v = vec![
        "def f(n: i64): i64 { n }".to_string(),
        "data D { }".to_string(),
        "".to_string(),
        "def main(): i64 { 0 }".to_string(),
        "def main(l: List[i64]): i64 { 0 }\ndata List[A] { Nil, Cons(x: A, xs: List[A]) }".to_string(),
        "def main(k :cns i64): i64 { goto k (0) }".to_string(),
        "data List[A] { Nil, Cons(x: A, xs: List[A]) }\ndef main(): List[i64] { Nil }".to_string(),
        "def main(n: i64): i64 { main(n) }".to_string(),
        "def main(n: i64): i64 { 0 }\ndef main(n: i64): i64 { 1 }".to_string(),
    ];
    for n in 0..=7 {
        let ps: Vec<String> = (0..n).map(|i| format!("p{i}: i64")).collect();
        v.push(format!("def main({}): i64 {{ {} }}", ps.join(", "), if n == 0 { "1".to_string() } else { "p0".to_string() }));
    }
    v
}

fn binary_slice(rep: &mut Report) {
    let scc = scc_path();
    if !scc.exists() {
        rep.notes.push("scc binary not built; the binary-level part was not exercised in this run".into());
        return;
    }
    let dir = scratch_dir().join(format!("c18-{}", std::process::id()));
    let _ = std::fs::create_dir_all(&dir);
    let mut inputs: Vec<(String, Vec<u8>)> = vec![
        ("empty".into(), vec![]),
        ("nul".into(), vec![0]),
        ("invalid-utf8-comment".into(), b"def main(): i64 { 1 } // \xff\xfe\n".to_vec()),
        ("invalid-utf8-body".into(), b"def main(): i64 { \xc3\x28 }".to_vec()),
        ("overlong".into(), vec![0xc0, 0xaf]),
        ("bom".into(), b"\xef\xbb\xbfdef main(): i64 { 1 }".to_vec()),
        ("lone-continuation".into(), vec![0x80]),
        ("big-literal".into(), b"def main(): i64 { 9223372036854775808 }".to_vec()),
        ("no-main".into(), b"def f(): i64 { 1 }".to_vec()),
        ("ok".into(), b"def main(n: i64): i64 { println_i64(n); 0 }".to_vec()),
    ];
    for b in 0..=255u8 {
        inputs.push((format!("byte-{b}"), vec![b]));
        inputs.push((format!("byte-in-body-{b}"), [b"def main(): i64 { ".as_slice(), &[b], b" }".as_slice()].concat()));
    }
    for (name, bytes) in inputs {
        let file = dir.join("t.sc");
        let mut f = std::fs::File::create(&file).unwrap();
        f.write_all(&bytes).unwrap();
        drop(f);
        for sub in ["check", "compile"] {
            let out = std::process::Command::new(&scc).current_dir(&dir).arg(sub).arg(&file).output();
            rep.count("cases", 1);
            rep.count("evaluations", 1);
            rep.count("binary_runs", 1);
            rep.distinct.push(hash64(&(sub, &bytes)));
            match out {
                Ok(o) => {
                    let err = String::from_utf8_lossy(&o.stderr).to_string();
                    use std::os::unix::process::ExitStatusExt;
                    if o.status.code() == Some(101) || err.contains("panicked at") || o.status.signal().is_some() {
                        rep.violation(
                            format!("binary/{sub}/{}", name.trim_end_matches(|c: char| c.is_ascii_digit())),
                            format!("`scc {sub}` on input {name}: exit {:?}, stderr {:?}", o.status.code(), err.chars().take(200).collect::<String>()),
                            json!({"kind": "bytes", "name": name, "bytes": bytes, "subcommand": sub}),
                        );
                    } else {
                        rep.count("binary_runs_without_crash", 1);
                    }
                }
                Err(e) => rep.machinery(format!("scc: {e}")),
            }
        }
    }
    let _ = std::fs::remove_dir_all(&dir);
}

pub fn replay(case: &serde_json::Value) -> Result<Option<String>, String> {
    if case["kind"].as_str() == Some("input") {
        let src = case["source"].as_str().ok_or("source")?;
        let mut rep = Report::default();
        return Ok(run_input(src, &mut rep).map(|(s, m)| format!("stage {s} panics: {m}")));
    }
    Err("binary-level cases are replayed by re-running the check".into())
}
