//! C02 (Fun->Core), C03 (focusing), C04 (shrinking), C05 (linearization), C12 (well-typedness of
//! every stage): every Fun family program goes through the real stages; each intermediate program
//! is run on its reference machine and type-checked by the independent checkers.
use crate::framework::*;
use crate::generate::funfam::{all_fun_families, FunCase, FunCfg, FunSink};
use crate::pipeline::{self, Arch, StageError};
use crate::sem::ax::{run_named, run_positional, Outcome, Trace};
use crate::sem::core::{run_core, unfocus};
use crate::sem::fun::run_fun;
use crate::tc;
use serde_json::json;

pub const FUEL: u64 = 3_000_000;

#[derive(Clone, Copy, PartialEq, Eq, Debug)]
pub enum Prop {
    C02,
    C03,
    C04,
    C05,
    C12,
}
impl Prop {
    pub fn id(self) -> &'static str {
        match self {
            Prop::C02 => "C02",
            Prop::C03 => "C03",
            Prop::C04 => "C04",
            Prop::C05 => "C05",
            Prop::C12 => "C12",
        }
    }
}

fn family_of(name: &str) -> &str {
    name.split('/').next().unwrap_or(name)
}

fn same(a: &Trace, b: &Trace) -> bool {
    a.prints == b.prints && a.outcome == b.outcome
}

fn describe(t: &Trace) -> String {
    format!("prints {:?}{} outcome {:?}", &t.prints[..t.prints.len().min(8)], if t.prints.len() > 8 { "…" } else { "" }, t.outcome)
}

/// Compares `later` against `earlier` (the reference). Returns (kind, message) on disagreement.
fn agree(earlier: &Trace, later: &Trace, what: &str) -> Result<bool, (String, String)> {
    match &earlier.outcome {
        Outcome::Undefined(_) | Outcome::Fuel => return Ok(false),
        _ => {}
    }
    if same(earlier, later) {
        return Ok(true);
    }
    let kind = match (&earlier.outcome, &later.outcome) {
        (Outcome::Stuck(_), _) => "reference-stuck",
        (_, Outcome::Stuck(_)) => "stuck",
        (_, Outcome::Fuel) => "diverges",
        (_, Outcome::Undefined(_)) => "undefined-after",
        _ if earlier.prints != later.prints => "output",
        _ => "result",
    };
    Err((kind.to_string(), format!("{what}: before: {}; after: {}", describe(earlier), describe(later))))
}

pub fn free_vars_ax(s: &axcut::syntax::Statement, bound: &mut Vec<usize>, out: &mut std::collections::BTreeSet<usize>) {
    use axcut::syntax::Statement as S;
    let use_ = |id: usize, bound: &Vec<usize>, out: &mut std::collections::BTreeSet<usize>| {
        if !bound.contains(&id) {
            out.insert(id);
        }
    };
    match s {
        S::Substitute(x) => {
            for (_, old) in &x.rearrange {
                use_(old.id, bound, out);
            }
            let d = bound.len();
            for (new, _) in &x.rearrange {
                bound.push(new.var.id);
            }
            free_vars_ax(&x.next, bound, out);
            bound.truncate(d);
        }
        S::Call(c) => {
            for a in &c.args.bindings {
                use_(a.var.id, bound, out);
            }
        }
        S::Let(l) => {
            for a in &l.args.bindings {
                use_(a.var.id, bound, out);
            }
            bound.push(l.var.id);
            free_vars_ax(&l.next, bound, out);
            bound.pop();
        }
        S::Switch(sw) => {
            use_(sw.var.id, bound, out);
            for c in &sw.clauses {
                let d = bound.len();
                for b in &c.context.bindings {
                    bound.push(b.var.id);
                }
                free_vars_ax(&c.body, bound, out);
                bound.truncate(d);
            }
        }
        S::Create(cr) => {
            for c in &cr.clauses {
                let d = bound.len();
                for b in &c.context.bindings {
                    bound.push(b.var.id);
                }
                free_vars_ax(&c.body, bound, out);
                bound.truncate(d);
            }
            bound.push(cr.var.id);
            free_vars_ax(&cr.next, bound, out);
            bound.pop();
        }
        S::Invoke(i) => {
            use_(i.var.id, bound, out);
            for a in &i.args.bindings {
                use_(a.var.id, bound, out);
            }
        }
        S::Literal(l) => {
            bound.push(l.var.id);
            free_vars_ax(&l.next, bound, out);
            bound.pop();
        }
        S::Op(o) => {
            use_(o.fst.id, bound, out);
            use_(o.snd.id, bound, out);
            bound.push(o.var.id);
            free_vars_ax(&o.next, bound, out);
            bound.pop();
        }
        S::PrintI64(p) => {
            use_(p.var.id, bound, out);
            free_vars_ax(&p.next, bound, out);
        }
        S::IfC(i) => {
            use_(i.fst.id, bound, out);
            if let Some(s2) = &i.snd {
                use_(s2.id, bound, out);
            }
            free_vars_ax(&i.thenc, bound, out);
            free_vars_ax(&i.elsec, bound, out);
        }
        S::Exit(e) => use_(e.var.id, bound, out),
    }
}

/// Lifted definitions (`lift_…`) must receive exactly the free variables of their body.
fn lifted_signatures(p: &axcut::syntax::Prog) -> Result<u64, String> {
    let mut n = 0;
    for d in &p.defs {
        if !d.name.name.starts_with("lift_") {
            continue;
        }
        n += 1;
        let mut fv = std::collections::BTreeSet::new();
        free_vars_ax(&d.body, &mut Vec::new(), &mut fv);
        let params: std::collections::BTreeSet<usize> = d.context.bindings.iter().map(|b| b.var.id).collect();
        // Every free variable of the lifted body must be a parameter. (The converse is not
        // demanded of the *shrunk* body: the lifted Core statement may mention a variable that
        // shrinking eliminates, e.g. `<n | mu~x.s>` with x unused in s; a parameter that is no
        // free variable of the Core statement would be an unbound argument at the call site, which
        // the scoping check reports.)
        if !fv.is_subset(&params) {
            return Err(format!(
                "lifted definition {}_{}: parameters {:?} but the body's free variables are {:?}",
                d.name.name, d.name.id, params, fv
            ));
        }
    }
    Ok(n)
}

pub fn check_case(case: &FunCase, prop: Prop, rep: &mut Report) {
    let fam = family_of(&case.name).to_string();
    let cj = |input: &[i64]| json!({"kind": "funstage", "property": prop.id(), "name": case.name, "source": case.src, "input": input});
    let fun = match pipeline::parse_check(&case.src) {
        Ok(f) => f,
        Err(e) => {
            // a well-typed-by-construction program that the front end rejects is C15's business
            // (its positive side reports it); here the program is outside the premise
            rep.count("skipped_rejected_by_front_end", 1);
            rep.notes.push(format!("front end rejects {} ({})", case.name, format!("{e:?}").chars().take(80).collect::<String>()));
            return;
        }
    };
    rep.count("programs", 1);
    rep.distinct.push(hash64(&case.src));
    macro_rules! stage {
        ($e:expr, $name:expr) => {
            match $e {
                Ok(v) => v,
                Err(StageError::Panic { stage, msg }) => {
                    if prop == Prop::C12 {
                        rep.violation(format!("panic/{stage}"), format!("{}: stage {stage} panicked: {msg}", case.name), cj(&[]));
                    } else {
                        rep.count("later_stage_panics_seen", 1);
                    }
                    return;
                }
                Err(e) => {
                    rep.machinery(format!("{}: {e:?}", case.name));
                    return;
                }
            }
        };
    }
    let core = stage!(pipeline::to_core(fun.clone()), "fun2core");
    let focused = stage!(pipeline::focus(core.clone()), "focus");
    let focused_as_core = unfocus(&focused);
    let need_ax = matches!(prop, Prop::C04 | Prop::C05 | Prop::C12);
    let (shrunk, linear) = if need_ax {
        let s = stage!(pipeline::shrink(focused.clone()), "shrink");
        let l = stage!(pipeline::linearize(s.clone()), "linearize");
        (Some(s), Some(l))
    } else {
        (None, None)
    };

    // ---- static judgments -------------------------------------------------------------------
    match prop {
        Prop::C02 => {
            match tc::core::check_prog(&core) {
                Ok(s) => rep.count("states", s.nodes),
                Err(e) => rep.violation(format!("static/{fam}"), format!("{}: translation output is not well-scoped/typed: {e}", case.name), cj(&[])),
            }
        }
        Prop::C03 => match tc::core::check_unique_binders(&focused) {
            Ok(n) => rep.count("states", n),
            Err(e) => rep.violation("static/binders".to_string(), format!("{}: {e}", case.name), cj(&[])),
        },
        Prop::C04 => {
            match lifted_signatures(shrunk.as_ref().unwrap()) {
                Ok(n) => rep.count("lifted_definitions_checked", n),
                Err(e) => rep.violation("static/lifted-signature".to_string(), format!("{}: {e}", case.name), cj(&[])),
            }
            match tc::ax::check_named_prog(shrunk.as_ref().unwrap()) {
                Ok(n) => rep.count("states", n),
                Err(e) => rep.violation("static/scoping".to_string(), format!("{}: shrunk program: {e}", case.name), cj(&[])),
            }
        }
        Prop::C05 => match tc::ax::check_linear_prog(linear.as_ref().unwrap()) {
            Ok(s) => {
                rep.count("states", s.statements);
                rep.count("paths_checked", s.paths);
            }
            Err(e) => rep.violation(format!("static/linear/{fam}"), format!("{}: linearized program violates the ordered-linear discipline: {e}", case.name), cj(&[])),
        },
        Prop::C12 => {
            let checks: Vec<(&str, Result<u64, String>)> = vec![
                ("core", tc::core::check_prog(&core).map(|s| s.nodes)),
                ("focused", tc::core::check_prog(&focused_as_core).map(|s| s.nodes)),
                ("shrunk", tc::ax::check_named_prog(shrunk.as_ref().unwrap())),
                ("linearized", tc::ax::check_linear_prog(linear.as_ref().unwrap()).map(|s| s.statements)),
            ];
            for (stage, r) in checks {
                match r {
                    Ok(n) => rep.count("states", n),
                    Err(e) => {
                        rep.outcomes.insert(format!("ill-typed/{stage}"));
                        rep.violation(format!("ill-typed/{stage}"), format!("{}: {stage} program: {e}", case.name), cj(&[]));
                    }
                }
            }
            let main_params = linear.as_ref().and_then(|l| l.defs.first().map(|d| d.context.bindings.len())).unwrap_or(0);
            for arch in Arch::all() {
                match pipeline::codegen(linear.clone().unwrap(), arch) {
                    Ok(_) => rep.count("codegen_runs", 1),
                    Err(StageError::Panic { msg, .. }) if super::codegen::is_capacity_panic_for(&msg, main_params, arch) => rep.count("skipped_capacity", 1),
                    Err(StageError::Panic { stage, msg }) => {
                        rep.violation(format!("panic/{stage}"), format!("{}: {stage} panicked: {msg}", case.name), cj(&[]));
                    }
                    Err(e) => rep.machinery(format!("{e:?}")),
                }
            }
            rep.count("cases", 1);
            rep.count("evaluations", 1);
            rep.outcomes.insert(format!("all-stages-typed/{fam}"));
            return;
        }
    }

    // ---- dynamic agreement --------------------------------------------------------------------
    for input in &case.inputs {
        rep.count("cases", 1);
        let (before, after, what): (Trace, Trace, &str) = match prop {
            Prop::C02 => (run_fun(&fun, input, FUEL), run_core(&core, 0, input, FUEL), "source semantics vs Core machine on the translation output"),
            Prop::C03 => (run_core(&core, 0, input, FUEL), run_core(&focused_as_core, 0, input, FUEL), "Core machine before vs after focusing"),
            Prop::C04 => (run_core(&focused_as_core, 0, input, FUEL), run_named(shrunk.as_ref().unwrap(), 0, input, FUEL), "focused Core machine vs AxCut machine on the shrunk program"),
            Prop::C05 => (run_named(shrunk.as_ref().unwrap(), 0, input, FUEL), run_positional(linear.as_ref().unwrap(), 0, input, FUEL), "AxCut machine (by name) vs linearized program on the positional machine"),
            Prop::C12 => unreachable!(),
        };
        rep.count("transitions", before.steps + after.steps);
        match agree(&before, &after, what) {
            Ok(true) => {
                rep.count("traces_validated_against_impl", 1);
                rep.outcomes.insert(format!("match/{fam}"));
                if rep.samples.len() < 3 {
                    rep.sample(json!({"case": case.name, "input": input, "observation": describe(&after)}));
                }
            }
            Ok(false) => rep.count("skipped_undefined", 1),
            Err((kind, msg)) => {
                rep.outcomes.insert(format!("violation/{kind}"));
                rep.violation(format!("{}/{fam}/{kind}", prop.id()), format!("{} on {input:?}: {msg}", case.name), cj(input));
            }
        }
    }
}

pub fn worker(ctx: &WorkerCtx, prop: Prop) -> Report {
    let mut rep = Report::default();
    if matches!(prop, Prop::C03 | Prop::C04 | Prop::C05 | Prop::C12) {
        core_worker(ctx, prop, &mut rep);
    }
    // the in-process stage checks afford the 6-node FUN-S space at the quick tier already (C12 runs
    // three code generators per program and keeps 5), and 7 nodes at the thorough tier for C02/C03
    let small_max = match (ctx.tier.thorough(), prop) {
        (false, Prop::C12) => 5,
        (false, _) => 6,
        (true, Prop::C02 | Prop::C03) => 7,
        (true, _) => 6,
    };
    let cfg = FunCfg { thorough: ctx.tier.thorough(), small_max, with_unsequenced: prop != Prop::C02 };
    {
        let mut handle = |case: FunCase| {
            if prop == Prop::C02 && !case.sequenced {
                return;
            }
            check_case(&case, prop, &mut rep);
        };
        let mut sink = FunSink { idx: 0, shard: ctx.shard, n: ctx.nshards, f: &mut handle };
        all_fun_families(&cfg, &mut sink);
    }
    rep
}

pub fn replay(case: &serde_json::Value) -> Result<Option<String>, String> {
    let prop = match case["property"].as_str().ok_or("property")? {
        "C02" => Prop::C02,
        "C03" => Prop::C03,
        "C04" => Prop::C04,
        "C05" => Prop::C05,
        _ => Prop::C12,
    };
    let src = case["source"].as_str().unwrap_or("").to_string();
    let input: Vec<i64> = case["input"].as_array().map(|a| a.iter().filter_map(|x| x.as_i64()).collect()).unwrap_or_default();
    if case["kind"].as_str() == Some("axnl") {
        return replay_nl(case);
    }
    if case["kind"].as_str() == Some("corefam") {
        // the program is regenerated from its position in the enumeration: core/<alphabet>/n<size>/<index>
        let name = case["name"].as_str().ok_or("name")?;
        let parts: Vec<&str> = name.split('/').collect();
        if parts.len() != 4 {
            return Err(format!("bad corefam name {name}"));
        }
        let size: usize = parts[2].trim_start_matches('n').parse().map_err(|_| "size")?;
        let ids = parts[3].ends_with("#ids");
        let index: usize = parts[3].trim_end_matches("#ids").parse().map_err(|_| "index")?;
        let (_, alpha, _) = core_enumeration(true, prop).into_iter().find(|(n, _, _)| *n == parts[1]).ok_or("alphabet")?;
        let mut e = crate::generate::corefam::Enum::new(alpha);
        let all = e.stmts(crate::generate::corefam::initial_scope(), size);
        let st = all.get(index).ok_or("index out of range")?;
        let prog = crate::generate::corefam::program_ids(st, true, ids).0;
        let mut rep = Report::default();
        check_core_case(name, &prog, prop, &mut rep);
        if let Some(v) = rep.violations.first() {
            return Ok(Some(format!("{}: {}", v.sig, v.msg)));
        }
        if let Some(m) = rep.machinery.first() {
            return Err(m.clone());
        }
        return Ok(None);
    }
    let fc = FunCase { name: case["name"].as_str().unwrap_or("replay").to_string(), src, inputs: if input.is_empty() { vec![] } else { vec![input] }, sequenced: true };
    let mut rep = Report::default();
    check_case(&fc, prop, &mut rep);
    if let Some(v) = rep.violations.first() {
        return Ok(Some(format!("{}: {}", v.sig, v.msg)));
    }
    if let Some(m) = rep.machinery.first() {
        return Err(m.clone());
    }
    Ok(None)
}

// ---------------------------------------------------------------------------------------------
// C03 / C04 / C12 on hand-built Core programs (G-CORE)
// ---------------------------------------------------------------------------------------------

/// One hand-built Core program: well-typed by TC-CORE (premise), then focused by the real code.
/// C03: same behaviour on R-CORE before and after, binders distinct afterwards.
/// C04: the focused program and its shrunk AxCut program agree; C12: every stage type-checks.
pub fn check_core_case(name: &str, prog: &core_lang::syntax::Prog, prop: Prop, rep: &mut Report) {
    use printer::Print;
    let text = prog.print_to_string(None);
    let cj = |input: &[i64]| json!({"kind": "corefam", "property": prop.id(), "name": name, "core": text, "input": input});
    rep.distinct.push(hash64(&text));
    match tc::core::check_prog(prog) {
        Ok(s) => rep.count("states", s.nodes),
        Err(e) => {
            rep.machinery(format!("{name}: generated Core program is not well-typed: {e}"));
            return;
        }
    }
    rep.count("core_programs", 1);
    let focused = match pipeline::focus(prog.clone()) {
        Ok(f) => f,
        Err(StageError::Panic { stage, msg }) => {
            if matches!(prop, Prop::C03 | Prop::C12) {
                rep.violation(format!("panic/{stage}/core"), format!("{name}: stage {stage} panicked on a well-typed Core program: {msg}"), cj(&[]));
            }
            return;
        }
        Err(e) => {
            rep.machinery(format!("{name}: {e:?}"));
            return;
        }
    };
    let focused_as_core = unfocus(&focused);
    match prop {
        Prop::C03 => {
            match tc::core::check_unique_binders(&focused) {
                Ok(n) => rep.count("states", n),
                Err(e) => rep.violation("static/binders/core".to_string(), format!("{name}: {e}"), cj(&[])),
            }
            for input in [[0i64], [3]] {
                rep.count("cases", 1);
                let before = run_core(prog, 0, &input, FUEL);
                let after = run_core(&focused_as_core, 0, &input, FUEL);
                rep.count("transitions", before.steps + after.steps);
                match agree(&before, &after, "Core machine before vs after focusing (hand-built Core)") {
                    Ok(true) => {
                        rep.count("traces_validated_against_impl", 1);
                        rep.outcomes.insert(format!("match/core/{}", describe(&after).chars().take(24).collect::<String>()));
                    }
                    Ok(false) => rep.count("skipped_undefined", 1),
                    Err((kind, msg)) => {
                        rep.outcomes.insert(format!("violation/{kind}"));
                        rep.violation(format!("C03/core/{kind}"), format!("{name} on {input:?}: {msg}"), cj(&input));
                    }
                }
            }
        }
        Prop::C04 | Prop::C05 | Prop::C12 => {
            let shrunk = match pipeline::shrink(focused.clone()) {
                Ok(s) => s,
                Err(StageError::Panic { stage, msg }) => {
                    rep.violation(format!("panic/{stage}/core"), format!("{name}: stage {stage} panicked: {msg}"), cj(&[]));
                    return;
                }
                Err(e) => {
                    rep.machinery(format!("{name}: {e:?}"));
                    return;
                }
            };
            if prop == Prop::C04 {
                match lifted_signatures(&shrunk) {
                    Ok(n) => rep.count("lifted_definitions_checked", n),
                    Err(e) => rep.violation("static/lifted-signature/core".to_string(), format!("{name}: {e}"), cj(&[])),
                }
                match tc::ax::check_named_prog(&shrunk) {
                    Ok(n) => rep.count("states", n),
                    Err(e) => rep.violation("static/scoping/core".to_string(), format!("{name}: shrunk program: {e}"), cj(&[])),
                }
                for input in [[0i64], [3]] {
                    rep.count("cases", 1);
                    let before = run_core(&focused_as_core, 0, &input, FUEL);
                    let after = run_named(&shrunk, 0, &input, FUEL);
                    rep.count("transitions", before.steps + after.steps);
                    match agree(&before, &after, "focused Core machine vs AxCut machine on the shrunk program (hand-built Core)") {
                        Ok(true) => {
                            rep.count("traces_validated_against_impl", 1);
                            rep.outcomes.insert("match/core".to_string());
                        }
                        Ok(false) => rep.count("skipped_undefined", 1),
                        Err((kind, msg)) => {
                            rep.outcomes.insert(format!("violation/{kind}"));
                            rep.violation(format!("C04/core/{kind}"), format!("{name} on {input:?}: {msg}"), cj(&input));
                        }
                    }
                }
            } else if prop == Prop::C05 {
                let linear = match pipeline::linearize(shrunk.clone()) {
                    Ok(l) => l,
                    Err(StageError::Panic { .. }) => {
                        rep.count("later_stage_panics_seen", 1);
                        return;
                    }
                    Err(e) => {
                        rep.machinery(format!("{name}: {e:?}"));
                        return;
                    }
                };
                match tc::ax::check_linear_prog(&linear) {
                    Ok(st) => {
                        rep.count("states", st.statements);
                        rep.count("paths_checked", st.paths);
                    }
                    Err(e) => rep.violation("static/linear/core".to_string(), format!("{name}: linearized program violates the ordered-linear discipline: {e}"), cj(&[])),
                }
                for input in [[0i64], [3]] {
                    rep.count("cases", 1);
                    let before = run_named(&shrunk, 0, &input, FUEL);
                    let after = run_positional(&linear, 0, &input, FUEL);
                    rep.count("transitions", before.steps + after.steps);
                    match agree(&before, &after, "AxCut machine (by name) vs linearized program on the positional machine (hand-built Core)") {
                        Ok(true) => {
                            rep.count("traces_validated_against_impl", 1);
                            rep.outcomes.insert("match/core".to_string());
                        }
                        Ok(false) => rep.count("skipped_undefined", 1),
                        Err((kind, msg)) => {
                            rep.outcomes.insert(format!("violation/{kind}"));
                            rep.violation(format!("C05/core/{kind}"), format!("{name} on {input:?}: {msg}"), cj(&input));
                        }
                    }
                }
            } else {
                rep.count("cases", 1);
                rep.count("evaluations", 1);
                let linear = match pipeline::linearize(shrunk.clone()) {
                    Ok(l) => l,
                    Err(StageError::Panic { stage, msg }) => {
                        rep.violation(format!("panic/{stage}/core"), format!("{name}: stage {stage} panicked: {msg}"), cj(&[]));
                        return;
                    }
                    Err(e) => {
                        rep.machinery(format!("{name}: {e:?}"));
                        return;
                    }
                };
                let checks: Vec<(&str, Result<u64, String>)> = vec![
                    ("focused", tc::core::check_prog(&focused_as_core).map(|s| s.nodes)),
                    ("shrunk", tc::ax::check_named_prog(&shrunk)),
                    ("linearized", tc::ax::check_linear_prog(&linear).map(|s| s.statements)),
                ];
                for (stage, r) in checks {
                    match r {
                        Ok(n) => rep.count("states", n),
                        Err(e) => {
                            rep.outcomes.insert(format!("ill-typed/{stage}"));
                            rep.violation(format!("ill-typed/{stage}/core"), format!("{name}: {stage} program: {e}"), cj(&[]));
                        }
                    }
                }
            }
        }
        _ => {}
    }
}

/// Sizes and alphabets of the G-CORE enumeration per tier.
pub fn core_enumeration(thorough: bool, prop: Prop) -> Vec<(&'static str, crate::generate::corefam::Alphabet, usize)> {
    use crate::generate::corefam::{Alphabet, T};
    if let Ok(v) = std::env::var("VERIF_CORE_MAX") {
        // experimentation aid: "a,b" = maximal sizes of the two enumerations
        let ns: Vec<usize> = v.split(',').filter_map(|x| x.parse().ok()).collect();
        return vec![
            ("all", Alphabet { types: vec![T::Int, T::Pair, T::Fun], with_print: true, with_if: true, with_call: true, with_exit: true, if2: vec![] }, ns[0]),
            ("int-pair", Alphabet { types: vec![T::Int, T::Pair], with_print: true, with_if: false, with_call: false, with_exit: false, if2: vec![] }, ns[1]),
            ("int-opt", Alphabet { types: vec![T::Int, T::Opt], with_print: true, with_if: false, with_call: false, with_exit: false, if2: vec![] }, *ns.get(2).unwrap_or(&ns[1])),
        ];
    }
    // C03 only runs the two Core machines; C04/C12 add shrinking (+ linearization and three checkers)
    let (a, b) = match (thorough, prop) {
        (false, Prop::C03) => (12, 14),
        (false, _) => (11, 13),
        (true, Prop::C03) => (14, 16),
        (true, _) => (13, 15),
    };
    vec![
        ("all", Alphabet { types: vec![T::Int, T::Pair, T::Fun], with_print: true, with_if: true, with_call: true, with_exit: true, if2: vec![] }, a),
        ("int-pair", Alphabet { types: vec![T::Int, T::Pair], with_print: true, with_if: false, with_call: false, with_exit: false, if2: vec![] }, b),
        // a two-constructor data type: two-clause cases, critical pairs that shrinking lifts
        ("int-opt", Alphabet { types: vec![T::Int, T::Opt], with_print: true, with_if: false, with_call: false, with_exit: false, if2: vec![] }, b + 1),
        // two-operand conditionals of all six sorts (effects in both operands, in the branches)
        ("int-cmp", Alphabet { types: vec![T::Int], with_print: true, with_if: false, with_call: false, with_exit: true, if2: vec![0, 1, 2, 3, 4, 5] }, a - 1),
        // a constructor with a constructor-typed argument (constructor applications nest)
        ("int-pair-wrap", Alphabet { types: vec![T::Int, T::Pair, T::Wrap], with_print: true, with_if: false, with_call: false, with_exit: false, if2: vec![] }, b - 2),
    ]
}

pub fn core_worker(ctx: &WorkerCtx, prop: Prop, rep: &mut Report) {
    use crate::generate::corefam::{initial_scope, program, Enum};
    let mut idx = 0u64;
    for (aname, alpha, max) in core_enumeration(ctx.tier.thorough(), prop) {
        let mut e = Enum::new(alpha);
        for size in 3..=max {
            let all = e.stmts(initial_scope(), size);
            for (i, s) in all.iter().enumerate() {
                idx += 1;
                if !ctx.mine(idx) {
                    continue;
                }
                let prog = program(s);
                check_core_case(&format!("core/{aname}/n{size}/{i}"), &prog, prop, rep);
                // the partly unique variant (outer identifiers with non-zero ids, same base names
                // re-bound with id 0 inside), when some inner binder does shadow an outer name
                let (pu, shadowed) = crate::generate::corefam::program_ids(s, true, true);
                if shadowed {
                    check_core_case(&format!("core/{aname}/n{size}/{i}#ids"), &pu, prop, rep);
                }
            }
            if ctx.out_of_time() {
                rep.capped = Some(format!("time budget hit in the Core enumeration {aname} at size {size}"));
                return;
            }
        }
    }
}

// ---------------------------------------------------------------------------------------------
// C05 on the complete space of small non-linear statements (G-AX(a))
// ---------------------------------------------------------------------------------------------

/// The statement as generated (`max_id` far above every id), with `max_id` equal to the highest id
/// in use (what the real pipeline hands to the linearizer), and with all variable ids mirrored so
/// that the entry definition holds the highest ids.
pub fn check_nl(case: &crate::generate::axnl::NlCase, rep: &mut Report) {
    check_nl_one(case, rep);
    let t = crate::generate::axnl::NlCase { name: format!("{}#tight", case.name), prog: crate::generate::axpad::tight(&case.prog), args: case.args.clone() };
    check_nl_one(&t, rep);
    let m = crate::generate::axnl::NlCase { name: format!("{}#mirrored", case.name), prog: crate::generate::axpad::mirrored_tight(&case.prog), args: case.args.clone() };
    check_nl_one(&m, rep);
}

fn check_nl_one(case: &crate::generate::axnl::NlCase, rep: &mut Report) {
    use printer::Print;
    rep.count("cases", 1);
    rep.count("nonlinear_statements", 1);
    let cj = json!({"kind": "axnl", "property": "C05", "name": case.name, "program": case.prog.print_to_string(None)});
    if let Err(e) = tc::ax::check_named_prog(&case.prog) {
        rep.machinery(format!("generated non-linear program {} is ill-formed: {e}", case.name));
        return;
    }
    let before = run_named(&case.prog, 0, &case.args, 100_000);
    let lin = match pipeline::linearize(case.prog.clone()) {
        Ok(l) => l,
        Err(e) => {
            rep.violation("nl/panic".to_string(), format!("{}: linearization failed: {e:?}", case.name), cj);
            return;
        }
    };
    rep.distinct.push(hash64(&case.prog.print_to_string(None)));
    match tc::ax::check_linear_prog(&lin) {
        Ok(s) => rep.count("states", s.statements),
        Err(e) => {
            let kind = case.name.split('/').nth(4).unwrap_or("?").trim_end_matches(char::is_numeric).trim_end_matches('_').trim_end_matches(char::is_numeric).to_string();
            rep.violation(format!("nl/static/{kind}"), format!("{}: linearized program violates the ordered-linear discipline: {e}", case.name), cj);
            return;
        }
    }
    let after = run_positional(&lin, 0, &case.args, 100_000);
    rep.count("transitions", before.steps + after.steps);
    match agree(&before, &after, "by-name machine vs positional machine on the linearized program") {
        Ok(true) => {
            rep.count("traces_validated_against_impl", 1);
            rep.outcomes.insert("match/nl".into());
        }
        Ok(false) => rep.count("skipped_undefined", 1),
        Err((kind, msg)) => {
            rep.outcomes.insert(format!("violation/{kind}"));
            rep.violation(format!("nl/{kind}"), format!("{}: {msg}", case.name), cj);
        }
    }
}

pub fn nl_worker(ctx: &WorkerCtx, rep: &mut Report) {
    let n_max = if ctx.tier.thorough() { 4 } else { 3 };
    let mut idx = 0u64;
    crate::generate::axnl::enumerate(n_max, |case| {
        idx += 1;
        if ctx.mine(idx) {
            check_nl(&case, rep);
        }
    });
    crate::generate::axnl::enumerate_invoke(n_max + 1, |case| {
        idx += 1;
        if ctx.mine(idx) {
            check_nl(&case, rep);
        }
    });
}

fn replay_nl(case: &serde_json::Value) -> Result<Option<String>, String> {
    let full = case["name"].as_str().ok_or("name")?.to_string();
    let name = full.split('#').next().unwrap_or("").to_string();
    let mut found = None;
    crate::generate::axnl::enumerate(4, |c| {
        if found.is_none() && c.name == name {
            found = Some(c);
        }
    });
    crate::generate::axnl::enumerate_invoke(5, |c| {
        if found.is_none() && c.name == name {
            found = Some(c);
        }
    });
    let c = found.ok_or("case not found")?;
    let mut rep = Report::default();
    check_nl(&c, &mut rep);
    if let Some(v) = rep.violations.iter().find(|v| v.msg.starts_with(&format!("{full}:"))).or(rep.violations.first()) {
        return Ok(Some(format!("{}: {}", v.sig, v.msg)));
    }
    Ok(None)
}
