//! C14: every emitted assembly file is well-formed for its assembler.
use crate::arch::arch_info;
use crate::emu::ArchInfo;
use crate::framework::*;
use crate::generate::axfam::{all_families, AxCase, Sink};
use crate::generate::funfam::{all_fun_families, FunCase, FunCfg, FunSink};
use crate::mon::asmlint::lint;
use crate::native::NativeEnv;
use crate::pipeline::{self, codegen, Arch, StageError};
use serde_json::json;
use std::process::Command;

fn lint_text(arch: Arch, info: &ArchInfo, text: &str, origin: &str, case: serde_json::Value, rep: &mut Report) {
    rep.count("files_linted", 1);
    match lint(arch, text, info) {
        Ok((problems, stats)) => {
            rep.count("instructions_linted", stats.instructions);
            rep.count("labels_checked", stats.labels);
            rep.count("jump_tables_checked", stats.tables);
            if problems.is_empty() {
                rep.outcomes.insert(format!("lint-clean/{}/{}", arch.name(), if stats.tables > 0 { "with-jump-tables" } else { "no-jump-table" }));
            }
            for pr in problems.iter().take(3) {
                rep.outcomes.insert(format!("violation/{}", pr.kind));
                rep.violation(format!("{}/{}", arch.name(), pr.kind), format!("{origin}: {}", pr.msg), case.clone());
            }
        }
        Err(e) => rep.machinery(format!("{origin}: cannot parse the {} file: {e}", arch.name())),
    }
}

/// Checks with objdump that every jump table of the object consists of E9 rel32 entries that are
/// exactly `stride` bytes apart.
fn check_table_bytes(obj: &std::path::Path, text: &str, stride: i64) -> Result<u64, String> {
    // table labels = labels whose address is taken by lea
    let mut tables: Vec<String> = Vec::new();
    for line in text.lines() {
        let t = line.trim();
        if let Some(rest) = t.strip_prefix("lea ") {
            if let Some(p) = rest.find("[rel ") {
                let l = rest[p + 5..].trim_end_matches(']').trim().to_string();
                if !tables.contains(&l) {
                    tables.push(l);
                }
            }
        }
    }
    if tables.is_empty() {
        return Ok(0);
    }
    let out = Command::new("objdump").arg("-d").arg("-M").arg("intel").arg(obj).output().map_err(|e| format!("objdump: {e}"))?;
    if !out.status.success() {
        return Err("objdump failed".into());
    }
    let dump = String::from_utf8_lossy(&out.stdout);
    let lines: Vec<&str> = dump.lines().collect();
    let mut checked = 0;
    for t in &tables {
        let header = format!("<{t}>:");
        let Some(pos) = lines.iter().position(|l| l.ends_with(&header)) else { continue };
        // count how many jump entries the text has at this label
        let mut want = 0;
        let mut in_table = false;
        for l in text.lines() {
            let tl = l.trim();
            if tl == format!("{t}:") {
                in_table = true;
                continue;
            }
            if in_table {
                if tl.starts_with("jmp ") && !tl.starts_with("jmp r") {
                    want += 1;
                } else if tl.is_empty() || tl.starts_with(';') {
                    continue;
                } else {
                    break;
                }
            }
        }
        if want < 2 {
            continue;
        }
        let mut prev: Option<i64> = None;
        for k in 0..want {
            let Some(l) = lines.get(pos + 1 + k) else { return Err(format!("table {t}: object code ends early")) };
            let mut parts = l.trim().splitn(2, ':');
            let addr = i64::from_str_radix(parts.next().unwrap_or("").trim(), 16).map_err(|_| format!("table {t}: cannot read `{l}`"))?;
            let rest = parts.next().unwrap_or("").trim();
            if !rest.starts_with("e9 ") {
                return Err(format!("table {t}: entry {k} is encoded as `{rest}`, not as a 5-byte E9 rel32 jump"));
            }
            if let Some(p) = prev {
                if addr - p != stride {
                    return Err(format!("table {t}: entries {} and {k} are {} bytes apart, tag arithmetic assumes {stride}", k - 1, addr - p));
                }
            }
            prev = Some(addr);
        }
        checked += 1;
    }
    Ok(checked)
}

fn native_accepts(nat: &mut NativeEnv, text: &str, info: &ArchInfo, origin: &str, case: serde_json::Value, rep: &mut Report) {
    match nat.assemble(text) {
        Ok(obj) => {
            rep.count("files_accepted_by_gnu_as", 1);
            match check_table_bytes(&obj, text, info.jump_length_1) {
                Ok(n) => {
                    rep.count("jump_tables_verified_in_object_code", n);
                    rep.outcomes.insert(format!("assembled/{}", if n > 0 { "tables-read-back" } else { "no-table" }));
                }
                Err(e) => rep.violation("x86_64/jump-table-bytes".to_string(), format!("{origin}: {e}"), case),
            }
            nat.remove(&obj);
        }
        Err(e) => {
            let kind = if e.contains("already defined") {
                "duplicate-label"
            } else if e.contains("operand") {
                "operand-form"
            } else {
                "rejected"
            };
            rep.outcomes.insert(format!("violation/as-{kind}"));
            rep.violation(format!("x86_64/as/{kind}"), format!("{origin}: GNU as rejects the file: {e}"), case);
        }
    }
}

fn generated_def_symbols(text: &str) -> Vec<String> {
    // labels that a user definition could spell: lowercase start, trailing underscore
    let mut v = Vec::new();
    for line in text.lines() {
        let t = line.trim();
        if let Some(l) = t.strip_suffix(':') {
            if l.ends_with('_') && l.chars().next().map(|c| c.is_ascii_lowercase()).unwrap_or(false) {
                let name = &l[..l.len() - 1];
                if name.chars().all(|c| c.is_ascii_alphanumeric() || c == '_') && !v.contains(&name.to_string()) {
                    v.push(name.to_string());
                }
            }
        }
    }
    v
}

fn user_defs(src: &str) -> Vec<String> {
    src.lines().filter_map(|l| l.trim().strip_prefix("def ")).filter_map(|r| r.split('(').next()).map(|s| s.trim().to_string()).collect()
}

pub fn check_fun_case(case: &FunCase, infos: &[(Arch, ArchInfo)], nat: &mut NativeEnv, closure: bool, rep: &mut Report) {
    let st = match pipeline::all_stages(&case.src) {
        Ok(s) => s,
        Err(StageError::Panic { .. }) => {
            rep.count("pipeline_panics_seen", 1);
            return;
        }
        Err(e) => {
            rep.machinery(format!("{}: {e:?}", case.name));
            return;
        }
    };
    rep.count("cases", 1);
    rep.count("evaluations", 1);
    rep.distinct.push(hash64(&case.src));
    let cj = json!({"kind": "asm-fun", "name": case.name, "source": case.src});
    let mut x86_text = None;
    for (arch, info) in infos {
        match codegen(st.linear.clone(), *arch) {
            Ok((text, _)) => {
                lint_text(*arch, info, &text, &case.name, cj.clone(), rep);
                if *arch == Arch::X86 {
                    x86_text = Some(text);
                }
            }
            Err(StageError::Panic { msg, .. }) if super::codegen::is_capacity_panic(&msg) || msg.contains("not implemented in RISC-V backend") => {
                rep.count("skipped_capacity_or_rv64_print", 1);
            }
            Err(e) => rep.count("codegen_panics_seen", 1),
        }
    }
    let Some(text) = x86_text else { return };
    native_accepts(nat, &text, &infos[0].1, &case.name, cj.clone(), rep);
    if !closure {
        return;
    }
    // symbol-injection closure: a user definition spelled like each generated definition symbol
    let users = user_defs(&case.src);
    for g0 in generated_def_symbols(&text) {
        if users.contains(&g0) || g0 == "main" {
            continue;
        }
        if g0.starts_with("lift_") {
            rep.count("lifted_symbols_seen", 1);
        }
        // adding a definition shifts the numbering of generated names; iterate so that the injected
        // name follows the generated one (the shift depends on the definition's shape, not its name)
        let mut g = g0.clone();
        let stem = |x: &str| x.trim_end_matches(|c: char| c.is_ascii_digit()).to_string();
        for _round in 0..4 {
            let variant = format!("{}def {g}(q: i64): i64 {{ q }}\n", case.src);
            rep.count("injection_variants", 1);
            let Ok(st2) = pipeline::all_stages(&variant) else {
                rep.count("injection_variants_rejected_or_panicking", 1);
                break;
            };
            let vj = json!({"kind": "asm-fun", "name": format!("{}+def {g}", case.name), "source": variant});
            let mut next_g: Option<String> = None;
            for (arch, info) in infos {
                if let Ok((t2, _)) = codegen(st2.linear.clone(), *arch) {
                    if *arch == Arch::X86 {
                        let mut users2 = users.clone();
                        users2.push(g.clone());
                        next_g = generated_def_symbols(&t2).into_iter().find(|x| stem(x) == stem(&g0) && !users2.contains(x));
                    }
                    match lint(*arch, &t2, info) {
                        Ok((problems, _)) => {
                            for pr in problems.iter().filter(|p| p.kind == "duplicate-label" || p.kind == "runtime-symbol-clash").take(1) {
                                rep.outcomes.insert("violation/injected-collision".into());
                                rep.violation(
                                    format!("{}/injected-collision/{}", arch.name(), stem(&g)),
                                    format!("{} with an extra user definition `{g}`: {}", case.name, pr.msg),
                                    vj.clone(),
                                );
                            }
                        }
                        Err(e) => rep.machinery(e),
                    }
                }
            }
            match next_g {
                Some(n) if n != g => g = n,
                _ => break,
            }
        }
    }
}

pub fn worker(ctx: &WorkerCtx) -> Report {
    let mut rep = Report::default();
    let infos: Vec<(Arch, ArchInfo)> = Arch::all().into_iter().map(|a| (a, arch_info(a))).collect();
    let mut nat = match NativeEnv::new(&format!("c14-{}", ctx.shard)) {
        Ok(n) => n,
        Err(e) => {
            rep.machinery(e);
            return rep;
        }
    };
    // (1) linear AxCut families, all backends
    for (arch, info) in &infos {
        let with_print = *arch != Arch::Rv64;
        let cfg = super::codegen::fam_cfg(*arch, ctx.tier, with_print);
        let mut handle = |case: AxCase| {
            rep.count("cases", 1);
            rep.count("evaluations", 1);
            let text = match codegen(case.prog.clone(), *arch) {
                Ok((t, _)) => t,
                Err(_) => {
                    rep.count("skipped_capacity", 1);
                    return;
                }
            };
            rep.distinct.push(hash64(&(arch.name(), &text.len(), &case.name)));
            let cj = super::codegen::case_json(&case, *arch);
            lint_text(*arch, info, &text, &case.name, cj.clone(), &mut rep);
            if *arch == Arch::X86 && (ctx.tier.thorough() || hash64(&case.name) % 4 == 0) {
                native_accepts(&mut nat, &text, info, &case.name, cj, &mut rep);
            }
        };
        let mut sink = Sink { idx: 0, shard: ctx.shard, n: ctx.nshards, f: &mut handle };
        all_families(&cfg, &mut sink);
    }
    // (2) Fun families through the whole pipeline, with the symbol-injection closure
    {
        let cfg = FunCfg { thorough: ctx.tier.thorough(), small_max: 0, with_unsequenced: true };
        let mut handle = |case: FunCase| {
            let closure = !case.name.starts_with("small/") || hash64(&case.name) % 8 == 0;
            check_fun_case(&case, &infos, &mut nat, closure, &mut rep);
        };
        let mut sink = FunSink { idx: 0, shard: ctx.shard, n: ctx.nshards, f: &mut handle };
        all_fun_families(&cfg, &mut sink);
    }
    nat.cleanup();
    rep.sample(json!({"note": "every file is linted; x86-64 files are additionally assembled by GNU as and their jump tables read back with objdump"}));
    rep
}

pub fn replay(case: &serde_json::Value) -> Result<Option<String>, String> {
    let src = case["source"].as_str().ok_or("source")?.to_string();
    let fc = FunCase { name: case["name"].as_str().unwrap_or("replay").to_string(), src, inputs: vec![], sequenced: true };
    let infos: Vec<(Arch, ArchInfo)> = Arch::all().into_iter().map(|a| (a, arch_info(a))).collect();
    let mut nat = NativeEnv::new("c14-replay")?;
    let mut rep = Report::default();
    check_fun_case(&fc, &infos, &mut nat, true, &mut rep);
    nat.cleanup();
    if let Some(v) = rep.violations.first() {
        return Ok(Some(format!("{}: {}", v.sig, v.msg)));
    }
    Ok(None)
}
