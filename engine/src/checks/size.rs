//! C19: output size is polynomial — scalable families at depth k = 1..16, measured at every stage.
use crate::framework::*;
use crate::pipeline::{self, codegen, Arch, StageError};
use printer::Print;
use serde_json::json;

pub const FAMILIES: [&str; 15] = ["nested_let_codata2", "nested_let_data_producer", "seq_if", "nested_if", "seq_match2", "seq_match3", "let_chain_match", "label_critical_pair", "if_in_match", "seq_if_codata", "match_in_args", "case_of_case", "case_of_if", "dtor_of_if", "if_of_case_cond"];

const DECLS: &str = "data List[A] { Nil, Cons(x: A, xs: List[A]) }\ndata Tri { T0, T1(a: i64), T2(a: i64, b: i64) }\ncodata Fun[A, B] { ap(x: A): B }\ndata En { E0, E1, E2(a: i64) }\ndata Bl { Tr, Fa }\ncodata LP { fst: i64, snd: i64 }\ndef mk(v: i64): LP { new { fst => v, snd => v + 1 } }\ndef wrap(p: LP): LP { new { fst => p.snd, snd => p.fst } }\ndef rot(t: Tri): Tri { t.case { T0 => T1(1), T1(a) => T2(a, a), T2(a, b) => T0 } }\n";

pub fn family_source(fam: &str, k: usize) -> String {
    let mut body = String::new();
    match fam {
        "nested_let_codata2" => {
            // lets at a two-destructor codata type nested on the PRODUCER side, each continuation a leaf
            let mut t = String::from("mk(n)");
            for i in 0..k {
                t = format!("(let p{i}: LP = {t}; wrap(p{i}))");
            }
            body.push_str(&format!("let r: LP = {t}; (r.fst) + (r.snd)"));
        }
        "nested_let_data_producer" => {
            // the same shape at a data type with three constructors
            let mut t = String::from("w");
            for i in 0..k {
                t = format!("(let p{i}: Tri = {t}; rot(p{i}))");
            }
            body.push_str(&format!("let r: Tri = {t}; r.case {{ T0 => 0, T1(a) => a, T2(a, b) => a + b }}"));
        }
        "seq_if" => {
            for i in 0..k {
                body.push_str(&format!("let v{i}: i64 = if n == {i} {{ n + {i} }} else {{ n - {i} }}; "));
            }
            body.push_str(&sum_vars(k));
        }
        "nested_if" => {
            for i in 0..k {
                body.push_str(&format!("if n == {i} {{ "));
            }
            body.push_str("n");
            for i in 0..k {
                body.push_str(&format!(" }} else {{ {i} }}"));
            }
            body = format!("let r: i64 = {body}; println_i64(r); r + 1");
        }
        "seq_match2" => {
            for i in 0..k {
                body.push_str(&format!("let v{i}: i64 = l.case[i64] {{ Nil => {i}, Cons(h, t) => h + {i} }}; "));
            }
            body.push_str(&sum_vars(k));
        }
        "seq_match3" => {
            for i in 0..k {
                body.push_str(&format!("let v{i}: i64 = w.case {{ T0 => {i}, T1(a) => a + {i}, T2(a, b) => (a * b) + {i} }}; "));
            }
            body.push_str(&sum_vars(k));
        }
        "let_chain_match" => {
            body.push_str("let v0: i64 = n; ");
            for i in 1..=k {
                body.push_str(&format!("let v{i}: i64 = l.case[i64] {{ Nil => v{} + 1, Cons(h, t) => v{} + h }}; ", i - 1, i - 1));
            }
            body.push_str(&format!("v{k}"));
        }
        "label_critical_pair" => {
            for i in 0..k {
                body.push_str(&format!("let t{i}: Tri = label a{i} {{ if n == {i} {{ goto a{i} (T0) }} else {{ T1(n) }} }}; "));
            }
            body.push_str("let s: i64 = 0; ");
            let mut sum = String::from("s");
            for i in 0..k {
                sum = format!("({sum}) + (t{i}.case {{ T0 => 1, T1(a) => a, T2(a, b) => b }})");
            }
            body.push_str(&sum);
        }
        "if_in_match" => {
            for i in 0..k {
                body.push_str(&format!("let v{i}: i64 = l.case[i64] {{ Nil => if n == {i} {{ 1 }} else {{ 2 }}, Cons(h, t) => if h == {i} {{ 3 }} else {{ 4 }} }}; "));
            }
            body.push_str(&sum_vars(k));
        }
        "seq_if_codata" => {
            for i in 0..k {
                body.push_str(&format!("let f{i}: Fun[i64, i64] = if n == {i} {{ new {{ ap(q) => q + {i} }} }} else {{ new {{ ap(q) => q * {i} }} }}; "));
            }
            let mut sum = String::from("0");
            for i in 0..k {
                sum = format!("({sum}) + (f{i}.ap[i64, i64](n))");
            }
            body.push_str(&sum);
        }
        "case_of_case" => {
            // a match whose scrutinee is a match, repeatedly (consumer of the inner match is a case)
            let mut t = String::from("w");
            for i in 0..k {
                t = format!("{t}.case {{ T0 => T1(n), T1(a) => T2(a, {i}), T2(a, b) => w }}");
            }
            body.push_str(&format!("{t}.case {{ T0 => 0, T1(a) => a, T2(a, b) => a + b }}"));
        }
        "case_of_if" => {
            // the scrutinee of a match is a conditional whose branches are matches on conditionals ...
            let mut t = String::from("l");
            for i in 0..k {
                t = format!("(if n == {i} {{ {t} }} else {{ l }}).case[i64] {{ Nil => l, Cons(h, t) => t }}");
            }
            body.push_str(&format!("({t}).case[i64] {{ Nil => 0, Cons(h, t) => h }}"));
        }
        "dtor_of_if" => {
            // the receiver of a destructor is a conditional over closures built the same way
            let mut t = String::from("new { ap(q) => q + n }");
            for i in 0..k {
                t = format!("new {{ ap(q) => (if q == {i} {{ {t} }} else {{ new {{ ap(r) => r }} }}).ap[i64, i64](q + 1) }}");
            }
            body.push_str(&format!("({t}).ap[i64, i64](n)"));
        }
        "if_of_case_cond" => {
            // conditionals whose condition is a match (the consumer of the match is an integer continuation)
            for i in 0..k {
                body.push_str(&format!("let v{i}: i64 = if (l.case[i64] {{ Nil => {i}, Cons(h, t) => h }}) == (w.case {{ T0 => 0, T1(a) => a, T2(a, b) => b }}) {{ n }} else {{ {i} }}; "));
            }
            body.push_str(&sum_vars(k));
        }
        _ => {
            // matches in argument positions of a call chain
            let mut t = String::from("n");
            for i in 0..k {
                t = format!("add(l.case[i64] {{ Nil => {i}, Cons(h, t) => h }}, {t})");
            }
            body.push_str(&t);
        }
    }
    format!("{DECLS}def add(p: i64, q: i64): i64 {{ p + q }}\ndef f(n: i64, l: List[i64], w: Tri, e: En, bb: Bl): i64 {{ {body} }}\ndef main(n: i64): i64 {{ println_i64(f(n, Cons(n, Nil), T2(n, 3), E2(n), Fa)); 0 }}\n")
}

/// One-hole contexts (hole and result of type i64; `I` is the nesting index, so binders are distinct).
pub const CONTEXTS: [(&str, &str); 30] = [
    ("let_if", "let v@: i64 = if n == @ { n + @ } else { n - @ }; (#) + v@"),
    ("let_case", "let v@: i64 = l.case[i64] { Nil => @, Cons(h, t) => h + @ }; (#) + v@"),
    ("if_then", "if n == @ { # } else { @ }"),
    ("if_else", "if n == @ { @ } else { # }"),
    ("clause2", "l.case[i64] { Nil => @, Cons(h@, t@) => # }"),
    ("clause3", "w.case { T0 => @, T1(a@) => a@ + @, T2(a@, b@) => # }"),
    ("let_call_case", "let x@: List[i64] = upto(n + @); x@.case[i64] { Nil => @, Cons(h@, t@) => # }"),
    ("let_call_if", "let y@: i64 = add(n, @); if y@ == 0 { @ } else { # }"),
    ("closure_body", "(new { ap(q@) => q@ + (#) }).ap[i64, i64](@)"),
    ("label_goto", "label k@ { if n == @ { goto k@ (@) } else { # } }"),
    ("call_arg", "add(#, @)"),
    ("call_arg_after_case", "add(l.case[i64] { Nil => @, Cons(h, t) => h }, #)"),
    ("let_if_data_case", "let o@: Tri = if n == @ { T0 } else { T1(@) }; o@.case { T0 => @, T1(a@) => #, T2(a@, b@) => @ }"),
    ("let_if_codata_ap", "let f@: Fun[i64, i64] = if n == @ { new { ap(q) => q } } else { new { ap(q) => q + @ } }; f@.ap[i64, i64](#)"),
    ("print_seq", "(println_i64(@); #)"),
    // a branching `let` whose continuation is directly a call / destructor / constructor+match /
    // print / goto (every statement kind as the head of a continuation that has to be shared)
    ("let_if_then_call", "let v@: i64 = if n == @ { n + @ } else { n - @ }; add(v@, #)"),
    ("let_case_then_call", "let v@: i64 = l.case[i64] { Nil => @, Cons(h, t) => h + @ }; add(v@, #)"),
    ("let_if_then_dtor", "let v@: i64 = if n == @ { 1 } else { 2 }; (new { ap(q@) => q@ + v@ }).ap[i64, i64](#)"),
    ("let_if_then_ctor_case", "let v@: i64 = if n == @ { 1 } else { 2 }; Cons(v@, Nil).case[i64] { Nil => @, Cons(h@, t@) => h@ + (#) }"),
    ("let_if_then_print", "let v@: i64 = if n == @ { 1 } else { 2 }; (println_i64(v@); #)"),
    ("let_if_then_goto", "label k@ { let v@: i64 = if n == @ { 1 } else { 2 }; goto k@ (v@ + (#)) }"),
    // matches over types with several field-less constructors (clauses without binders)
    ("let_enum_case", "let v@: i64 = e.case { E0 => @, E1 => n + @, E2(a@) => a@ + @ }; (#) + v@"),
    ("let_bool_case", "let v@: i64 = bb.case { Tr => @, Fa => n + @ }; (#) + v@"),
    ("clause_enum", "e.case { E0 => @, E1 => #, E2(a@) => a@ }"),
    // label blocks whose body does not branch at top level, with a non-leaf continuation: bound by a
    // let (integer and data type), as scrutinee, as receiver
    ("let_label_plain", "let v@: i64 = label k@ { 1 + (if n == @ { goto k@ (@) } else { n }) }; (#) + v@"),
    ("let_label_data", "let o@: Tri = label k@ { T1(if n == @ { goto k@ (T0) } else { n }) }; o@.case { T0 => @, T1(a@) => #, T2(a@, b@) => @ }"),
    ("label_scrutinee", "(label k@ { Cons(if n == @ { goto k@ (Nil) } else { n }, Nil) }).case[i64] { Nil => @, Cons(h@, t@) => # }"),
    ("label_receiver", "(label k@ { new { ap(q@) => q@ + (if n == @ { 1 } else { 2 }) } }).ap[i64, i64](#)"),
    // a let at a codata type with two destructors whose continuation is a leaf (call) while the
    // bound term is not: nested on the producer side / chained
    ("let_codata2_call", "let p@: LP = wrap(mk(n + @)); (p@.fst) + (#)"),
    ("let_codata2_nested", "(let p@: LP = (let q@: LP = mk(#); wrap(q@)); wrap(p@)).snd"),
];

/// `k` applications of the contexts `a, b, a, b, ...` around a leaf.
pub fn context_source(a: usize, b: usize, k: usize) -> String {
    let mut t = String::from("n");
    for i in (0..k).rev() {
        let c = if i % 2 == 0 { CONTEXTS[a].1 } else { CONTEXTS[b].1 };
        t = c.replace('@', &i.to_string()).replace('#', &t);
    }
    format!("{DECLS}def add(p: i64, q: i64): i64 {{ p + q }}\ndef upto(k: i64): List[i64] {{ if k <= 0 {{ Nil }} else {{ Cons(k, upto(k - 1)) }} }}\ndef f(n: i64, l: List[i64], w: Tri, e: En, bb: Bl): i64 {{ {t} }}\ndef main(n: i64): i64 {{ println_i64(f(n, Cons(n, Nil), T2(n, 3), E2(n), Fa)); 0 }}\n")
}

fn sum_vars(k: usize) -> String {
    let mut s = String::from("0");
    for i in 0..k {
        s = format!("({s}) + v{i}");
    }
    s
}

fn instruction_count(text: &str) -> usize {
    text.lines()
        .filter(|l| {
            let t = l.trim();
            !t.is_empty() && !t.starts_with(';') && !t.starts_with("//") && !t.ends_with(':')
        })
        .count()
}

pub fn sizes(src: &str) -> Result<Vec<(&'static str, usize)>, StageError> {
    let st = pipeline::all_stages(src)?;
    // printed size without layout (indentation grows with the nesting depth and is not program size)
    let ink = |t: String| t.chars().filter(|c| !c.is_whitespace()).count();
    let mut v = vec![
        ("core", ink(st.core.print_to_string(None))),
        ("focused", ink(st.focused.print_to_string(None))),
        ("shrunk", ink(st.shrunk.print_to_string(None))),
        ("linearized", ink(st.linear.print_to_string(None))),
    ];
    for (name, arch) in [("x86_64", Arch::X86), ("aarch64", Arch::A64)] {
        let (text, _) = codegen(st.linear.clone(), arch)?;
        v.push((name, instruction_count(&text)));
    }
    Ok(v)
}


/// `step` = 1: compare consecutive depths from depth 8 on; `step` = 2 (two alternating contexts):
/// compare depths of equal parity from depth `kmax / 2 + 2` on.
fn measure_family(fam: &str, kmax: usize, step: usize, source: &dyn Fn(usize) -> String, rep: &mut Report) {
        let mut table: Vec<(usize, usize, Vec<(&'static str, usize)>)> = Vec::new();
        for k in 1..=kmax {
            let src = source(k);
            rep.count("cases", 1);
            rep.count("evaluations", 1);
            rep.distinct.push(hash64(&src));
            match sizes(&src) {
                Ok(s) => {
                    table.push((k, src.len(), s));
                    // once a depth already violates the bound there is no point in compiling deeper
                    // members (under an exponential defect they would take exponentially long)
                    let from = if step == 1 { 8 } else { kmax / 2 + 2 };
                    let n = table.len();
                    let (_, srclen, last) = &table[n - 1];
                    let over_cap = last.iter().any(|(_, size)| *size > 64 * srclen * srclen);
                    let over_ratio = n > step && table[n - 1 - step].0 >= from && table[n - 1 - step].0 + step == k && table[n - 1 - step].2.iter().zip(last.iter()).any(|((_, a), (_, b))| *b as f64 / (*a).max(1) as f64 > 1.5);
                    if over_cap || over_ratio {
                        rep.count("families_stopped_at_first_violating_depth", 1);
                        break;
                    }
                }
                Err(StageError::Panic { msg, .. }) if super::codegen::is_capacity_panic(&msg) => {
                    rep.count("skipped_capacity", 1);
                }
                Err(e) => {
                    rep.machinery(format!("family {fam} at depth {k}: {e:?}"));
                    break;
                }
            }
        }
        // growth ratio from depth 8 on, and the quadratic cap at the deepest level
        let from = if step == 1 { 8 } else { kmax / 2 + 2 };
        for w in table.windows(step + 1) {
            let (k0, _, s0) = &w[0];
            let (k1, _, s1) = &w[step];
            if *k0 < from || *k1 != k0 + step {
                continue;
            }
            for ((stage, a), (_, b)) in s0.iter().zip(s1.iter()) {
                let ratio = *b as f64 / (*a).max(1) as f64;
                rep.max("growth_ratio_x1000", (ratio * 1000.0) as i64);
                if ratio > 1.5 {
                    rep.violation(
                        format!("growth/{fam}/{stage}"),
                        format!("family {fam}, stage {stage}: size {a} at depth {k0}, {b} at depth {k1} (ratio {ratio:.2} > 1.5: not polynomial of low degree)"),
                        json!({"kind": "size", "family": fam, "depth": k1, "stage": stage}),
                    );
                }
            }
        }
        if let Some((k, srclen, s)) = table.last() {
            for (stage, size) in s {
                let cap = 64 * srclen * srclen;
                if *size > cap {
                    rep.violation(format!("cap/{fam}/{stage}"), format!("family {fam}, stage {stage} at depth {k}: size {size} exceeds 64 * source^2 = {cap}"), json!({"kind": "size", "family": fam, "depth": k, "stage": stage}));
                }
            }
            rep.sample(json!({"family": fam, "depth": k, "source_chars": srclen, "sizes": s.iter().map(|(n, v)| json!({"stage": n, "size": v})).collect::<Vec<_>>()}));
            rep.outcomes.insert(format!("{fam}/measured-to-depth-{k}"));
        }
}

pub fn worker(ctx: &WorkerCtx) -> Report {
    let mut rep = Report::default();
    let kmax = if ctx.tier.thorough() { 16 } else { 12 };
    for (fi, fam) in FAMILIES.iter().enumerate() {
        if !ctx.mine(fi as u64) {
            continue;
        }
        measure_family(fam, kmax, 1, &|k| family_source(fam, k), &mut rep);
    }
    // every single context and every ordered pair of distinct contexts, alternating
    let mut idx = FAMILIES.len() as u64;
    for a in 0..CONTEXTS.len() {
        for b in 0..CONTEXTS.len() {
            idx += 1;
            if !ctx.mine(idx) {
                continue;
            }
            let name = if a == b { format!("ctx/{}", CONTEXTS[a].0) } else { format!("ctx/{}+{}", CONTEXTS[a].0, CONTEXTS[b].0) };
            if a == b {
                measure_family(&name, kmax, 1, &|k| context_source(a, b, k), &mut rep);
            } else {
                measure_family(&name, 2 * kmax, 2, &|k| context_source(a, b, k), &mut rep);
            }
        }
    }
    rep
}
