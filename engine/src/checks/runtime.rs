//! C20: runtime contract — print primitives for all boundary i64 values, argument passing for
//! every supported arity, wrong argument counts, exit status.
use crate::arch::arch_info;
use crate::emu::NoMonitor;
use crate::exec::{run_text, ExecCfg};
use crate::framework::*;
use crate::native::NativeEnv;
use crate::pipeline::{self, codegen, Arch};
use serde_json::json;
use std::io::Write;
use std::process::{Command, Stdio};

pub fn boundary_values(thorough: bool) -> Vec<i64> {
    let mut v: Vec<i64> = Vec::new();
    let r = if thorough { 10_000 } else { 300 };
    v.extend(-r..=r);
    let mut p: i128 = 1;
    for _ in 0..=18 {
        for d in [-1i128, 0, 1] {
            for s in [1i128, -1] {
                let x = s * (p + d);
                if x >= i64::MIN as i128 && x <= i64::MAX as i128 {
                    v.push(x as i64);
                }
            }
        }
        p *= 10;
    }
    for k in 0..=63u32 {
        let p: i128 = 1i128 << k;
        for d in [-1i128, 0, 1] {
            for s in [1i128, -1] {
                let x = s * (p + d);
                if x >= i64::MIN as i128 && x <= i64::MAX as i128 {
                    v.push(x as i64);
                }
            }
        }
    }
    v.extend_from_slice(&[i64::MIN, i64::MAX, i64::MIN + 1, i64::MAX - 1]);
    v.sort();
    v.dedup();
    v
}

const HARNESS: &str = r#"
#include <stdint.h>
#include <stdio.h>
#include <stdlib.h>
#include <string.h>
#include <unistd.h>
void print_i64(int64_t value) asm("print_i64");
void println_i64(int64_t value) asm("println_i64");
/* reads decimal values (one per line) from stdin; mode "ln": println_i64 each;
   mode "raw": print_i64 each followed by a '|' written by the harness */
int main(int argc, char **argv) {
  char line[64];
  int raw = argc > 1 && strcmp(argv[1], "raw") == 0;
  while (fgets(line, sizeof line, stdin)) {
    int64_t v = (int64_t)strtoll(line, NULL, 10);
    if (raw) { print_i64(v); if (write(1, "|", 1) != 1) return 3; }
    else println_i64(v);
  }
  return 0;
}
"#;

fn print_part(nat: &mut NativeEnv, tier: Tier, rep: &mut Report) {
    let io = match nat.io_obj() {
        Ok(p) => p,
        Err(e) => {
            rep.machinery(e);
            return;
        }
    };
    let hsrc = nat.dir.join("harness.c");
    let hexe = nat.dir.join("harness.exe");
    std::fs::write(&hsrc, HARNESS).unwrap();
    let out = Command::new("gcc").arg("-O1").arg("-o").arg(&hexe).arg(&hsrc).arg(&io).output();
    match out {
        Ok(o) if o.status.success() => {}
        Ok(o) => {
            rep.machinery(format!("cannot build the io.c harness: {}", String::from_utf8_lossy(&o.stderr)));
            return;
        }
        Err(e) => {
            rep.machinery(format!("gcc: {e}"));
            return;
        }
    }
    let values = boundary_values(tier.thorough());
    for mode in ["ln", "raw"] {
        let mut child = Command::new(&hexe).arg(mode).stdin(Stdio::piped()).stdout(Stdio::piped()).spawn().expect("spawn harness");
        let input: String = values.iter().map(|v| format!("{v}\n")).collect();
        {
            let mut stdin = child.stdin.take().unwrap();
            let bytes = input.into_bytes();
            std::thread::spawn(move || {
                let _ = stdin.write_all(&bytes);
            });
        }
        let out = child.wait_with_output().expect("harness output");
        let sep = if mode == "ln" { b'\n' } else { b'|' };
        let got: Vec<&[u8]> = out.stdout.split(|b| *b == sep).collect();
        for (i, v) in values.iter().enumerate() {
            rep.count("cases", 1);
            rep.count("evaluations", 1);
            rep.distinct.push(hash64(&(mode, *v)));
            let expected = v.to_string();
            match got.get(i) {
                Some(g) if *g == expected.as_bytes() => {
                    rep.count("print_values_ok", 1);
                }
                other => {
                    let sig_class = if *v == i64::MIN { "min" } else if *v < 0 { "negative" } else { "nonnegative" };
                    rep.violation(
                        format!("print/{mode}/{sig_class}"),
                        format!("{}({v}) wrote {:?}, expected {expected:?}", if mode == "ln" { "println_i64" } else { "print_i64" }, other.map(|g| String::from_utf8_lossy(g).to_string())),
                        json!({"kind": "print", "mode": mode, "value": v}),
                    );
                }
            }
        }
        // nothing else written: exactly one trailing empty piece
        if got.len() != values.len() + 1 || !got[values.len()].is_empty() {
            rep.violation(format!("print/{mode}/extra-output"), format!("unexpected extra output ({} pieces for {} values)", got.len(), values.len()), json!({"kind": "print", "mode": mode, "value": 0}));
        }
        rep.outcomes.insert(format!("print/{mode}"));
    }
    rep.sample(json!({"print_values": values.len(), "first": values[0], "last": values[values.len() - 1]}));
}

fn echo_source(arity: usize) -> String {
    let params: Vec<String> = (0..arity).map(|i| format!("p{i}: i64")).collect();
    let mut body = String::new();
    for i in 0..arity {
        body.push_str(&format!("println_i64(p{i}); "));
    }
    format!("def main({}): i64 {{ {body}{} }}\n", params.join(", "), if arity == 0 { "77".to_string() } else { format!("p{} + 1", arity - 1) })
}

fn arg_values(thorough: bool) -> Vec<i64> {
    if thorough { vec![0, -1, 42, 1 << 40, i64::MAX, i64::MIN] } else { vec![-1, 1 << 40, i64::MIN] }
}

fn tuples(vals: &[i64], arity: usize) -> Vec<Vec<i64>> {
    let mut out = vec![vec![]];
    for _ in 0..arity {
        let mut next = Vec::new();
        for t in &out {
            for v in vals {
                let mut t2 = t.clone();
                t2.push(*v);
                next.push(t2);
            }
        }
        out = next;
    }
    out
}

fn args_part(nat: &mut NativeEnv, ctx: &WorkerCtx, rep: &mut Report) {
    let vals = arg_values(ctx.tier.thorough());
    let mut idx = 0u64;
    for arity in 0..=5usize {
        let src = echo_source(arity);
        let st = match pipeline::all_stages(&src) {
            Ok(s) => s,
            Err(e) => {
                rep.machinery(format!("echo program of arity {arity}: {e:?}"));
                continue;
            }
        };
        let (text, n) = match codegen(st.linear.clone(), Arch::X86) {
            Ok(t) => t,
            Err(e) => {
                rep.violation(format!("echo/codegen/{arity}"), format!("{e:?}"), json!({"kind": "echo", "arity": arity}));
                continue;
            }
        };
        // the driver without and with an explicit heap size (`--heap-size`)
        let heaps: Vec<Option<usize>> = if ctx.tier.thorough() { vec![None, Some(1), Some(64), Some(512)] } else { vec![None, Some(64)] };
        for heap in heaps {
        let exe = match nat.assemble(&text).and_then(|o| match heap {
            None => nat.link(&o, n),
            Some(h) => nat.link_heap(&o, n, h),
        }) {
            Ok(e) => e,
            Err(e) => {
                rep.violation(format!("echo/build/{arity}"), e, json!({"kind": "echo", "arity": arity}));
                continue;
            }
        };
        // every tuple over the value set (with an explicit heap size: a slice of them)
        for (ti, t) in tuples(&vals, arity).into_iter().enumerate() {
            if heap.is_some() && ti % 7 != 0 {
                continue;
            }
            idx += 1;
            if !ctx.mine(idx) {
                continue;
            }
            rep.count("cases", 1);
            rep.count("evaluations", 1);
            rep.distinct.push(hash64(&("echo", arity, &t, heap)));
            let args: Vec<String> = t.iter().map(|v| v.to_string()).collect();
            let run = match nat.run(&exe, &args) {
                Ok(r) => r,
                Err(e) => {
                    rep.machinery(e);
                    continue;
                }
            };
            let expected_out: String = t.iter().map(|v| format!("{v}\n")).collect();
            let result = if arity == 0 { 77 } else { t[arity - 1].wrapping_add(1) };
            let expected_status = (result & 0xff) as i32;
            if run.stdout != expected_out.as_bytes() {
                rep.violation(
                    format!("echo/arity{arity}/arguments"),
                    format!("arguments {t:?} arrived as {:?}", String::from_utf8_lossy(&run.stdout)),
                    json!({"kind": "echo", "arity": arity, "args": t}),
                );
            } else if run.status != Some(expected_status) {
                rep.violation(
                    format!("echo/arity{arity}/status"),
                    format!("arguments {t:?}: exit status {:?}, expected {expected_status} (low 8 bits of {result})", run.status),
                    json!({"kind": "echo", "arity": arity, "args": t}),
                );
            } else {
                rep.count("argument_tuples_ok", 1);
            }
        }
        // decimal arguments written with leading zeros and an explicit sign (the contract is base ten)
        if arity >= 1 && heap.is_none() {
            for (spelled, value) in [("010", 10i64), ("-017", -17), ("09", 9), ("000123", 123), ("+5", 5), ("00", 0), ("-0", 0), ("0100", 100)] {
                idx += 1;
                if !ctx.mine(idx) {
                    continue;
                }
                rep.count("cases", 1);
                rep.count("evaluations", 1);
                rep.distinct.push(hash64(&("spelled", arity, spelled)));
                let mut args: Vec<String> = vec![spelled.to_string()];
                let mut vals_t: Vec<i64> = vec![value];
                for i in 1..arity {
                    args.push((i as i64 + 1).to_string());
                    vals_t.push(i as i64 + 1);
                }
                match nat.run(&exe, &args) {
                    Ok(run) => {
                        let expected_out: String = vals_t.iter().map(|v| format!("{v}\n")).collect();
                        let result = vals_t[arity - 1].wrapping_add(1);
                        if run.stdout != expected_out.as_bytes() || run.status != Some((result & 0xff) as i32) {
                            rep.violation(
                                format!("echo/arity{arity}/spelling"),
                                format!("arguments {args:?} arrived as {:?} (status {:?}); expected {expected_out:?}", String::from_utf8_lossy(&run.stdout), run.status),
                                json!({"kind": "echo", "arity": arity, "args": args}),
                            );
                        } else {
                            rep.count("argument_tuples_ok", 1);
                        }
                    }
                    Err(e) => rep.machinery(e),
                }
            }
        }
        // every wrong argument count 0..7
        for given in 0..=7usize {
            if given == arity {
                continue;
            }
            idx += 1;
            if !ctx.mine(idx) {
                continue;
            }
            rep.count("cases", 1);
            rep.count("evaluations", 1);
            rep.distinct.push(hash64(&("wrongcount", arity, given, heap)));
            let args: Vec<String> = (0..given).map(|i| (i + 1).to_string()).collect();
            match nat.run(&exe, &args) {
                Ok(run) => {
                    let text = String::from_utf8_lossy(&run.stdout).to_string();
                    let reported = text.starts_with("wrong number of arguments");
                    let ran = text.lines().any(|l| l.trim_matches('\0').parse::<i64>().is_ok());
                    if !reported || ran || run.status == Some(0) || run.signal.is_some() {
                        rep.violation(
                            format!("wrongcount/arity{arity}"),
                            format!("{given} arguments for a main of {arity} parameters: stdout {text:?}, status {:?}, signal {:?}", run.status, run.signal),
                            json!({"kind": "wrongcount", "arity": arity, "given": given}),
                        );
                    } else {
                        rep.count("wrong_counts_reported", 1);
                    }
                }
                Err(e) => rep.machinery(e),
            }
        }
        nat.remove(&exe);
        }
    }
    // exit status: low eight bits of main's result
    let results: Vec<i64> = vec![0, 1, 255, 256, 257, -1, -256, 1 << 40, i64::MAX, i64::MIN + 1, 1000];
    let src = "def main(r: i64): i64 { r }\n";
    if let Ok(st) = pipeline::all_stages(src) {
        if let Ok((text, n)) = codegen(st.linear.clone(), Arch::X86) {
            if let Ok(exe) = nat.assemble(&text).and_then(|o| nat.link(&o, n)) {
                for r in results {
                    idx += 1;
                    if !ctx.mine(idx) {
                        continue;
                    }
                    rep.count("cases", 1);
                    rep.count("evaluations", 1);
                    rep.distinct.push(hash64(&("status", r)));
                    if let Ok(run) = nat.run(&exe, &[r.to_string()]) {
                        let want = (r & 0xff) as i32;
                        if run.status != Some(want) {
                            rep.violation("status".to_string(), format!("main returned {r}: exit status {:?}, expected {want}", run.status), json!({"kind": "status", "result": r}));
                        } else {
                            rep.count("exit_statuses_ok", 1);
                        }
                    }
                }
                nat.remove(&exe);
            }
        }
    }
    // AArch64: arities 0..7 on the emulator (argument shuffle of the prologue)
    let info = arch_info(Arch::A64);
    for arity in 0..=7usize {
        let src = echo_source(arity);
        let Ok(st) = pipeline::all_stages(&src) else { continue };
        let (text, _) = match codegen(st.linear.clone(), Arch::A64) {
            Ok(t) => t,
            Err(e) => {
                rep.violation(format!("echo-a64/codegen/{arity}"), format!("{e:?}"), json!({"kind": "echo-a64", "arity": arity}));
                continue;
            }
        };
        let vals2 = [i64::MIN, -1, 1 << 40];
        let ts: Vec<Vec<i64>> = if arity <= 4 { tuples(&vals2, arity) } else { (0..3).map(|s| (0..arity).map(|i| vals2[(i + s) % 3].wrapping_add(i as i64)).collect()).collect() };
        for t in ts {
            idx += 1;
            if !ctx.mine(idx) {
                continue;
            }
            rep.count("cases", 1);
            rep.count("evaluations", 1);
            rep.distinct.push(hash64(&("echo-a64", arity, &t)));
            match run_text(Arch::A64, &info, &text, &t, ExecCfg::default(), &mut NoMonitor) {
                Ok(r) => {
                    let want: Vec<(bool, i64)> = t.iter().map(|v| (true, *v)).collect();
                    let result = if arity == 0 { 77 } else { t[arity - 1].wrapping_add(1) };
                    if r.prints != want || r.stop != crate::emu::Stop::Return(result) {
                        rep.violation(
                            format!("echo-a64/arity{arity}"),
                            format!("arguments {t:?}: print calls {:?}, stop {:?}", r.prints, r.stop),
                            json!({"kind": "echo-a64", "arity": arity, "args": t}),
                        );
                    } else {
                        rep.count("aarch64_argument_tuples_ok", 1);
                    }
                }
                Err(e) => rep.machinery(e),
            }
        }
    }
}

pub fn worker(ctx: &WorkerCtx) -> Report {
    let mut rep = Report::default();
    let mut nat = match NativeEnv::new(&format!("c20-{}", ctx.shard)) {
        Ok(n) => n,
        Err(e) => {
            rep.machinery(e);
            return rep;
        }
    };
    if ctx.shard == 0 {
        print_part(&mut nat, ctx.tier, &mut rep);
    }
    args_part(&mut nat, ctx, &mut rep);
    nat.cleanup();
    rep
}
