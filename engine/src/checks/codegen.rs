//! C06 / C07 / C08 (code generation preserves AxCut semantics), C09(A) (heap invariant at every
//! boundary of program executions), C13 (calling convention) over the G-AX(b) families.
use crate::arch::arch_info;
use crate::emu::{ArchInfo, Fault, Monitor, NoMonitor, Stop};
use crate::exec::{compare, run_text, ExecCfg, Verdict};
use crate::framework::*;
use crate::generate::axfam::{all_families, AxCase, FamCfg, Sink};
use crate::mon::heap::HeapMonitor;
use crate::pipeline::{codegen, Arch, StageError};
use crate::sem::ax::run_positional;
use crate::tc::ax::check_linear_prog;
use printer::Print;
use serde_json::json;

#[derive(Clone, Copy, PartialEq, Eq, Debug)]
pub enum Mode {
    /// semantic agreement with R-AX (C06/C07/C08)
    Semantics,
    /// heap invariant + memory safety at every boundary (C09 A)
    Heap,
    /// calling convention, alignment, definedness (C13)
    CallConv,
}

pub fn fam_cfg(arch: Arch, tier: Tier, with_print: bool) -> FamCfg {
    FamCfg {
        thorough: tier.thorough(),
        with_print,
        cap: match arch {
            Arch::Rv64 => 14,
            _ => 24,
        },
        max_params: match arch {
            Arch::X86 => 5,
            Arch::A64 => 7,
            Arch::Rv64 => 5,
        },
    }
}

pub fn is_capacity_panic(msg: &str) -> bool {
    msg.contains("Out of temporaries") || msg.contains("Out of registers") || msg.contains("too many arguments for main")
}

/// "too many arguments for main" is a documented limit only beyond the number of entry parameters
/// the backend supports (x86-64: 5, AArch64: 7); below that it is a crash like any other.
pub fn is_capacity_panic_for(msg: &str, main_params: usize, arch: Arch) -> bool {
    if msg.contains("too many arguments for main") {
        let limit = match arch {
            Arch::X86 => 5,
            _ => 7,
        };
        return main_params > limit;
    }
    is_capacity_panic(msg)
}

pub struct CaseRun {
    pub verdict: Verdict,
    pub fault: Option<Fault>,
    pub boundaries: u64,
    pub ref_steps: u64,
    pub insns: u64,
    pub prints: usize,
    pub heap: Option<(usize, usize, i64, u64, u64, u64, u64)>,
}

pub fn run_case(case: &AxCase, arch: Arch, info: &ArchInfo, heap_monitor: bool) -> CaseRun {
    run_case_opts(case, arch, info, heap_monitor, true, None)
}

/// Output of the repository's own pipeline (as opposed to programs built by this harness)?
pub fn is_pipeline_output(name: &str) -> bool {
    ["fun/", "nl/", "core/", "funpad/", "nlpad/", "corepad/"].iter().any(|p| name.starts_with(p))
}

/// `require_linear = false` runs the program even if it violates the ordered-linear discipline
/// (end-to-end observations such as the footprint of compiled loops do not depend on that premise).
pub fn run_case_opts(case: &AxCase, arch: Arch, info: &ArchInfo, heap_monitor: bool, require_linear: bool, reference_override: Option<crate::sem::ax::Trace>) -> CaseRun {
    let mut out = CaseRun { verdict: Verdict::Match, fault: None, boundaries: 0, ref_steps: 0, insns: 0, prints: 0, heap: None };
    if !require_linear {
        // nothing to check up front
    } else if let Err(e) = check_linear_prog(&case.prog) {
        // programs built by this harness must be linearly well-typed; programs that come out of the
        // repository's linearizer may not be (that is C05's business) and are then outside the
        // premise of the code-generation properties
        out.verdict = if is_pipeline_output(&case.name) {
            Verdict::Skip(format!("precondition: the pipeline's linearized program is not linearly well-typed ({e})"))
        } else {
            Verdict::Machinery(format!("generated program {} is not linearly well-typed: {e}", case.name))
        };
        return out;
    }
    let reference = match reference_override {
        Some(t) => t,
        None => run_positional(&case.prog, 0, &case.args, 200_000),
    };
    out.ref_steps = reference.steps;
    let text = match codegen(case.prog.clone(), arch) {
        Ok((t, _)) => t,
        Err(StageError::Panic { msg, .. }) if is_capacity_panic(&msg) => {
            out.verdict = Verdict::Skip(format!("capacity: {msg}"));
            return out;
        }
        Err(StageError::Panic { msg, .. }) if arch == Arch::Rv64 && msg.contains("not implemented in RISC-V backend") => {
            // C08's domain is print-free programs
            out.verdict = Verdict::Skip("capacity: program prints (outside the RV64 property's domain)".into());
            return out;
        }
        Err(e) => {
            out.verdict = Verdict::Violation(format!("code generator failed: {e:?}"));
            return out;
        }
    };
    let cfg = ExecCfg { heap_words: 8 * 2048, insn_limit: 2_000 * reference.steps + 200_000 };
    let mut hm = HeapMonitor::new();
    let mut nm = NoMonitor;
    let mon: &mut dyn Monitor = if heap_monitor { &mut hm } else { &mut nm };
    let run = match run_text(arch, info, &text, &case.args, cfg, mon) {
        Ok(r) => r,
        Err(e) => {
            out.verdict = Verdict::Machinery(format!("cannot run {}: {e}", case.name));
            return out;
        }
    };
    out.boundaries = run.stats.boundaries;
    out.insns = run.stats.insns;
    out.prints = run.prints.len();
    if let Stop::Fault(f) = &run.stop {
        out.fault = Some(f.clone());
    }
    if heap_monitor {
        out.heap = Some((hm.peak_live, hm.max_frontier, hm.max_slack, hm.saw_reuse, hm.saw_deferred, hm.saw_waiting, hm.saw_shared));
    }
    out.verdict = compare(&reference, &run);
    if let Verdict::Violation(m) = &out.verdict {
        out.verdict = Verdict::Violation(format!("{m}; last instructions: {}", run.tail.join(" | ")));
    }
    out
}

fn family_of(name: &str) -> &str {
    name.split('/').next().unwrap_or(name)
}

fn fault_kind(f: &Fault) -> &'static str {
    match f {
        Fault::OutOfBounds { .. } => "out-of-bounds",
        Fault::Undefined(_) => "undefined-value",
        Fault::Misaligned(_) => "misaligned-sp",
        Fault::BadJump(_) => "bad-jump",
        Fault::DivTrap => "div-trap",
        Fault::HeapExhausted => "heap-exhausted",
        Fault::InsnLimit => "insn-limit",
        Fault::Encoding(_) => "unencodable-operand",
        Fault::CallConv(_) => "calling-convention",
        Fault::Unmodelled(_) => "unmodelled",
        Fault::Monitor(_) => "heap-invariant",
    }
}

pub fn case_json(case: &AxCase, arch: Arch) -> serde_json::Value {
    json!({
        "kind": "axfam",
        "name": case.name,
        "arch": arch.name(),
        "args": case.args,
        "with_print": case.uses_print,
        "program": case.prog.print_to_string(None),
    })
}

/// Worker for one architecture and one mode.
pub fn worker(ctx: &WorkerCtx, arch: Arch, mode: Mode) -> Report {
    let mut rep = Report::default();
    let info = arch_info(arch);
    let with_print = arch != Arch::Rv64;
    let cfg = fam_cfg(arch, ctx.tier, with_print);
    let others: Vec<(Arch, ArchInfo)> = if arch == Arch::Rv64 && mode == Mode::Semantics {
        vec![(Arch::X86, arch_info(Arch::X86)), (Arch::A64, arch_info(Arch::A64))]
    } else {
        vec![]
    };
    let mut handle = |case: AxCase| {
        if mode == Mode::CallConv && !case.uses_print && !case.name.starts_with("entry/") && !case.name.starts_with("exit/") {
            // the calling-convention monitors are always on; this mode concentrates on prints
        }
        let r = run_case(&case, arch, &info, mode == Mode::Heap);
        rep.count("cases", 1);
        rep.count(&format!("family_{}", family_of(&case.name)), 1);
        rep.count("states", r.boundaries);
        rep.count("transitions", r.ref_steps);
        rep.count("instructions_emulated", r.insns);
        rep.count("print_calls", r.prints as u64);
        rep.distinct.push(hash64(&(case.prog.print_to_string(None), case.args.clone())));
        if let Some((peak, frontier, slack, reuse, deferred, waiting, shared)) = r.heap {
            rep.max("peak_live_blocks", peak as i64);
            rep.max("frontier_blocks", frontier as i64);
            rep.max("footprint_slack_blocks", slack);
            rep.count("boundaries_with_reusable_blocks", reuse);
            rep.count("boundaries_with_deferred_blocks", deferred);
            rep.count("boundaries_with_waiting_blocks", waiting);
            rep.count("boundaries_with_shared_blocks", shared);
        }
        let fam = family_of(&case.name).to_string();
        match (&r.verdict, mode) {
            (Verdict::Match, _) => {
                rep.count("traces_validated_against_impl", 1);
                rep.outcomes.insert(format!("match/{fam}"));
                if rep.samples.len() < 3 {
                    rep.sample(json!({"case": case.name, "arch": arch.name(), "args": case.args, "boundaries": r.boundaries, "reference_steps": r.ref_steps, "verdict": "match"}));
                }
            }
            (Verdict::Skip(why), _) => {
                rep.count("skipped", 1);
                if why.starts_with("capacity") {
                    rep.count("skipped_capacity", 1);
                } else if why.starts_with("precondition") {
                    rep.count("skipped_not_linearly_well_typed", 1);
                } else {
                    rep.count("skipped_undefined", 1);
                }
            }
            (Verdict::Machinery(m), _) => rep.machinery(format!("{}: {m}", case.name)),
            (Verdict::Violation(msg), m) => {
                let kind = r.fault.as_ref().map(fault_kind).unwrap_or(if msg.starts_with("print sequence") { "prints-differ" } else if msg.starts_with("result") { "result-differs" } else { "other" });
                let relevant = match m {
                    Mode::Semantics => kind != "heap-invariant",
                    Mode::Heap => kind == "heap-invariant" || kind == "out-of-bounds",
                    Mode::CallConv => matches!(kind, "calling-convention" | "misaligned-sp" | "undefined-value"),
                };
                rep.outcomes.insert(format!("violation/{kind}"));
                if relevant {
                    rep.violation(format!("{}/{fam}/{kind}", arch.name()), msg.clone(), case_json(&case, arch));
                } else {
                    rep.count("violations_of_other_properties_seen", 1);
                }
            }
        }
        // C08: the three backends must agree on every print-free program
        if !others.is_empty() {
            if let Verdict::Match = r.verdict {
                for (oa, oi) in &others {
                    let o = run_case(&case, *oa, oi, false);
                    rep.count("cross_backend_runs", 1);
                    match o.verdict {
                        Verdict::Match => rep.count("cross_backend_agreements", 1),
                        Verdict::Skip(_) => {}
                        Verdict::Machinery(m) => rep.machinery(m),
                        Verdict::Violation(m) => {
                            // the other backend disagrees with the reference (hence with RV64)
                            rep.count("cross_backend_disagreements_other_backend_wrong", 1);
                            rep.notes.push(format!("{} disagrees on a print-free program (its own property reports it): {}", oa.name(), m.chars().take(120).collect::<String>()));
                        }
                    }
                }
            }
        }
    };
    let mut sink = Sink { idx: 0, shard: ctx.shard, n: ctx.nshards, f: &mut handle };
    all_families(&cfg, &mut sink);
    // the linearized programs produced by the real pipeline from the Fun families (real
    // multi-statement interaction: sharing, lifted definitions, closures, jump tables)
    {
        use crate::generate::funfam::{all_fun_families, FunCase, FunCfg, FunSink};
        let fcfg = FunCfg { thorough: ctx.tier.thorough(), small_max: 0, with_unsequenced: true };
        let mut fh = |fc: FunCase| {
            // a slice of the (large) FUN-S family, everything else in full
            if fc.name.starts_with("small/") && hash64(&fc.name) % (if ctx.tier.thorough() { 2 } else { 8 }) != 0 {
                return;
            }
            let Ok(st) = crate::pipeline::all_stages(&fc.src) else { return };
            for input in fc.inputs.iter().take(if ctx.tier.thorough() { 8 } else { 2 }) {
                let case = AxCase { name: format!("fun/{}", fc.name), prog: st.linear.clone(), args: input.clone(), uses_print: true };
                handle(case);
            }
            // the same program with k padding variables live throughout (generate/axpad.rs)
            for k in pad_sizes(arch, ctx.tier.thorough(), hash64(&fc.name) % 2) {
                if let Some(lin) = padded_linear(&st.shrunk, k) {
                    for input in fc.inputs.iter().take(if ctx.tier.thorough() { 2 } else { 1 }) {
                        handle(AxCase { name: format!("funpad/{k}/{}", fc.name), prog: lin.clone(), args: input.clone(), uses_print: true });
                    }
                }
            }
        };
        let mut fsink = FunSink { idx: 0, shard: ctx.shard, n: ctx.nshards, f: &mut fh };
        all_fun_families(&fcfg, &mut fsink);
    }
    // the complete space of small non-linear statements, linearized by the real linearizer
    {
        let n_max = if ctx.tier.thorough() { 4 } else { 3 };
        let mut idx = 0u64;
        let mut nh = |nc: crate::generate::axnl::NlCase| {
            idx += 1;
            if !ctx.mine(idx) {
                return;
            }
            if let Some(case) = nl_to_case(&nc) {
                handle(case);
            }
            for k in pad_sizes(arch, ctx.tier.thorough(), idx % 2) {
                if let Some(lin) = padded_linear(&nc.prog, k) {
                    use printer::Print;
                    let uses_print = lin.print_to_string(None).contains("print");
                    handle(AxCase { name: format!("nlpad/{k}/{}", nc.name), prog: lin, args: nc.args.clone(), uses_print });
                }
            }
        };
        crate::generate::axnl::enumerate(n_max, &mut nh);
        crate::generate::axnl::enumerate_invoke(n_max + 1, &mut nh);
    }
    // hand-built Core programs (G-CORE) taken through focusing, shrinking and linearization
    {
        let mut idx = 0u64;
        let core_print = arch != Arch::Rv64;
        for (aname, alpha, max) in core_sizes(ctx.tier.thorough(), core_print) {
            let mut e = crate::generate::corefam::Enum::new(alpha);
            for size in 3..=max {
                let all = e.stmts(crate::generate::corefam::initial_scope(), size);
                for (i, s) in all.iter().enumerate() {
                    idx += 1;
                    if !ctx.mine(idx) {
                        continue;
                    }
                    // (quick tier: the heap and calling-convention modes take every second program of
                    // each worker's share; the semantics mode and the thorough tier take all)
                    if !ctx.tier.thorough() && mode != Mode::Semantics && (idx / ctx.nshards.max(1) as u64) % 2 == 1 {
                        continue;
                    }
                    if let Some(prog) = core_to_linear(s, core_print) {
                        for input in [0i64, 3] {
                            handle(AxCase { name: format!("core/{aname}/n{size}/{i}"), prog: prog.clone(), args: vec![input], uses_print: core_print });
                        }
                    }
                    // (quick tier: the padded G-CORE slice runs in the semantics mode only; the heap and
                    // calling-convention modes pad the Fun and statement-space outputs)
                    if !ctx.tier.thorough() && mode != Mode::Semantics {
                        continue;
                    }
                    for k in pad_sizes(arch, ctx.tier.thorough(), idx) {
                        if let Some(prog) = core_to_shrunk(s, core_print).and_then(|sh| padded_linear(&sh, k)) {
                            handle(AxCase { name: format!("corepad/{k}/{aname}/n{size}/{i}"), prog, args: vec![3], uses_print: core_print });
                        }
                    }
                }
            }
        }
    }
    rep
}

fn nl_to_case(nc: &crate::generate::axnl::NlCase) -> Option<AxCase> {
    use printer::Print;
    let lin = crate::pipeline::linearize(nc.prog.clone()).ok()?;
    let uses_print = lin.print_to_string(None).contains("print");
    Some(AxCase { name: format!("nl/{}", nc.name), prog: lin, args: nc.args.clone(), uses_print })
}

fn core_sizes(thorough: bool, with_print: bool) -> Vec<(&'static str, crate::generate::corefam::Alphabet, usize)> {
    use crate::generate::corefam::{Alphabet, T};
    let (a, b) = if thorough { (10, 12) } else { (9, 11) };
    if !with_print {
        // print-free alphabets (one size larger: the space is smaller)
        return vec![
            ("all-np", Alphabet { types: vec![T::Int, T::Pair, T::Fun], with_print: false, with_if: true, with_call: true, with_exit: true, if2: vec![] }, a + 1),
            ("int-pair-np", Alphabet { types: vec![T::Int, T::Pair], with_print: false, with_if: false, with_call: false, with_exit: false, if2: vec![] }, b + 1),
            ("int-opt-np", Alphabet { types: vec![T::Int, T::Opt], with_print: false, with_if: false, with_call: false, with_exit: false, if2: vec![] }, b + 2),
            ("int-cmp-np", Alphabet { types: vec![T::Int], with_print: false, with_if: false, with_call: false, with_exit: true, if2: vec![0, 1, 2, 3, 4, 5] }, a + 1),
        ];
    }
    vec![
        ("all", Alphabet { types: vec![T::Int, T::Pair, T::Fun], with_print: true, with_if: true, with_call: true, with_exit: true, if2: vec![] }, a),
        ("int-pair", Alphabet { types: vec![T::Int, T::Pair], with_print: true, with_if: false, with_call: false, with_exit: false, if2: vec![] }, b),
        ("int-opt", Alphabet { types: vec![T::Int, T::Opt], with_print: true, with_if: false, with_call: false, with_exit: false, if2: vec![] }, b + 1),
        ("int-cmp", Alphabet { types: vec![T::Int], with_print: true, with_if: false, with_call: false, with_exit: true, if2: vec![0, 1, 2, 3, 4, 5] }, a),
    ]
}

fn core_to_shrunk(s: &crate::generate::corefam::S, final_print: bool) -> Option<axcut::syntax::Prog> {
    let prog = crate::generate::corefam::program_with(s, final_print);
    let focused = crate::pipeline::focus(prog).ok()?;
    crate::pipeline::shrink(focused).ok()
}

fn core_to_linear(s: &crate::generate::corefam::S, final_print: bool) -> Option<axcut::syntax::Prog> {
    crate::pipeline::linearize(core_to_shrunk(s, final_print)?).ok()
}

/// Padding sizes for one pipeline output: 5 puts the program's own variables across the x86-64
/// register/spill boundary (and is the only size the RV64 register file can hold), 12 across the
/// AArch64 one. The quick tier pads a slice of the programs, the thorough tier all of them.
pub fn pad_sizes(arch: Arch, thorough: bool, key: u64) -> Vec<usize> {
    let mut v = vec![];
    if thorough || key % 4 == 0 {
        v.push(5);
    }
    if arch != Arch::Rv64 && (thorough || key % 8 == 1) {
        v.push(12);
    }
    v
}

pub fn padded_linear(shrunk: &axcut::syntax::Prog, k: usize) -> Option<axcut::syntax::Prog> {
    crate::pipeline::linearize(crate::generate::axpad::pad_prog(shrunk, k)?).ok()
}

/// Re-executes one recorded case by name (no explorer).
pub fn replay(case: &serde_json::Value) -> Option<(String, Verdict)> {
    let name = case["name"].as_str()?.to_string();
    let arch = match case["arch"].as_str()? {
        "x86_64" => Arch::X86,
        "aarch64" => Arch::A64,
        _ => Arch::Rv64,
    };
    let info = arch_info(arch);
    let with_print = case["with_print"].as_bool().unwrap_or(arch != Arch::Rv64) || arch != Arch::Rv64;
    let mut found: Option<AxCase> = None;
    if let Some(fname) = name.strip_prefix("fun/") {
        use crate::generate::funfam::{all_fun_families, FunCase, FunCfg, FunSink};
        let args: Vec<i64> = case["args"].as_array().map(|a| a.iter().filter_map(|x| x.as_i64()).collect()).unwrap_or_default();
        let fcfg = FunCfg { thorough: true, small_max: 0, with_unsequenced: true };
        let mut fh = |fc: FunCase| {
            if fc.name == fname && found.is_none() {
                if let Ok(st) = crate::pipeline::all_stages(&fc.src) {
                    found = Some(AxCase { name: name.clone(), prog: st.linear, args: args.clone(), uses_print: true });
                }
            }
        };
        let mut fsink = FunSink { idx: 0, shard: 0, n: 1, f: &mut fh };
        all_fun_families(&fcfg, &mut fsink);
    }
    if let Some(nname) = name.strip_prefix("nl/") {
        let mut nh = |nc: crate::generate::axnl::NlCase| {
            if nc.name == nname && found.is_none() {
                found = nl_to_case(&nc);
            }
        };
        crate::generate::axnl::enumerate(4, &mut nh);
        crate::generate::axnl::enumerate_invoke(5, &mut nh);
    }
    if name.starts_with("core/") {
        let parts: Vec<&str> = name.split('/').collect();
        let args: Vec<i64> = case["args"].as_array().map(|a| a.iter().filter_map(|x| x.as_i64()).collect()).unwrap_or_default();
        if parts.len() == 4 {
            if let (Ok(size), Ok(index)) = (parts[2].trim_start_matches('n').parse::<usize>(), parts[3].parse::<usize>()) {
                let np = parts[1].ends_with("-np");
                if let Some((_, alpha, _)) = core_sizes(true, !np).into_iter().find(|(n, _, _)| *n == parts[1]) {
                    let mut e = crate::generate::corefam::Enum::new(alpha);
                    let all = e.stmts(crate::generate::corefam::initial_scope(), size);
                    if let Some(st) = all.get(index) {
                        if let Some(prog) = core_to_linear(st, !np) {
                            found = Some(AxCase { name: name.clone(), prog, args, uses_print: !np });
                        }
                    }
                }
            }
        }
    }
    // padded pipeline outputs: <kind>pad/<k>/<name of the unpadded case>
    for kind in ["fun", "nl", "core"] {
        let Some(rest) = name.strip_prefix(&format!("{kind}pad/")) else { continue };
        let Some((k, inner)) = rest.split_once('/') else { continue };
        let Ok(k) = k.parse::<usize>() else { continue };
        let args: Vec<i64> = case["args"].as_array().map(|a| a.iter().filter_map(|x| x.as_i64()).collect()).unwrap_or_default();
        let mut shrunk: Option<axcut::syntax::Prog> = None;
        let mut uses_print = true;
        match kind {
            "fun" => {
                use crate::generate::funfam::{all_fun_families, FunCase, FunCfg, FunSink};
                let fcfg = FunCfg { thorough: true, small_max: 0, with_unsequenced: true };
                let mut fh = |fc: FunCase| {
                    if fc.name == inner && shrunk.is_none() {
                        if let Ok(st) = crate::pipeline::all_stages(&fc.src) {
                            shrunk = Some(st.shrunk);
                        }
                    }
                };
                let mut fsink = FunSink { idx: 0, shard: 0, n: 1, f: &mut fh };
                all_fun_families(&fcfg, &mut fsink);
            }
            "nl" => {
                let mut nh = |nc: crate::generate::axnl::NlCase| {
                    if nc.name == inner && shrunk.is_none() {
                        shrunk = Some(nc.prog.clone());
                    }
                };
                crate::generate::axnl::enumerate(4, &mut nh);
                crate::generate::axnl::enumerate_invoke(5, &mut nh);
            }
            _ => {
                let parts: Vec<&str> = inner.split('/').collect();
                if parts.len() == 3 {
                    if let (Ok(size), Ok(index)) = (parts[1].trim_start_matches('n').parse::<usize>(), parts[2].parse::<usize>()) {
                        let np = parts[0].ends_with("-np");
                        uses_print = !np;
                        if let Some((_, alpha, _)) = core_sizes(true, !np).into_iter().find(|(n, _, _)| *n == parts[0]) {
                            let mut e = crate::generate::corefam::Enum::new(alpha);
                            let all = e.stmts(crate::generate::corefam::initial_scope(), size);
                            shrunk = all.get(index).and_then(|st| core_to_shrunk(st, !np));
                        }
                    }
                }
            }
        }
        if let Some(lin) = shrunk.and_then(|sh| padded_linear(&sh, k)) {
            use printer::Print;
            let up = uses_print && lin.print_to_string(None).contains("print");
            found = Some(AxCase { name: name.clone(), prog: lin, args, uses_print: up });
        }
    }
    for tier in [Tier::Quick, Tier::Thorough] {
        if found.is_some() {
            break;
        }
        let cfg = fam_cfg(arch, tier, with_print && arch != Arch::Rv64);
        let mut h = |c: AxCase| {
            if c.name == name && found.is_none() {
                found = Some(c);
            }
        };
        let mut sink = Sink { idx: 0, shard: 0, n: 1, f: &mut h };
        all_families(&cfg, &mut sink);
        if found.is_some() {
            break;
        }
    }
    let c = found?;
    let r1 = run_case(&c, arch, &info, true);
    let r2 = run_case(&c, arch, &info, true);
    if r1.verdict != r2.verdict {
        return Some((name, Verdict::Machinery("replay is not deterministic".into())));
    }
    Some((name, r1.verdict))
}
