//! Machinery self-test: the reference machines, the emulators and the native runner against the
//! expected outputs shipped with the repository (examples/*/*.args, testsuite/end_to_end).
use crate::arch::arch_info;
use crate::exec::{compare, run_text, ExecCfg, Verdict};
use crate::native::NativeEnv;
use crate::pipeline::{all_stages, codegen, Arch};
use crate::sem::ax::{run_named, run_positional, Outcome};
use crate::sem::fun::run_fun;

pub fn example_dirs() -> Vec<std::path::PathBuf> {
    let mut v = Vec::new();
    for base in [format!("{}/examples", crate::framework::repo_dir()), format!("{}/testsuite/end_to_end", crate::framework::repo_dir())] {
        if let Ok(rd) = std::fs::read_dir(base) {
            for e in rd.flatten() {
                if e.path().is_dir() {
                    v.push(e.path());
                }
            }
        }
    }
    v.sort();
    v
}

pub fn parse_args_file(s: &str) -> (Vec<String>, String) {
    let mut args = Vec::new();
    let mut expected = String::new();
    for line in s.lines() {
        if let Some(r) = line.strip_prefix("test_args") {
            let r = r.trim().trim_start_matches('=').trim();
            let inner = r.trim_start_matches('[').trim_end_matches(']');
            for a in inner.split(',') {
                let a = a.trim().trim_matches('"');
                if !a.is_empty() {
                    args.push(a.to_string());
                }
            }
        } else if let Some(r) = line.strip_prefix("expected") {
            let r = r.trim().trim_start_matches('=').trim();
            expected = r.trim_matches('"').replace("\\n", "\n");
        }
    }
    (args, expected)
}

pub fn run() -> i32 {
    let mut bad = 0;
    let mut nat = NativeEnv::new("selftest").expect("native env");
    for dir in example_dirs() {
        let name = dir.file_name().unwrap().to_str().unwrap().to_string();
        let src = std::fs::read_to_string(dir.join(format!("{name}.sc"))).unwrap();
        let (args, mut expected) = parse_args_file(&std::fs::read_to_string(dir.join(format!("{name}.args"))).unwrap());
        expected.push('\n');
        let iargs: Vec<i64> = args.iter().map(|a| a.parse().unwrap()).collect();
        let st = match all_stages(&src) {
            Ok(s) => s,
            Err(e) => {
                println!("{name}: pipeline failed: {e:?}");
                bad += 1;
                continue;
            }
        };
        let rf = run_fun(&st.fun, &iargs, 50_000_000);
        // the example programs print the result as their last action; expected output = stdout
        let out = String::from_utf8_lossy(&rf.output_bytes()).to_string();
        let ok_fun = out == expected || format!("{out}\n") == expected;
        let rn = run_named(&st.shrunk, 0, &iargs, 50_000_000);
        let rp = run_positional(&st.linear, 0, &iargs, 50_000_000);
        let agree = rf.prints == rn.prints && rn.prints == rp.prints && rf.outcome == rn.outcome && rn.outcome == rp.outcome;
        print!("{name}: R-FUN {:?} output_ok={ok_fun} R-AX agree={agree}", rf.outcome);
        if !ok_fun || !agree {
            bad += 1;
            print!(" [expected {expected:?} got {out:?}; named {:?} positional {:?}]", rn.outcome, rp.outcome);
        }
        for arch in [Arch::X86, Arch::A64] {
            let info = arch_info(arch);
            match codegen(st.linear.clone(), arch) {
                Ok((text, _)) => {
                    let cfg = ExecCfg { heap_words: 8 * 200_000, insn_limit: 2_000_000_000 };
                    let mut mon = crate::mon::heap::HeapMonitor::new();
                    match run_text(arch, &info, &text, &iargs, cfg, &mut mon) {
                        Ok(r) => {
                            let v = compare(&rp, &r);
                            print!(" {}={}", arch.name(), if v == Verdict::Match { "match".to_string() } else { format!("{v:?}") });
                            if v != Verdict::Match {
                                bad += 1;
                            }
                        }
                        Err(e) => {
                            print!(" {} emu error {e}", arch.name());
                            bad += 1;
                        }
                    }
                    if arch == Arch::X86 {
                        let res = nat.assemble(&text).and_then(|o| nat.link(&o, iargs.len())).and_then(|exe| nat.run(&exe, &args));
                        match res {
                            Ok(run) => {
                                let ok = String::from_utf8_lossy(&run.stdout) == expected;
                                let status_ok = match rf.outcome {
                                    Outcome::Exit(v) => run.status == Some((v & 0xff) as i32),
                                    _ => false,
                                };
                                print!(" native_out_ok={ok} status_ok={status_ok}");
                                if !ok || !status_ok {
                                    bad += 1;
                                    print!(" [{:?} {:?}]", String::from_utf8_lossy(&run.stdout), run.status);
                                }
                            }
                            Err(e) => {
                                print!(" native failed: {e}");
                                bad += 1;
                            }
                        }
                    }
                }
                Err(e) => {
                    print!(" codegen {} failed {e:?}", arch.name());
                    bad += 1;
                }
            }
        }
        println!();
    }
    println!("selftest: {bad} problem(s)");
    if bad == 0 { 0 } else { 2 }
}
