//! C09(B) / C10: explicit-state breadth-first search over histories of heap operations, where each
//! transition is the code the real code generator emits for one AxCut statement, executed by the
//! emulator from the current concrete machine state (DESIGN §4 C09/C10).
use crate::arch::{arch_info, fragment};
use crate::emu::any::{run_any, AnyProg, AnyState};
use crate::emu::{ArchInfo, Chi, Fault, Loc, NoMonitor, Stop, Word, HEAP_BASE};
use crate::framework::*;
use crate::generate::axb::{ident, std_types, ty};
use crate::mon::heap::{check_heap, HeapFacts};
use crate::pipeline::{codegen, Arch};
use axcut::syntax::statements::*;
use axcut::syntax::{Chirality, ContextBinding, Identifier, Statement, Ty, TypeDeclaration, TypingContext};
use serde_json::json;
use std::collections::{HashMap, HashSet, VecDeque};
use std::rc::Rc;

#[derive(Clone, PartialEq, Eq, Hash, Debug)]
pub enum Kind {
    Int,
    Box,
    Pair,
    R4,
    PB,
    List,
    Node,
    Cont(Vec<Kind>),
}

#[derive(Clone, Debug, PartialEq)]
pub enum RVal {
    Int(i64),
    Data(usize, Vec<RVal>),
    Clo(Vec<RVal>),
}

#[derive(Clone, Copy, PartialEq, Eq, Hash, Debug)]
pub enum Op {
    Lit,
    Nil,
    Leaf,
    Cons,
    Fork,
    MkBox,
    MkPair,
    MkR4,
    MkPB,
    Dup(usize),
    Drop(usize),
    ToLast(usize),
    Switch,
    Create(usize),
    Invoke,
}

impl Op {
    pub fn name(&self) -> String {
        format!("{self:?}")
    }
    pub fn parse(s: &str) -> Option<Op> {
        let arg = |p: &str| -> Option<usize> { s.strip_prefix(p)?.strip_suffix(')')?.parse().ok() };
        Some(match s {
            "Lit" => Op::Lit,
            "Nil" => Op::Nil,
            "Leaf" => Op::Leaf,
            "Cons" => Op::Cons,
            "Fork" => Op::Fork,
            "MkBox" => Op::MkBox,
            "MkPair" => Op::MkPair,
            "MkR4" => Op::MkR4,
            "MkPB" => Op::MkPB,
            "Switch" => Op::Switch,
            "Invoke" => Op::Invoke,
            _ => {
                if let Some(i) = arg("Dup(") {
                    Op::Dup(i)
                } else if let Some(i) = arg("Drop(") {
                    Op::Drop(i)
                } else if let Some(i) = arg("ToLast(") {
                    Op::ToLast(i)
                } else if let Some(i) = arg("Create(") {
                    Op::Create(i)
                } else {
                    return None;
                }
            }
        })
    }
}

fn kind_binding(k: &Kind, id: usize) -> ContextBinding {
    let var = Identifier { name: "v".into(), id };
    match k {
        Kind::Int => ContextBinding { var, chi: Chirality::Ext, ty: Ty::I64 },
        Kind::Box => ContextBinding { var, chi: Chirality::Prd, ty: ty("Box") },
        Kind::Pair => ContextBinding { var, chi: Chirality::Prd, ty: ty("Pair") },
        Kind::R4 => ContextBinding { var, chi: Chirality::Prd, ty: ty("R4") },
        Kind::PB => ContextBinding { var, chi: Chirality::Prd, ty: ty("PB") },
        Kind::List => ContextBinding { var, chi: Chirality::Prd, ty: ty("List") },
        Kind::Node => ContextBinding { var, chi: Chirality::Prd, ty: ty("Node") },
        Kind::Cont(_) => ContextBinding { var, chi: Chirality::Cns, ty: ty("_Cont") },
    }
}
fn kind_chi(k: &Kind) -> Chi {
    match k {
        Kind::Int => Chi::Ext,
        Kind::Cont(_) => Chi::Cns,
        _ => Chi::Prd,
    }
}
fn ctx_of(kinds: &[Kind]) -> Vec<ContextBinding> {
    kinds.iter().enumerate().map(|(i, k)| kind_binding(k, i + 1)).collect()
}
fn data_type_name(k: &Kind) -> Option<&'static str> {
    match k {
        Kind::Box => Some("Box"),
        Kind::Pair => Some("Pair"),
        Kind::R4 => Some("R4"),
        Kind::PB => Some("PB"),
        Kind::List => Some("List"),
        Kind::Node => Some("Node"),
        _ => None,
    }
}
fn kind_of_binding(b: &ContextBinding) -> Kind {
    match (&b.chi, &b.ty) {
        (Chirality::Ext, _) => Kind::Int,
        (_, Ty::Decl(n)) => match n.name.as_str() {
            "Box" => Kind::Box,
            "Pair" => Kind::Pair,
            "R4" => Kind::R4,
            "PB" => Kind::PB,
            "List" => Kind::List,
            "Node" => Kind::Node,
            other => panic!("kind_of_binding: {other}"),
        },
        _ => panic!("kind_of_binding"),
    }
}

fn stop(name: &str) -> Rc<Statement> {
    Rc::new(Call { label: ident(name), args: TypingContext { bindings: vec![] } }.into())
}

pub fn enabled(kinds: &[Kind], k: usize, rich: bool, pad: usize) -> Vec<Op> {
    enabled_mode(kinds, k, if rich { 1 } else { 0 }, pad)
}

/// mode 0: lists/boxes/closures; 1: rich (adds trees, pairs, two-block records, closures over two
/// variables); 2: records only (literals, boxes, pairs, two-block records; no lists, no closures);
/// 3: nested records (literals, boxes, and a two-block record with a box pointer in each block)
pub fn enabled_mode(kinds: &[Kind], k: usize, mode: u8, pad: usize) -> Vec<Op> {
    let rich = mode == 1 || mode == 2;
    let records = mode >= 2;
    let n = kinds.len();
    let mut ops = Vec::new();
    if n < k {
        ops.push(Op::Lit);
        if !records {
            ops.push(Op::Nil);
        }
        if rich && !records {
            ops.push(Op::Leaf);
        }
    }
    if n >= 2 && kinds[n - 2] == Kind::Int && kinds[n - 1] == Kind::List {
        ops.push(Op::Cons);
    }
    if n >= 3 && kinds[n - 3] == Kind::Node && kinds[n - 2] == Kind::Int && kinds[n - 1] == Kind::Node {
        ops.push(Op::Fork);
    }
    if n >= 1 && kinds[n - 1] == Kind::Int {
        ops.push(Op::MkBox);
    }
    if rich && n >= 2 && kinds[n - 2..].iter().all(|x| *x == Kind::Int) {
        ops.push(Op::MkPair);
    }
    if rich && n >= 4 && kinds[n - 4..].iter().all(|x| *x == Kind::Int) {
        ops.push(Op::MkR4);
    }
    if mode == 3 && n >= 4 && kinds[n - 4..] == [Kind::Box, Kind::Int, Kind::Int, Kind::Box] {
        ops.push(Op::MkPB);
    }
    for i in 0..n {
        if n < k && kinds[i] != Kind::Int {
            ops.push(Op::Dup(i));
        }
        ops.push(Op::Drop(i));
        if i + 1 < n {
            ops.push(Op::ToLast(i));
        }
    }
    if n >= 1 && data_type_name(&kinds[n - 1]).is_some() {
        ops.push(Op::Switch);
    }
    for m in 0..=(if rich { 2usize } else { 1 }).min(n) {
        if records {
            break;
        }
        // closures capturing closures are excluded to keep kinds finite
        if n - m < k && kinds[n - m..].iter().all(|x| !matches!(x, Kind::Cont(_))) {
            ops.push(Op::Create(m));
        }
    }
    // an invocation needs the environment to be exactly arguments ++ closure: impossible with padding
    if pad == 0 && n == 2 && kinds[0] == Kind::Int && matches!(kinds[1], Kind::Cont(_)) {
        ops.push(Op::Invoke);
    }
    ops
}

fn lit_value(_n: usize) -> i64 {
    // one literal value keeps the state space finite and small; value data flow is covered by
    // C06-C08 and C11
    7
}

/// The AxCut statement implementing `op` in the environment `kinds`.
pub fn op_statement(types: &[TypeDeclaration], op: Op, kinds: &[Kind], pad: usize) -> Statement {
    let op = match op {
        Op::Dup(i) => Op::Dup(i + pad),
        Op::Drop(i) => Op::Drop(i + pad),
        Op::ToLast(i) => Op::ToLast(i + pad),
        o => o,
    };
    let ctx = ctx_of(kinds);
    let n = ctx.len();
    let new = |k: &Kind| kind_binding(k, 100);
    let let_ = |tname: &str, tag: &str, nargs: usize| -> Statement {
        Let {
            var: Identifier { name: "o".into(), id: 100 },
            ty: ty(tname),
            tag: ident(tag),
            args: TypingContext { bindings: ctx[n - nargs..].to_vec() },
            next: stop("stop0"),
            free_vars_next: None,
        }
        .into()
    };
    match op {
        Op::Lit => Literal { lit: lit_value(n), var: Identifier { name: "x".into(), id: 100 }, next: stop("stop0"), free_vars_next: None }.into(),
        Op::Nil => let_("List", "Nil", 0),
        Op::Leaf => let_("Node", "Leaf", 0),
        Op::Cons => let_("List", "Cons", 2),
        Op::Fork => let_("Node", "Fork", 3),
        Op::MkBox => let_("Box", "B", 1),
        Op::MkPair => let_("Pair", "Tup", 2),
        Op::MkR4 => let_("R4", "K4", 4),
        Op::MkPB => let_("PB", "KPB", 4),
        Op::Dup(i) => {
            let mut r: Vec<(ContextBinding, Identifier)> = ctx.iter().map(|b| (b.clone(), b.var.clone())).collect();
            r.push((new(&kinds[i]), ctx[i].var.clone()));
            Substitute { rearrange: r, next: stop("stop0") }.into()
        }
        Op::Drop(i) => {
            let r = ctx.iter().enumerate().filter(|(j, _)| *j != i).map(|(_, b)| (b.clone(), b.var.clone())).collect();
            Substitute { rearrange: r, next: stop("stop0") }.into()
        }
        Op::ToLast(i) => {
            let mut r: Vec<(ContextBinding, Identifier)> = ctx.iter().enumerate().filter(|(j, _)| *j != i).map(|(_, b)| (b.clone(), b.var.clone())).collect();
            r.push((ctx[i].clone(), ctx[i].var.clone()));
            Substitute { rearrange: r, next: stop("stop0") }.into()
        }
        Op::Switch => {
            let b = &ctx[n - 1];
            let tname = data_type_name(&kinds[n - 1]).unwrap();
            let decl = types.iter().find(|t| t.name.name == tname).unwrap();
            let clauses = decl
                .xtors
                .iter()
                .enumerate()
                .map(|(ci, x)| Clause {
                    xtor: x.name.clone(),
                    context: TypingContext {
                        bindings: x
                            .args
                            .bindings
                            .iter()
                            .enumerate()
                            .map(|(fi, a)| ContextBinding { var: Identifier { name: "f".into(), id: 100 + fi }, chi: a.chi.clone(), ty: a.ty.clone() })
                            .collect(),
                    },
                    body: stop(&format!("stop{ci}")),
                })
                .collect();
            Switch { var: b.var.clone(), ty: b.ty.clone(), clauses, free_vars_clauses: None }.into()
        }
        Op::Create(m) => Create {
            var: Identifier { name: "c".into(), id: 100 },
            ty: ty("_Cont"),
            context: Some(TypingContext { bindings: ctx[n - m..].to_vec() }),
            clauses: vec![Clause {
                xtor: ident("Ret"),
                context: TypingContext { bindings: vec![ContextBinding { var: Identifier { name: "r".into(), id: 200 }, chi: Chirality::Ext, ty: Ty::I64 }] },
                body: stop("stopc"),
            }],
            free_vars_clauses: None,
            next: stop("stop0"),
            free_vars_next: None,
        }
        .into(),
        Op::Invoke => Invoke { var: ctx[n - 1].var.clone(), tag: ident("Ret"), ty: ty("_Cont"), args: TypingContext { bindings: vec![] } }.into(),
    }
}

#[derive(Clone)]
pub struct Node {
    pub st: AnyState,
    pub kinds: Vec<Kind>,
    pub vals: Vec<RVal>,
    pub peak: usize,
    pub path: Vec<Op>,
}

pub struct Search {
    pub arch: Arch,
    pub info: ArchInfo,
    pub types: Vec<TypeDeclaration>,
    pub prog: AnyProg,
    pub cache: HashMap<(Op, Vec<Kind>), usize>,
    /// fragments with identical text are stored once (text -> start index)
    pub text_cache: HashMap<String, usize>,
    /// no code address is ever stored in the heap (alphabets without closures): the fragment cache
    /// may be emptied when it grows large
    pub evictable: bool,
    pub k: usize,
    /// identity integer variables in front of the window (moves the window across the
    /// register/spill boundary)
    pub pad: usize,
    pub max_live: usize,
    pub heap_words: usize,
    pub footprint_bound: i64,
    /// code address of a closure's table -> class of the closure (captured kinds), so that the
    /// canonical form does not depend on where the closure's code happens to live
    pub code_class: HashMap<i64, i64>,
}

pub enum StepResult {
    /// the backend's documented capacity is exceeded: the transition is not explored
    Capacity,
    Next(Node, HeapFacts),
    Violation(String, String),
    Machinery(String),
}

impl Search {
    pub fn new(arch: Arch, k: usize, max_live: usize, pad: usize) -> Search {
        let info = arch_info(arch);
        let heap_words = info.block_words * (max_live + 8);
        Search { arch, info, types: std_types(), prog: AnyProg::new(arch), cache: HashMap::new(), text_cache: HashMap::new(), evictable: false, k, pad, max_live, heap_words, footprint_bound: 2, code_class: HashMap::new() }
    }

    /// The machine state right after the real prologue (or the harness set-up on RV64).
    pub fn initial(&mut self) -> Result<Node, String> {
        let st = match self.arch {
            Arch::Rv64 => AnyState::entry(self.arch, &self.info, self.heap_words, 8, &[]),
            _ => {
                // run the backend's own prologue: a program whose main jumps to an external label
                let main = crate::generate::axb::def("main", vec![], Call { label: ident("stopinit"), args: TypingContext { bindings: vec![] } }.into());
                let p = crate::generate::axb::prog(vec![main], self.types.clone());
                let (text, _) = codegen(p, self.arch).map_err(|e| format!("{e:?}"))?;
                // keep only the part up to and including main's jump: the cleanup label must not be
                // defined twice when fragments are appended later, so strip it
                let start = self.prog.append(&text)?;
                let entry = self.prog.label("asm_main").ok_or("no asm_main")?;
                let _ = start;
                let mut st = AnyState::entry(self.arch, &self.info, self.heap_words, 320, &[]);
                let r = run_any(&self.prog, &self.info, &mut st, entry, 10_000, &mut NoMonitor);
                match r.stop {
                    Stop::External(l) if l == "stopinit_" => {}
                    other => return Err(format!("prologue did not reach main: {other:?}")),
                }
                st
            }
        };
        let mut node = Node { st, kinds: vec![], vals: vec![], peak: 0, path: vec![] };
        for i in 0..self.pad {
            node.kinds.push(Kind::Int);
            node.vals.push(RVal::Int(900 + i as i64));
            node.st.set_loc(self.info.temps[2 * i + 1], Word::def(900 + i as i64));
        }
        self.scrub(&mut node);
        Ok(node)
    }

    fn code_for(&mut self, op: Op, kinds: &[Kind]) -> Result<usize, String> {
        if let Some(i) = self.cache.get(&(op, kinds.to_vec())) {
            return Ok(*i);
        }
        if self.evictable && self.cache.len() >= 30_000 {
            // start a new code area: nothing in any state refers to code addresses
            self.prog = AnyProg::new(self.arch);
            self.cache.clear();
            self.text_cache.clear();
        }
        let stmt = op_statement(&self.types, op, kinds, self.pad);
        let text = fragment(self.arch, &self.types, stmt, TypingContext { bindings: ctx_of(kinds) }).map_err(|e| format!("{e:?}"))?;
        let start = match self.text_cache.get(&text) {
            Some(s) => *s,
            None => {
                let s = self.prog.append(&text)?;
                self.text_cache.insert(text, s);
                s
            }
        };
        self.cache.insert((op, kinds.to_vec()), start);
        Ok(start)
    }

    /// Everything that is dead at a statement boundary becomes undefined, so that any dependence
    /// on it is caught instead of being merged away by the canonical form.
    fn scrub(&self, node: &mut Node) {
        let n = node.kinds.len();
        let dead = crate::emu::any::SCRUBBED;
        for p in 2 * n..(2 * (self.k + self.pad + 6)).min(self.info.temps.len()) {
            node.st.set_loc(self.info.temps[p], dead);
        }
        for (i, k) in node.kinds.iter().enumerate() {
            if *k == Kind::Int {
                node.st.set_loc(self.info.temps[2 * i], dead);
            }
        }
        for r in &self.info.scratch_regs {
            node.st.set_reg(*r, dead);
        }
        if let Some(off) = self.info.scratch_spill {
            node.st.set_loc(Loc::Spill(off), dead);
        }
        node.st.clear_flags();
        // stale fields of blocks on the reusable list
        let bw = self.info.block_words;
        let heap = node.st.reg(self.info.heap_reg).v;
        let mut cur = heap;
        let mut guard = 0;
        while cur != 0 && guard < 1000 {
            guard += 1;
            let off = cur - HEAP_BASE as i64;
            if off < 0 || off % (8 * bw as i64) != 0 {
                break;
            }
            let b = (off / (8 * bw as i64)) as usize;
            if (b + 1) * bw > node.st.mem().heap.len() {
                break;
            }
            let next = node.st.mem().heap[b * bw + (self.info.next_off / 8) as usize];
            for w in 1..bw {
                if w != (self.info.next_off / 8) as usize {
                    node.st.mem_mut().heap[b * bw + w] = dead;
                }
            }
            if !next.d {
                break;
            }
            cur = next.v;
        }
    }

    pub fn step(&mut self, node: &Node, op: Op) -> StepResult {
        let start = match self.code_for(op, &node.kinds) {
            Ok(s) => s,
            Err(e) if e.contains("Out of registers") || e.contains("Out of temporaries") => return StepResult::Capacity,
            Err(e) => return StepResult::Machinery(format!("codegen for {op:?} in {:?}: {e}", node.kinds)),
        };
        let mut next = node.clone();
        next.path.push(op);
        let r = run_any(&self.prog, &self.info, &mut next.st, start, 100_000, &mut NoMonitor);
        let label = match r.stop {
            Stop::External(l) => l,
            Stop::Fault(Fault::Unmodelled(m)) => return StepResult::Machinery(m),
            Stop::Fault(Fault::HeapExhausted) => return StepResult::Machinery("BFS heap region too small".into()),
            Stop::Fault(f) => {
                let kind = match &f {
                    Fault::OutOfBounds { .. } => "memory-safety",
                    Fault::Undefined(_) => "depends-on-dead-value",
                    _ => "fault",
                };
                return StepResult::Violation(kind.into(), format!("{op:?} faults: {f:?}; last instructions: {}", r.tail.join(" | ")));
            }
            Stop::Return(_) => return StepResult::Violation("fault".into(), format!("{op:?} returned from the routine")),
        };
        // reference model transition (window-relative indices are shifted by the padding)
        let n = node.kinds.len();
        let op = match op {
            Op::Dup(i) => Op::Dup(i + self.pad),
            Op::Drop(i) => Op::Drop(i + self.pad),
            Op::ToLast(i) => Op::ToLast(i + self.pad),
            o => o,
        };
        let expect_label;
        match op {
            Op::Lit => {
                next.kinds.push(Kind::Int);
                next.vals.push(RVal::Int(lit_value(n)));
                expect_label = "stop0_".to_string();
            }
            Op::Nil | Op::Leaf | Op::Cons | Op::Fork | Op::MkBox | Op::MkPair | Op::MkR4 | Op::MkPB => {
                let (kind, tag, nargs) = match op {
                    Op::Nil => (Kind::List, 0, 0),
                    Op::Leaf => (Kind::Node, 0, 0),
                    Op::Cons => (Kind::List, 1, 2),
                    Op::Fork => (Kind::Node, 1, 3),
                    Op::MkBox => (Kind::Box, 0, 1),
                    Op::MkPair => (Kind::Pair, 0, 2),
                    Op::MkPB => (Kind::PB, 0, 4),
                    _ => (Kind::R4, 0, 4),
                };
                let fields: Vec<RVal> = next.vals.drain(n - nargs..).collect();
                next.kinds.truncate(n - nargs);
                next.kinds.push(kind);
                next.vals.push(RVal::Data(tag, fields));
                expect_label = "stop0_".to_string();
            }
            Op::Dup(i) => {
                next.kinds.push(node.kinds[i].clone());
                next.vals.push(node.vals[i].clone());
                expect_label = "stop0_".to_string();
            }
            Op::Drop(i) => {
                next.kinds.remove(i);
                next.vals.remove(i);
                expect_label = "stop0_".to_string();
            }
            Op::ToLast(i) => {
                let k = next.kinds.remove(i);
                let v = next.vals.remove(i);
                next.kinds.push(k);
                next.vals.push(v);
                expect_label = "stop0_".to_string();
            }
            Op::Switch => {
                let kind = next.kinds.pop().unwrap();
                let RVal::Data(tag, fields) = next.vals.pop().unwrap() else {
                    return StepResult::Machinery("reference value of a data variable is not data".into());
                };
                let decl = self.types.iter().find(|t| t.name.name == data_type_name(&kind).unwrap()).unwrap();
                for (a, f) in decl.xtors[tag].args.bindings.iter().zip(fields) {
                    next.kinds.push(kind_of_binding(a));
                    next.vals.push(f);
                }
                expect_label = format!("stop{tag}_");
            }
            Op::Create(m) => {
                let env_k: Vec<Kind> = next.kinds.drain(n - m..).collect();
                let env_v: Vec<RVal> = next.vals.drain(n - m..).collect();
                next.kinds.push(Kind::Cont(env_k));
                next.vals.push(RVal::Clo(env_v));
                expect_label = "stop0_".to_string();
            }
            Op::Invoke => {
                let Kind::Cont(env_k) = next.kinds.pop().unwrap() else { unreachable!() };
                let RVal::Clo(env_v) = next.vals.pop().unwrap() else { unreachable!() };
                next.kinds.extend(env_k);
                next.vals.extend(env_v);
                expect_label = "stopc_".to_string();
            }
        }
        if label != expect_label {
            return StepResult::Violation("control".into(), format!("{op:?} continued at {label}, the reference model says {expect_label}"));
        }
        // observable agreement: integers and constructor tags
        for (i, (k, v)) in next.kinds.iter().zip(&next.vals).enumerate() {
            let snd = next.st.get_loc(self.info.temps[2 * i + 1]);
            match (k, v) {
                (Kind::Int, RVal::Int(x)) => {
                    if !snd.d || snd.v != *x {
                        return StepResult::Violation("value".into(), format!("after {op:?}: integer variable {i} holds {snd:?}, reference value {x}"));
                    }
                }
                (Kind::Cont(_), _) => {
                    if !snd.d {
                        return StepResult::Violation("value".into(), format!("after {op:?}: code pointer of closure variable {i} is undefined"));
                    }
                }
                (_, RVal::Data(tag, _)) => {
                    if !snd.d || snd.v != self.info.jump_length_1 * *tag as i64 {
                        return StepResult::Violation("value".into(), format!("after {op:?}: tag of variable {i} is {snd:?}, reference constructor index {tag}"));
                    }
                }
                _ => return StepResult::Machinery("kind/value mismatch in the reference model".into()),
            }
        }
        if let Op::Create(_) = op {
            let i = next.kinds.len() - 1;
            let code = next.st.get_loc(self.info.temps[2 * i + 1]).v;
            let class = (hash64(&next.kinds[i]) >> 1) as i64;
            self.code_class.insert(code, class);
        }
        self.scrub(&mut next);
        let chis: Vec<Chi> = next.kinds.iter().map(kind_chi).collect();
        let facts = match next.st.with_cpu(&self.info, |cpu| check_heap(cpu, &chis)) {
            Ok(f) => f,
            Err(e) => return StepResult::Violation("heap-invariant".into(), format!("after {op:?}: {e}")),
        };
        // C10, history-free form: fresh memory is taken only when both free lists are empty, so a
        // transition that advanced the frontier leaves nothing reclaimable behind it
        let before = node.st.with_cpu(&self.info, |cpu| {
            let chis0: Vec<Chi> = node.kinds.iter().map(kind_chi).collect();
            check_heap(cpu, &chis0).map(|f| f.frontier_blocks).unwrap_or(0)
        });
        if facts.frontier_blocks > before && (facts.linear > 1 || facts.deferred > 0 || facts.waiting > 0) {
            return StepResult::Violation(
                "fresh-memory-while-free-blocks-exist".into(),
                format!(
                    "{op:?} advanced the allocation frontier from {before} to {} blocks although free blocks remain (reusable list {}, deferred {}, waiting {})",
                    facts.frontier_blocks, facts.linear, facts.deferred, facts.waiting
                ),
            );
        }
        next.peak = next.peak.max(facts.live);
        if facts.frontier_blocks as i64 > next.peak as i64 + self.footprint_bound {
            return StepResult::Violation(
                "footprint".into(),
                format!(
                    "after {op:?}: {} blocks below the frontier but at most {} blocks were ever reachable at once (bound peak + {})",
                    facts.frontier_blocks, next.peak, self.footprint_bound
                ),
            );
        }
        StepResult::Next(next, facts)
    }

    /// Canonical form: block addresses renamed in discovery order; dead data excluded.
    pub fn canon(&self, node: &Node) -> u128 {
        let info = &self.info;
        let bw = info.block_words as i64;
        let mem = node.st.mem();
        let mut names: HashMap<i64, i64> = HashMap::new();
        let mut order: Vec<i64> = Vec::new();
        let mut key: Vec<i64> = Vec::new();
        let blk = |addr: i64| -> Option<usize> {
            let off = addr - HEAP_BASE as i64;
            if off >= 0 && off % (8 * bw) == 0 && ((off / (8 * bw)) as usize + 1) * bw as usize <= mem.heap.len() {
                Some((off / (8 * bw)) as usize)
            } else {
                None
            }
        };
        fn name_of(names: &mut HashMap<i64, i64>, order: &mut Vec<i64>, addr: i64) -> i64 {
            if addr == 0 {
                return 0;
            }
            if let Some(n) = names.get(&addr) {
                return *n;
            }
            let n = names.len() as i64 + 1;
            names.insert(addr, n);
            order.push(addr);
            n
        }
        key.push(node.kinds.len() as i64);
        key.push(hash64(&node.kinds) as i64);
        for (i, k) in node.kinds.iter().enumerate() {
            let snd = node.st.get_loc(info.temps[2 * i + 1]);
            key.push(self.code_class.get(&snd.v).copied().unwrap_or(snd.v));
            if *k != Kind::Int {
                let fst = node.st.get_loc(info.temps[2 * i]);
                key.push(name_of(&mut names, &mut order, fst.v));
            }
        }
        // reachable part, in discovery order
        let mut emitted: HashSet<i64> = HashSet::new();
        let emit_fields = |names: &mut HashMap<i64, i64>, order: &mut Vec<i64>, key: &mut Vec<i64>, b: usize| {
            let base = b * bw as usize;
            for (fst, snd) in &info.field_off {
                let p = mem.heap[base + (*fst / 8) as usize];
                let s = mem.heap[base + (*snd / 8) as usize];
                key.push(name_of(names, order, p.v));
                key.push(if s.d { s.v } else { i64::MIN + 3 });
            }
        };
        let mut next_idx = 0;
        while next_idx < order.len() {
            let a = order[next_idx];
            next_idx += 1;
            emitted.insert(a);
            match blk(a) {
                Some(b) => {
                    key.push(mem.heap[b * bw as usize + (info.refcount_off / 8) as usize].v);
                    emit_fields(&mut names, &mut order, &mut key, b);
                }
                None => key.push(-7),
            }
        }
        // reusable list: order only (fields are stale by design)
        key.push(-100);
        let mut cur = node.st.reg(info.heap_reg).v;
        let mut guard = 0;
        while cur != 0 && guard < 64 {
            guard += 1;
            key.push(name_of(&mut names, &mut order, cur));
            emitted.insert(cur);
            let Some(b) = blk(cur) else { break };
            cur = mem.heap[b * bw as usize + (info.next_off / 8) as usize].v;
        }
        // deferred list: order and fields
        key.push(-200);
        let mut cur = node.st.reg(info.free_reg).v;
        let mut guard = 0;
        let mut deferred = Vec::new();
        while cur != 0 && guard < 64 {
            guard += 1;
            let Some(b) = blk(cur) else { break };
            let link = mem.heap[b * bw as usize + (info.next_off / 8) as usize].v;
            if link == 0 {
                key.push(-1); // the frontier
                break;
            }
            key.push(name_of(&mut names, &mut order, cur));
            emitted.insert(cur);
            deferred.push(b);
            cur = link;
        }
        for b in deferred {
            emit_fields(&mut names, &mut order, &mut key, b);
        }
        // blocks waiting beneath deferred ones
        key.push(-300);
        let mut i = 0;
        while i < order.len() {
            let a = order[i];
            i += 1;
            if !emitted.insert(a) {
                continue;
            }
            match blk(a) {
                Some(b) => {
                    key.push(mem.heap[b * bw as usize + (info.refcount_off / 8) as usize].v);
                    emit_fields(&mut names, &mut order, &mut key, b);
                }
                None => key.push(-7),
            }
        }
        let h1 = hash64(&key) as u128;
        let h2 = hash64(&(0x9e37_79b9u64, &key)) as u128;
        (h1 << 64) | h2
    }
}

pub struct BfsOutcome {
    pub states: u64,
    pub transitions: u64,
    pub depth: usize,
    pub fixpoint: bool,
    pub cap: Option<String>,
}

struct QNode {
    c: crate::emu::any::Compact,
    kinds: Vec<Kind>,
    vals: Vec<RVal>,
    peak: usize,
    path: Vec<Op>,
}
fn rval_bytes(v: &RVal) -> usize {
    32 + match v {
        RVal::Int(_) => 0,
        RVal::Data(_, fs) | RVal::Clo(fs) => fs.iter().map(rval_bytes).sum(),
    }
}
impl QNode {
    fn approx_bytes(&self) -> (usize, usize, usize) {
        (self.c.approx_bytes(), self.vals.iter().map(rval_bytes).sum::<usize>() + self.kinds.len() * std::mem::size_of::<Kind>(), self.path.len() * std::mem::size_of::<Op>())
    }
}
fn pack(n: Node, template: &AnyState) -> QNode {
    QNode { c: n.st.compact(template), kinds: n.kinds, vals: n.vals, peak: n.peak, path: n.path }
}

/// Resident set size of this process in MiB (the searches cap themselves on it: the machine has no swap).
fn rss_mb() -> u64 {
    std::fs::read_to_string("/proc/self/statm").ok().and_then(|t| t.split_whitespace().nth(1).and_then(|p| p.parse::<u64>().ok())).map(|pages| pages * 4096 / (1 << 20)).unwrap_or(0)
}

unsafe extern "C" {
    fn malloc_trim(pad: usize) -> i32;
}

pub fn search(arch: Arch, k: usize, max_live: usize, mode: u8, pad: usize, max_states: u64, ctx: &WorkerCtx, rep: &mut Report) -> BfsOutcome {
    let out = search_inner(arch, k, max_live, mode, pad, max_states, ctx, rep);
    // give the queue and the visited set back to the system before the next configuration
    unsafe {
        malloc_trim(0);
    }
    out
}

fn search_inner(arch: Arch, k: usize, max_live: usize, mode: u8, pad: usize, max_states: u64, ctx: &WorkerCtx, rep: &mut Report) -> BfsOutcome {
    let rss_cap: u64 = std::env::var("VERIF_RSS_CAP_MB").ok().and_then(|v| v.parse().ok()).unwrap_or(2500);
    // every single search also has its own wall-clock slice (the large configurations do not
    // converge; they are explored breadth-first to the depth the slice allows)
    let slice_s: f64 = std::env::var("VERIF_BFS_SEARCH_S").ok().and_then(|v| v.parse().ok()).unwrap_or(if ctx.tier.thorough() { 240.0 } else { 90.0 });
    let search_started = std::time::Instant::now();
    let mut s = Search::new(arch, k, max_live, pad);
    s.evictable = mode >= 2;
    let mut out = BfsOutcome { states: 0, transitions: 0, depth: 0, fixpoint: false, cap: None };
    let init = match s.initial() {
        Ok(n) => n,
        Err(e) => {
            rep.machinery(format!("{}: cannot set up the initial state: {e}", arch.name()));
            return out;
        }
    };
    let mut seen: HashSet<u128> = HashSet::new();
    seen.insert(s.canon(&init));
    let template = init.st.clone();
    let mut level: VecDeque<QNode> = VecDeque::new();
    level.push_back(pack(init, &template));
    out.states = 1;
    let mut depth = 0;
    let mut violation_sigs: HashSet<String> = HashSet::new();
    'bfs: while !level.is_empty() {
        let mut next_level = VecDeque::new();
        while let Some(q) = level.pop_front() {
            let node = Node { st: AnyState::expand(&template, &q.c), kinds: q.kinds, vals: q.vals, peak: q.peak, path: q.path };
            for op in enabled_mode(&node.kinds[s.pad..], k, mode, s.pad) {
                out.transitions += 1;
                match s.step(&node, op) {
                    StepResult::Capacity => rep.count("pruned_by_backend_capacity", 1),
                    StepResult::Machinery(m) => {
                        rep.machinery(format!("{} after {:?}: {m}", arch.name(), node.path));
                        break 'bfs;
                    }
                    StepResult::Violation(kind, msg) => {
                        let mut path: Vec<String> = node.path.iter().map(|o| o.name()).collect();
                        path.push(op.name());
                        let sig = format!("{}/bfs/{kind}/{}", arch.name(), match op {
                            Op::Dup(_) => "Dup".to_string(),
                            Op::Drop(_) => "Drop".to_string(),
                            Op::ToLast(_) => "ToLast".to_string(),
                            Op::Create(_) => "Create".to_string(),
                            o => o.name(),
                        });
                        if violation_sigs.insert(sig.clone()) || violation_sigs.len() < 40 {
                            rep.violation(sig, format!("history {path:?}: {msg}"), json!({"kind": "heapbfs", "arch": arch.name(), "k": k, "max_live": max_live, "pad": pad, "path": path}));
                        }
                        rep.outcomes.insert(format!("violation/{kind}"));
                    }
                    StepResult::Next(n, facts) => {
                        rep.count(&format!("transitions_{}", match op {
                            Op::Dup(_) => "dup".to_string(),
                            Op::Drop(_) => "drop".to_string(),
                            Op::ToLast(_) => "move".to_string(),
                            Op::Create(_) => "create".to_string(),
                            o => o.name().to_lowercase(),
                        }), 1);
                        rep.max("bfs_frontier_blocks", facts.frontier_blocks as i64);
                        rep.max("bfs_footprint_slack", facts.frontier_blocks as i64 - n.peak as i64);
                        rep.max("bfs_max_refcount_plus_one", facts.max_refcount + 1);
                        if facts.deferred > 0 {
                            rep.count("states_seen_with_deferred_blocks", 1);
                        }
                        if facts.waiting > 0 {
                            rep.count("states_seen_with_waiting_blocks", 1);
                        }
                        if facts.linear > 1 {
                            rep.count("states_seen_with_reusable_blocks", 1);
                        }
                        if facts.live > max_live {
                            rep.count("pruned_by_live_bound", 1);
                            continue;
                        }
                        let c = s.canon(&n);
                        if seen.insert(c) {
                            out.states += 1;
                            if rep.samples.len() < 3 && n.path.len() >= 5 {
                                rep.sample(json!({"arch": arch.name(), "history": n.path.iter().map(|o| o.name()).collect::<Vec<_>>(), "environment": format!("{:?}", n.kinds), "live_blocks": facts.live, "deferred": facts.deferred, "waiting": facts.waiting}));
                            }
                            next_level.push_back(pack(n, &template));
                        }
                    }
                }
            }
            if out.states > max_states {
                out.cap = Some(format!("state cap {max_states} hit at depth {depth} ({} K={k} live<={max_live}); all histories of length <= {depth} were covered", arch.name()));
                break 'bfs;
            }
            if ctx.out_of_time() || search_started.elapsed().as_secs_f64() > slice_s {
                out.cap = Some(format!("time slice hit at depth {depth} after {} states ({} K={k} live<={max_live} alphabet={mode} pad={pad}); all histories of length <= {depth} were covered", out.states, arch.name()));
                break 'bfs;
            }
            if out.transitions % 8192 < 64 && rss_mb() > rss_cap {
                out.cap = Some(format!("memory cap {rss_cap} MiB hit at depth {depth} after {} states ({} K={k} live<={max_live} alphabet={mode} pad={pad}); all histories of length <= {depth} were covered", out.states, arch.name()));
                break 'bfs;
            }
        }
        depth += 1;
        if std::env::var("VERIF_BFS_TRACE").is_ok() {
            let (mut a, mut b, mut c) = (0usize, 0usize, 0usize);
            for q in &next_level {
                let (x, y, z) = q.approx_bytes();
                a += x;
                b += y;
                c += z;
            }
            eprintln!("{} depth {depth}: {} new states, total {}; queue bytes: snapshots {a} values {b} paths {c}; code cache {} fragments ({} distinct texts) {} instructions; rss {} MiB", arch.name(), next_level.len(), out.states, s.cache.len(), s.text_cache.len(), s.prog.len(), rss_mb());
        }
        level = next_level;
    }
    out.depth = depth;
    out.fixpoint = out.cap.is_none() && rep.machinery.is_empty();
    out
}

/// Replays one recorded history.
pub fn replay(case: &serde_json::Value) -> Result<Option<String>, String> {
    let arch = match case["arch"].as_str().ok_or("arch")? {
        "x86_64" => Arch::X86,
        "aarch64" => Arch::A64,
        _ => Arch::Rv64,
    };
    let k = case["k"].as_u64().ok_or("k")? as usize;
    let max_live = case["max_live"].as_u64().ok_or("max_live")? as usize;
    let pad = case["pad"].as_u64().unwrap_or(0) as usize;
    let mut s = Search::new(arch, k, max_live, pad);
    let mut node = s.initial()?;
    for o in case["path"].as_array().ok_or("path")? {
        let op = Op::parse(o.as_str().ok_or("op")?).ok_or("unknown op")?;
        match s.step(&node, op) {
            StepResult::Next(n, _) => node = n,
            StepResult::Capacity => return Ok(None),
            StepResult::Violation(kind, msg) => return Ok(Some(format!("{kind}: {msg}"))),
            StepResult::Machinery(m) => return Err(m),
        }
    }
    Ok(None)
}
