//! Dispatch from property ids to engines.
pub mod codegen;

use crate::framework::*;
use crate::pipeline::Arch;
use serde_json::Map;
use std::time::Instant;

pub fn run_worker(check: &str, ctx: &WorkerCtx, _extra: &[String]) -> Report {
    match check {
        "C06" => codegen::worker(ctx, Arch::X86, codegen::Mode::Semantics),
        "C07" => codegen::worker(ctx, Arch::A64, codegen::Mode::Semantics),
        "C08" => codegen::worker(ctx, Arch::Rv64, codegen::Mode::Semantics),
        _ => {
            let mut r = Report::default();
            r.machinery(format!("unknown check {check}"));
            r
        }
    }
}

fn codegen_meta(property: &'static str, arch: &str) -> CheckMeta {
    CheckMeta {
        property,
        level: "model_checking",
        rule: format!(
            "bounded-exhaustive enumeration of linear AxCut template programs (prelude of k variables x statement under test x observer epilogue) over the families LIT, OP, IFC, LET/SWITCH, heap mixes, jump tables, CREATE/INVOKE, PRINT, entry/CALL/EXIT, loops; each is compiled by the real {arch} code generator, the printed text is executed on an emulator from its entry point and compared with the positional AxCut reference machine (print sequence + result). A case is distinct by the hash of its printed program and arguments; every case executes real generated code, so all are non-trivial."
        ),
        assumptions: vec![
            format!("the {arch} emulator models the instruction subset the backend prints (validated natively for x86-64 by C01)"),
            "reference semantics: positional AxCut machine of DESIGN Appendix A".into(),
            "programs whose reference run divides by zero / overflows a division are outside the domain and skipped".into(),
        ],
    }
}

pub fn run_check(id: &str, tier: Tier) -> i32 {
    let started = Instant::now();
    match id {
        "C06" | "C07" | "C08" => {
            let rep = run_sharded(id, tier, &[]);
            let meta = match id {
                "C06" => codegen_meta("C06", "x86-64"),
                "C07" => codegen_meta("C07", "AArch64"),
                _ => codegen_meta("C08", "RV64"),
            };
            finish(&meta, tier, started, rep, Map::new())
        }
        _ => {
            eprintln!("unknown property {id}");
            2
        }
    }
}

pub fn replay(id: &str, path: &str) -> i32 {
    let Ok(s) = std::fs::read_to_string(path) else {
        eprintln!("cannot read {path}");
        return 2;
    };
    let Ok(v) = serde_json::from_str::<serde_json::Value>(&s) else {
        eprintln!("replay file is not JSON");
        return 2;
    };
    let case = &v["case"];
    match case["kind"].as_str() {
        Some("axfam") => match codegen::replay(case) {
            Some((name, verdict)) => {
                println!("[{id}] replay {name}: {verdict:?}");
                match verdict {
                    crate::exec::Verdict::Violation(_) => {
                        println!("VIOLATION property={id} replay={path}");
                        1
                    }
                    crate::exec::Verdict::Machinery(_) => 2,
                    _ => 0,
                }
            }
            None => {
                eprintln!("case not found");
                2
            }
        },
        _ => {
            eprintln!("unknown replay kind");
            2
        }
    }
}
