//! Dispatch from property ids to engines.
pub mod asmcheck;
pub mod codegen;
pub mod determinism;
pub mod e2e;
pub mod format;
pub mod heapbfs;
pub mod robust;
pub mod runtime;
pub mod selftest;
pub mod size;
pub mod stages;
pub mod subst;
pub mod typecheck;

use crate::framework::*;
use crate::pipeline::Arch;
use serde_json::Map;
use std::time::Instant;

pub fn run_worker(check: &str, ctx: &WorkerCtx, _extra: &[String]) -> Report {
    match check {
        "C01" => e2e::worker(ctx),
        "C02" => stages::worker(ctx, stages::Prop::C02),
        "C03" => stages::worker(ctx, stages::Prop::C03),
        "C04" => stages::worker(ctx, stages::Prop::C04),
        "C05" => {
            let mut r = stages::worker(ctx, stages::Prop::C05);
            stages::nl_worker(ctx, &mut r);
            r
        }
        "C12" => stages::worker(ctx, stages::Prop::C12),
        "C06" => codegen::worker(ctx, Arch::X86, codegen::Mode::Semantics),
        "C07" => codegen::worker(ctx, Arch::A64, codegen::Mode::Semantics),
        "C08" => codegen::worker(ctx, Arch::Rv64, codegen::Mode::Semantics),
        "C09" => heap_worker(ctx, false),
        "C10" => heap_worker(ctx, true),
        "C11" => subst::worker(ctx),
        "C14" => asmcheck::worker(ctx),
        "C15" => typecheck::worker(ctx),
        "C16" => format::worker(ctx),
        "C17" => determinism::worker(ctx),
        "C18" => robust::worker(ctx),
        "C19" => size::worker(ctx),
        "C20" => runtime::worker(ctx),
        "C13" => {
            let mut r = codegen::worker(ctx, Arch::X86, codegen::Mode::CallConv);
            r.merge(codegen::worker(ctx, Arch::A64, codegen::Mode::CallConv));
            r
        }
        _ => {
            let mut r = Report::default();
            r.machinery(format!("unknown check {check}"));
            r
        }
    }
}

fn codegen_meta(property: &'static str, arch: &str) -> CheckMeta {
    CheckMeta {
        property,
        level: "model_checking",
        rule: format!(
            "bounded-exhaustive enumeration of linear AxCut template programs (prelude of k variables x statement under test x observer epilogue) over the families LIT, OP, IFC, LET/SWITCH, heap mixes, jump tables, CREATE/INVOKE, PRINT, entry/CALL/EXIT, loops; each is compiled by the real {arch} code generator, the printed text is executed on an emulator from its entry point and compared with the positional AxCut reference machine (print sequence + result). The kinds of the surrounding variables follow the patterns ints / alt / objs / clos and the rotated patterns altrot / closrot (every position holds an integer in one run and a block pointer in another). The same is done for real pipeline outputs: linearized Fun family programs, the complete space of small non-linear statements after the real linearizer, and the hand-built Core programs of G-CORE after focusing, shrinking and linearization — each also in a padded variant with 5 or 12 extra integers live from entry to exit (generate/axpad.rs), which moves the program's own variables across the register/spill boundaries. A case is distinct by the hash of its printed program and arguments; every case executes real generated code, so all are non-trivial."
        ),
        assumptions: vec![
            format!("the {arch} emulator models the instruction subset the backend prints (validated natively for x86-64 by C01)"),
            "reference semantics: positional AxCut machine of DESIGN Appendix A".into(),
            "programs whose reference run divides by zero / overflows a division are outside the domain and skipped".into(),
        ],
    }
}

/// C09 / C10 worker. The explicit-state searches (configuration x architecture) are dealt round
/// robin to the workers; every worker also takes its share of the program executions (C09: all families under the heap monitor; C10: the loop
/// families at n, 4n, 16n).
fn heap_worker(ctx: &WorkerCtx, footprint: bool) -> Report {
    use crate::arch::arch_info;
    let mut rep = Report::default();
    let archs = Arch::all();
    let n = ctx.nshards;
    // (K variables, live-block bound, rich alphabet, padded): each configuration is searched to a
    // fixpoint; "padded" puts identity variables in front so that the window straddles the
    // register/spill boundary (x86-64: 5, AArch64: 12; RV64 has no spills: 6)
    // alphabet 0 = lists/boxes/closures, 1 = rich, 2 = records (two-block objects, no nesting)
    let configs: Vec<(usize, usize, u8, bool)> = if ctx.tier.thorough() {
        vec![(2, 3, 0, false), (3, 2, 0, false), (2, 3, 0, true), (4, 3, 2, false), (4, 3, 2, true), (3, 2, 0, true), (2, 4, 0, false), (2, 3, 1, false), (3, 3, 0, false), (4, 2, 0, false), (2, 4, 0, true), (5, 4, 2, true), (4, 3, 3, false), (4, 4, 3, false), (4, 4, 3, true)]
    } else {
        vec![(2, 3, 0, false), (3, 2, 0, false), (2, 3, 0, true), (4, 2, 2, false), (4, 2, 2, true)]
    };
    let mut tasks: Vec<(Arch, (usize, usize, u8, usize))> = Vec::new();
    for (k, live, rich, padded) in &configs {
        for a in archs {
            let pad = if !*padded { 0 } else { match a { Arch::X86 => 5, Arch::A64 => 12, Arch::Rv64 => 6 } };
            tasks.push((a, (*k, *live, *rich, pad)));
        }
    }
    // every worker takes its share of the searches (round robin) and of the program executions
    let exec_shard = Some(ctx.shard);
    let exec_n = n;
    for (ti, (arch, (k, live, rich, pad))) in tasks.into_iter().enumerate() {
        if ti as u64 % n != ctx.shard {
            continue;
        }
        // debugging aid: VERIF_BFS_ONLY=x86_64,5,4,2,5 runs a single configuration
        if let Ok(only) = std::env::var("VERIF_BFS_ONLY") {
            if only != format!("{},{k},{live},{rich},{pad}", arch.name()) {
                continue;
            }
        }
        let cap = if ctx.tier.thorough() { 12_000_000u64 } else { 1_000_000u64 };
        let out = heapbfs::search(arch, k, live, rich, pad, cap, ctx, &mut rep);
        rep.count("states", out.states);
        rep.count("transitions", out.transitions);
        rep.count("traces_validated_against_impl", out.transitions);
        rep.count("bfs_states", out.states);
        rep.count("cases", out.transitions);
        rep.distinct.push(hash64(&(arch.name(), k, live, rich, pad, out.states)));
        rep.notes.push(format!(
            "BFS {} K={k} live<={live} alphabet={rich} pad={pad}: {} canonical states, {} transitions, depth {}, fixpoint reached: {}",
            arch.name(), out.states, out.transitions, out.depth, out.fixpoint
        ));
        if out.fixpoint {
            rep.count("bfs_configurations_at_fixpoint", 1);
        }
        if let Some(c) = out.cap {
            rep.capped = Some(match rep.capped.take() { Some(p) => format!("{p}; {c}"), None => c });
        }
        rep.outcomes.insert(format!("bfs/{}/K{k}/L{live}/rich{rich}/pad{pad}/fixpoint={}", arch.name(), out.fixpoint));
    }
    if let Some(es) = exec_shard {
        let sub = WorkerCtx { tier: ctx.tier, shard: es, nshards: exec_n, seed: ctx.seed, started: ctx.started, budget_s: ctx.budget_s };
        if !footprint {
            for arch in archs {
                rep.merge(codegen::worker(&sub, arch, codegen::Mode::Heap));
            }
        } else {
            // loops at n, 4n, 16n: the footprint must not depend on n
            let types = crate::generate::axb::std_types();
            let base: i64 = if ctx.tier.thorough() { 64 } else { 8 };
            let mut idx = 0u64;
            for arch in archs {
                let info = arch_info(arch);
                for shape in 0..crate::generate::axfam::LOOP_SHAPES {
                    idx += 1;
                    if !sub.mine(idx) {
                        continue;
                    }
                    let mut frontiers = Vec::new();
                    for n in [base, 4 * base, 16 * base] {
                        let case = crate::generate::axfam::loop_case(&types, shape, n);
                        let r = codegen::run_case(&case, arch, &info, true);
                        rep.count("cases", 1);
                        rep.count("states", r.boundaries);
                        rep.count("transitions", r.ref_steps);
                        rep.distinct.push(hash64(&(arch.name(), shape, n)));
                        match (&r.verdict, r.heap) {
                            (crate::exec::Verdict::Match, Some(h)) => {
                                rep.count("traces_validated_against_impl", 1);
                                frontiers.push((n, h.1, h.0));
                            }
                            (crate::exec::Verdict::Violation(m), _) => {
                                rep.violation(format!("{}/loop{shape}/run", arch.name()), m.clone(), codegen::case_json(&case, arch));
                            }
                            (crate::exec::Verdict::Machinery(m), _) => rep.machinery(m.clone()),
                            _ => {}
                        }
                    }
                    if frontiers.len() == 3 {
                        rep.sample(serde_json::json!({"arch": arch.name(), "loop_shape": shape, "iterations_frontier_peak": frontiers}));
                        let f0 = frontiers[0].1;
                        if frontiers.iter().any(|(_, f, _)| *f != f0) {
                            rep.violation(
                                format!("{}/loop{shape}/grows", arch.name()),
                                format!("heap footprint depends on the number of iterations: (n, frontier blocks, peak live) = {frontiers:?}"),
                                serde_json::json!({"kind": "loopgrowth", "arch": arch.name(), "shape": shape, "base": base}),
                            );
                        }
                        rep.outcomes.insert(format!("loop{shape}/frontier={f0}"));
                    }
                }
            }
            // the same for Fun loops compiled by the whole pipeline (end to end: a missing release
            // anywhere between the source and the emitted code makes the footprint grow)
            for arch in archs {
                let info = arch_info(arch);
                for (shape, sname) in crate::generate::funfam::FUN_LOOP_SHAPES.iter().enumerate() {
                    idx += 1;
                    if !sub.mine(idx) {
                        continue;
                    }
                    let src = crate::generate::funfam::fun_loop_source(shape);
                    let st = match crate::pipeline::all_stages(&src) {
                        Ok(st) => st,
                        Err(e) => {
                            rep.machinery(format!("Fun loop {sname} does not compile: {e:?}"));
                            continue;
                        }
                    };
                    let mut frontiers = Vec::new();
                    let mut exhausted = false;
                    for n in [base, 4 * base, 16 * base] {
                        let case = crate::generate::axfam::AxCase { name: format!("funloop/{sname}/n{n}"), prog: st.linear.clone(), args: vec![n], uses_print: false };
                        // reference: the by-name machine on the shrunk program (independent of the linearizer)
                        let reference = crate::sem::ax::run_named(&st.shrunk, 0, &[n], 400_000);
                        let r = codegen::run_case_opts(&case, arch, &info, true, false, Some(reference));
                        rep.count("cases", 1);
                        rep.count("states", r.boundaries);
                        rep.count("transitions", r.ref_steps);
                        rep.distinct.push(hash64(&(arch.name(), sname, n)));
                        match (&r.verdict, r.heap) {
                            (crate::exec::Verdict::Match, Some(h)) => {
                                rep.count("traces_validated_against_impl", 1);
                                frontiers.push((n, h.1, h.0));
                            }
                            (crate::exec::Verdict::Violation(m), h) => {
                                if matches!(r.fault, Some(crate::emu::Fault::HeapExhausted)) {
                                    exhausted = true;
                                    frontiers.push((n, usize::MAX, h.map(|x| x.0).unwrap_or(0)));
                                } else {
                                    rep.violation(format!("{}/funloop/{sname}/run", arch.name()), m.clone(), serde_json::json!({"kind": "funloop", "arch": arch.name(), "shape": shape, "n": n, "source": src}));
                                }
                            }
                            (crate::exec::Verdict::Machinery(m), _) => rep.machinery(m.clone()),
                            _ => {}
                        }
                    }
                    if frontiers.len() == 3 {
                        rep.sample(serde_json::json!({"arch": arch.name(), "fun_loop": sname, "iterations_frontier_peak": frontiers.iter().map(|(n, f, p)| (n, if *f == usize::MAX { -1 } else { *f as i64 }, p)).collect::<Vec<_>>()}));
                        let f0 = frontiers[0].1;
                        if exhausted || frontiers.iter().any(|(_, f, _)| *f != f0) {
                            rep.violation(
                                format!("{}/funloop/{sname}/grows", arch.name()),
                                format!("heap footprint of a compiled Fun loop depends on the number of iterations: (n, frontier blocks (MAX = heap exhausted), peak live) = {frontiers:?}"),
                                serde_json::json!({"kind": "funloop", "arch": arch.name(), "shape": shape, "base": base, "source": src}),
                            );
                        }
                        rep.outcomes.insert(format!("funloop/{sname}/frontier={f0}"));
                    }
                }
            }
        }
    }
    rep
}

fn heap_meta(property: &'static str) -> CheckMeta {
    CheckMeta {
        property,
        level: "model_checking",
        rule: if property == "C09" {
            "two explorations: (A) every statement boundary of every emulated execution of the linear AxCut families on all three backends is a checked state (heap partition, exact reference counts, memory safety); (B) breadth-first search over histories of heap operations (literal, let of 0/1/2/3/4 fields, dup, drop, move, switch, create, invoke) from the post-prologue state, each transition being the real generated code for one statement run on the emulator, with canonical-state deduplication (block addresses renamed in discovery order, dead data scrubbed to undefined); the invariant, agreement of integers/tags with a reference value model and the footprint bound are evaluated in every state. A state is distinct by its canonical form.".into()
        } else {
            "(mechanism) the same breadth-first search as C09(B) with (peak reachable blocks) carried in the state: blocks below the allocation frontier <= peak + 2 in every reachable state, to a fixpoint under a live-data bound, i.e. for histories of any length; (programs) build-and-drop loops of six shapes (hand-built linear AxCut) and of ten shapes written in Fun and compiled by the whole pipeline, on all three backends at n, 4n, 16n iterations: the frontier must be identical for the three n.".into()
        },
        assumptions: vec![
            "block geometry (fields per block, offsets, heap/free registers, temporaries) is taken from the backend crates at run time".into(),
            "the canonical form merges states that differ only in block addresses and dead data; generated code never compares addresses and dead data is scrubbed to undefined so that any dependence is a fault".into(),
            "reading of 'deferred': blocks beneath a deferred block still hold counted references; blocks on the reusable list hold none".into(),
        ],
    }
}

pub fn run_check(id: &str, tier: Tier) -> i32 {
    let started = Instant::now();
    match id {
        "C06" | "C07" | "C08" => {
            let rep = run_sharded(id, tier, &[]);
            let meta = match id {
                "C06" => codegen_meta("C06", "x86-64"),
                "C07" => codegen_meta("C07", "AArch64"),
                _ => codegen_meta("C08", "RV64"),
            };
            finish(&meta, tier, started, rep, Map::new())
        }
        "C01" => {
            let rep = run_sharded(id, tier, &[]);
            let meta = CheckMeta {
                property: "C01",
                level: "model_checking",
                rule: "bounded-exhaustive enumeration of Fun programs (FUN-S: every well-typed main body up to a node bound over a small alphabet; FUN-SHADOW: binder kind x inner name x outer name x continuation kind; FUN-LIVE: 0..20 live variables x kind pattern x construct; FUN-LIT/OPS/CMP: boundary literals x placements, 5 operators, 6 comparisons x 5 forms; FUN-DATA: constructor arity 0..8, clause rotations; FUN-CTRL; codata; generated-name lookalikes; FUN-SHADOW across/retype/reuse/rebind; FUN-ARITY: 0..5 entry parameters; FUN-POLY: polymorphic types at two instantiations; FUN-WIDE: xtors with 0..8 parameters) x argument tuples. Every program goes through the real parser, checker, translation, focusing, shrinking, linearization and x86-64 code generator; the printed file is assembled by GNU as, linked with the repository's driver template and io.c, and run as a process; stdout bytes and exit status are compared with the reference machine R-FUN. Distinct = distinct source texts that produced an executable. Every arity is linked against the driver generated without and with an explicit heap size (64 quick; 1, 64, 512 thorough). Later additions: four sibling-binder classes (a binder of one clause used in the next / previous clause), undeclared type names in declarations (whole type and last type argument), every accepted program re-checked with its definitions and with all declarations reversed, receivers that check at any type (goto / exit) excluded from the foreign-destructor classes.".into(),
                assumptions: vec![
                    "GNU as after a syntax-only NASM->GAS transliteration stands in for yasm (not installed)".into(),
                    "R-FUN is the reading of the source semantics stated in the property (validated on the repository's examples by `vcheck selftest`)".into(),
                    "states = statement boundaries of the emulated twin run; transitions = reference machine steps".into(),
                ],
            };
            finish(&meta, tier, started, rep, Map::new())
        }
        "C02" | "C03" | "C04" | "C05" | "C12" => {
            let rep = run_sharded(id, tier, &[]);
            let fams = "the Fun families (FUN-S: every well-typed main body of <= 6 nodes at the quick tier (C12: 5), 7 at the thorough tier for C02/C03 (others 6); FUN-SHADOW incl. across/retype/reuse/rebind, FUN-LIVE, FUN-LIT/OPS/CMP, FUN-DATA, FUN-CTRL, codata, name lookalikes, FUN-ARITY, FUN-POLY, FUN-WIDE";
            let meta = match id {
                "C02" => CheckMeta {
                    property: "C02",
                    level: "model_checking",
                    rule: format!("every program of {fams}; effects only in sequenced positions) x argument tuples is translated by the real compile_prog; the Core abstract machine R-CORE (lexical scoping on name+id, polarity-directed critical pairs, dynamic focusing) runs the output and its print sequence + result are compared with R-FUN; statically every variable/covariable occurrence of the output is bound and typed and all definition names are distinct (TC-CORE). Distinct = distinct source texts."),
                    assumptions: vec!["R-FUN and R-CORE are independent implementations of the semantics stated in the property; they agree with the compiled code on the repository's examples".into()],
                },
                "C03" => CheckMeta {
                    property: "C03",
                    level: "model_checking",
                    rule: format!("every translation output of {fams}, plus FUN-EFFECT with prints/goto/exit in argument positions) is run on R-CORE before and after the real Prog::focus(); full print sequence and result must agree; after focusing, binders along every path are checked to be non-zero, pairwise distinct and <= max_id.{}", format!(" G-CORE: additionally every hand-built Core program of the exhaustive enumeration `generate/corefam.rs` (statements of up to N nodes over cut at i64 / a pair type / a two-constructor data type / a codata type, print, zero test, exit, call of a helper that rebinds its own parameters, mu, mutilde, case, cocase, constructor and destructor with arbitrary non-value arguments; binders drawn from two variable and two covariable names, so every kind of shadowing, also at a different type, occurs; three alphabets (all forms; int+pair; int+two-constructor type, one node larger), N = {}), each confirmed well-typed by TC-CORE first; every program in which the second name of a pool is bound at most once also runs in a partly unique variant (that name written with the first one's base name and a non-zero id, so that identifiers (x,0) and (x,7) are in scope together).", "12/14 quick, 14/16 thorough")),
                    assumptions: vec!["R-CORE's dynamic focusing (left-to-right, once for integers/data, by name for codata, consumer-first for codata cuts) is the reading of the property's evaluation order".into()],
                },
                "C04" => CheckMeta {
                    property: "C04",
                    level: "model_checking",
                    rule: format!("every focused program of {fams}, FUN-EFFECT) is shrunk by the real shrink_prog; the AxCut machine (by name) on the output must agree with R-CORE on the focused input (output, result, termination); lifted definitions must have exactly the free variables of their body as parameters; the output must be well-scoped with unique binders per path.{}", format!(" G-CORE: additionally every hand-built Core program of the exhaustive enumeration `generate/corefam.rs` (statements of up to N nodes over cut at i64 / a pair type / a two-constructor data type / a codata type, print, zero test, exit, call of a helper that rebinds its own parameters, mu, mutilde, case, cocase, constructor and destructor with arbitrary non-value arguments; binders drawn from two variable and two covariable names, so every kind of shadowing, also at a different type, occurs; three alphabets (all forms; int+pair; int+two-constructor type, one node larger), N = {}), each confirmed well-typed by TC-CORE first.", "11/13 quick, 13/15 thorough")),
                    assumptions: vec!["focused Core is embedded into Core and run on the same R-CORE machine".into()],
                },
                "C05" => CheckMeta {
                    property: "C05",
                    level: "model_checking",
                    rule: format!("(a) the complete space of non-linear AxCut statements over contexts of <= 3 (quick) / <= 4 (thorough) variables: every kind assignment x statement kind (literal, print, op, let, ifc, switch, create with every captured subset, call with every argument pair incl. repetition) x every subset of variables used afterwards; (b) every shrunk program of {fams}). Each is linearized by the real linearizer; TC-AX checks the ordered-linear judgment of DESIGN Appendix A on every statement of every path; the positional AxCut machine on the linearized program must agree with the by-name machine on the original. Every statement of (a) is linearized under three id regimes: as generated (max_id far above every id), with max_id equal to the highest id in use, and with all variable ids mirrored and max_id tight. (c) the shrunk programs of the G-CORE enumeration (hand-built Core programs with every kind of shadowing, sizes 11/13 quick, 13/15 thorough; see C03)."),
                    assumptions: vec!["Appendix A judgment read off the backends' expectations".into()],
                },
                _ => CheckMeta {
                    property: "C12",
                    level: "exploration",
                    rule: format!("every program of {fams}, FUN-EFFECT) is accepted by the checker and taken through translation, focusing, shrinking, linearization and the three code generators under catch_unwind (only the documented capacity panics are tolerated); TC-CORE checks the translation output and the focused program, TC-AX the shrunk and the linearized program, with exactly the judgments listed in the property. Non-trivial = reached all stages; distinct = distinct source texts.{}", format!(" G-CORE: additionally every hand-built Core program of the exhaustive enumeration `generate/corefam.rs` (statements of up to N nodes over cut at i64 / a pair type / a two-constructor data type / a codata type, print, zero test, exit, call of a helper that rebinds its own parameters, mu, mutilde, case, cocase, constructor and destructor with arbitrary non-value arguments; binders drawn from two variable and two covariable names, so every kind of shadowing, also at a different type, occurs; three alphabets (all forms; int+pair; int+two-constructor type, one node larger), N = {}), each confirmed well-typed by TC-CORE first.", "11/13 quick, 13/15 thorough")),
                    assumptions: vec!["TC-CORE/TC-AX are independent of the repository's own type information except for the annotations carried by the programs".into()],
                },
            };
            finish(&meta, tier, started, rep, Map::new())
        }
        "C09" | "C10" => {
            let rep = run_sharded(id, tier, &[]);
            let meta = heap_meta(if id == "C09" { "C09" } else { "C10" });
            finish(&meta, tier, started, rep, Map::new())
        }
        "C11" => {
            let rep = run_sharded(id, tier, &[]);
            let meta = CheckMeta {
                property: "C11",
                level: "model_checking",
                rule: "complete enumeration of substitution configurations: every function from a new window of m variables to an old window of n variables (n, m <= 4 quick / <= 5 thorough), every integer/object kind assignment of the old window (objects once as data of chirality prd and once as closures / continuations of chirality cns), every window offset across the register/spill boundary (x86-64 0..8, AArch64 8..16, RV64 0..9 identity variables in front), with and without all objects aliasing one block, on all three backends. Beyond the complete space: windows of 6, 7, 9 (thorough 6..12) variables with every rotation, reversal, adjacent swaps, a chain ending in a fan-out, total fan-out, two disjoint cycles and the swap of the two ends, for all-integer / all-object / alternating kinds. Each case compiles one real Substitute statement, runs it from a pre-state with distinct sentinels and checks the post-state: simultaneous assignment, reference counts (+copies-1), each dropped last reference released exactly once onto the deferred list, and nothing else changed (heap words, heap register, stack pointer, stack above the spill area). Every configuration runs under two namings of the new variables: the first use of a source keeps the source's identifier and copies are fresh (what the linearizer writes), and positional (the new variable at position j takes the identifier of the old variable at position j, e.g. (a := b)(b := a)). Distinct by configuration; all configurations execute generated code.".into(),
                assumptions: vec!["emulators as C06-C08".into(), "pre-state object counts 0/1/2 by block index; aliased block count = holders - 1 + (holders mod 2)".into()],
            };
            finish(&meta, tier, started, rep, Map::new())
        }
        "C14" => {
            let rep = run_sharded(id, tier, &[]);
            let meta = CheckMeta {
                property: "C14",
                level: "exploration",
                rule: "every assembly file emitted for the linear AxCut families (three backends) and for the Fun families (three backends; literals of every magnitude in every placement, types with 1..8 xtors, generated-name lookalikes) is linted: each label defined once, every referenced label defined, no label equal to a runtime symbol, every immediate/shift/offset within the field of the printed instruction form (x86-64 imm32/disp32 except mov r64,imm64; AArch64 imm12, imm16+shift, scaled offsets, imm7 pairs, ADR/branch ranges; RV64 imm12), jump-table entries of the fixed size the tag arithmetic assumes. x86-64 files are additionally assembled by GNU as and every jump table is read back from the object code with objdump (E9 rel32 entries, stride = jump_length(1)). Symbol-injection closure: for every generated definition symbol in an emitted file a variant program with a user definition of exactly that spelling is compiled and linted. Distinct = distinct emitted files.".into(),
                assumptions: vec!["GNU as after a syntax-only transliteration stands in for yasm; range tables written from the ISA manuals".into()],
            };
            finish(&meta, tier, started, rep, Map::new())
        }
        "C15" => {
            let rep = run_sharded(id, tier, &[]);
            let meta = CheckMeta {
                property: "C15",
                level: "exploration",
                rule: "(+) every program of the Fun families plus polymorphic declarations at several instances, nested instances, covariable parameters and shadowing must be accepted by the real checker; (-) for every base program (all focused-family programs, a 1/40 (quick) or 1/4 (thorough) slice of FUN-S) every applicable site x 30 single-edit classes (argument count +-1 in call/constructor/destructor, wrong-type operand, unbound variable/covariable/definition/constructor/destructor/type, missing/extra/duplicated clause, extra/missing binder, extra/missing type argument, constructor at i64, cocase at a data type, literal at a declared type; with twin declarations in front: constructor / clauses / destructor of a different declared type instantiated at the same arguments, a goto target, an argument name or a variable re-bound by a new innermost binder at the other chirality or at a foreign type) and the program-level edits (duplicate definition/parameter/type/constructor/destructor, variable where a covariable is required) is applied to the parsed tree and handed to Program::check, which must return an error. Distinct = distinct printed mutants.".into(),
                assumptions: vec!["each edit class is ill-typed by construction (no typing derivation exists for the edited tree)".into()],
            };
            finish(&meta, tier, started, rep, Map::new())
        }
        "C16" => {
            let rep = run_sharded(id, tier, &[]);
            let meta = CheckMeta {
                property: "C16",
                level: "exploration",
                rule: "G-TEXT: every term form (literals incl. negative, variable, 5 operators, 6 comparisons in two-operand / zero-right / zero-left form, let, call, constructor, case with 0..3 clauses, destructor with/without type arguments and arguments, cocase with 0..2 clauses, label, goto, exit, print, println, parentheses) nested in every operand slot of every term form (depth 2 quick, depth 3 thorough), comparison spellings with -0 / missing spaces / parenthesised zero, destructor and case chains, all declaration forms, and the repository's own .sc files. Only texts the real parser accepts are used; the tree is obtained by parsing. For every (width, indent) in 1..60+{70..200} x {0,1,2,4,8} (quick) / 1..200 x 0..8 (thorough; the depth-3 texts use the quick set) the program is printed by the repository's printer; every distinct rendering is re-parsed: the tree must be equal (spans ignored) and printing again must give the same text. A slice goes through the real `scc fmt --inplace`. Distinct = distinct accepted source texts. Argument lists of length one are forms of their own (call1, ctor1, dtor1); the inner term of every depth-2 text is also wrapped in 1..3 pairs of parentheses; an identifier-shape family writes each of 8 classes of names (variables, covariables/labels, definitions, destructors, declaration parameters, types, type parameters, constructors) in 9 shapes the lexer admits (camel case, underscores inside / trailing / repeated, digits, keyword prefixes), one class at a time and all together.".into(),
                assumptions: vec!["tree equality is the repository's derived PartialEq with source positions ignored".into()],
            };
            finish(&meta, tier, started, rep, Map::new())
        }
        "C17" => {
            let rep = run_sharded(id, tier, &[]);
            let meta = CheckMeta {
                property: "C17",
                level: "model_checking",
                rule: "three owned sources of nondeterminism, each enumerated exhaustively within its bound. History: for every sequence of <= 2 (quick) / <= 3 (thorough) earlier compilations over a 12-program alphabet (8 programs over a common prelude and 4 conflicting namesakes: same type, constructor, destructor and definition names with different order, arity or meaning), run in a fresh child process, the target (each of the 12) is compiled afterwards and every printable stage (Core, focused, shrunk, linearized, three assemblies) is compared with the fresh-process result after renumbering generated label suffixes in order of first occurrence. Hash seeds: an LD_PRELOAD shim makes getrandom() a function of VERIF_HASH_SEED; for seeds 0..15 (quick) / 0..255 (thorough) x a corpus (repository examples, testsuite programs, the history programs, a program with ten type instances) fresh processes must produce byte-identical output for every stage. Environment: the real scc subcommands compile/focus/shrink/linearize/codegen under 7 environments (cleared environment, TERM, COLUMNS, NO_COLOR, LANG/LC_ALL, another working directory): the text files written must be byte-identical. States = (history | seed | environment, stage) pairs; transitions = compilations. Additions: the seed corpus contains 30 programs whose user names lie in the generated namespaces (x<n>, a<n>, with gaps); a tool route runs `scc codegen` for 7 shapes of source file name x 2 backends with stand-ins for yasm/as/gcc on PATH that log their arguments and require every input file to exist (fresh output directory); and the compiler's session object is explored directly: every sequence of <= 3 (quick) / <= 4 (thorough) queries (parsed, checked, compiled, uniquified, focused, shrunk, linearized) x 2 (3) source files — conflicting namesakes — against ONE driver::Driver, each answer compared with the answer of a fresh driver to that query alone.".into(),
                assumptions: vec!["Rust's std obtains its hash keys through the libc getrandom symbol (the shim's effect is visible: before the instance-order fix different seeds gave different outputs)".into()],
            };
            finish(&meta, tier, started, rep, Map::new())
        }
        "C18" => {
            let rep = run_sharded(id, tier, &[]);
            let meta = CheckMeta {
                property: "C18",
                level: "exploration",
                rule: "(i) every token sequence of length <= 3 (quick) / <= 4 (thorough) over a 58-token alphabet of the lexer (symbols, keywords, names, literals incl. 2^63, comment, whitespace), bare and after two valid prefixes; every string of <= 2 / <= 3 characters over printable ASCII plus multi-byte characters, bare and inside a definition body; (ii) every single-token deletion, and replacement by / insertion of each alphabet token, at every position of a corpus (repository examples, testsuite files incl. the rejected ones, an all-forms program, a program with twin types), and every identifier occurrence replaced by every other identifier of the same program; (iii) boundary literals in five placements; (iv) nesting depth up to 64 (256 thorough) of eleven nestable constructs; (v) entry-point shapes (no main, 0..7 parameters, non-integer parameters/results, duplicate main). Parsing and checking must return, and every error they return is rendered against the source text the way scc reports it (Driver error -> miette report -> text) without a panic; accepted programs with a valid entry point must pass translation, focusing, shrinking, linearization and three code generators without a panic other than the capacity assertions. A slice (all single bytes bare and inside a body, invalid UTF-8, BOM, empty file) goes through the real scc binary (check, compile): no exit status 101, no 'panicked at', no signal. Non-trivial/distinct = distinct input texts. (vi) every program of the Fun families (the well-typed programs the other properties run) goes through all stages and code generators as well.".into(),
                assumptions: vec!["workers run on a 1 GiB stack; stack exhaustion is outside the property".into()],
            };
            finish(&meta, tier, started, rep, Map::new())
        }
        "C19" => {
            let rep = run_sharded(id, tier, &[]);
            let meta = CheckMeta {
                property: "C19",
                level: "exploration",
                rule: "fifteen scalable families (sequenced conditionals, nested conditionals, sequenced matches over a 2- and a 3-constructor type, chains of lets over matches, label-induced critical pairs at a 3-constructor type, conditionals inside match clauses, sequenced conditionals at a codata type, matches in call arguments, branching scrutinees / receivers / conditions, lets nested on the producer side at a two-destructor codata and a three-constructor data type) and thirty one-hole contexts (lets over if / match / call, clauses, closures, labels with and without branching bodies, enum-like types, a branching let directly followed by each statement kind) applied singly and in all 870 alternating ordered pairs, at every depth k = 1..12 (pairs ..24) (quick) / 1..16 (..32) (thorough) go through the real pipeline; printed size of the Core, focused, shrunk and linearized programs and instruction counts of the x86-64 and AArch64 files must satisfy size(k+1)/size(k) <= 1.5 for k >= 8 and size(kmax) <= 64 * source_size^2. Distinct = distinct (family, depth).".into(),
                assumptions: vec!["printed length stands for node count".into()],
            };
            finish(&meta, tier, started, rep, Map::new())
        }
        "C20" => {
            let rep = run_sharded(id, tier, &[]);
            let meta = CheckMeta {
                property: "C20",
                level: "exploration",
                rule: "io.c is compiled unmodified into a C harness: print_i64 and println_i64 are called on every value of a boundary set (all of [-300,300] quick / [-10^4,10^4] thorough; +-10^k, +-(10^k+-1) for k<=18; +-2^k, +-(2^k+-1) for k<=63; MIN, MAX) and the bytes written must equal the decimal text (plus newline), nothing else; echo programs of arity 0..5 are compiled by the real pipeline and run natively on every argument tuple over a value set containing values beyond 32 bits and both extremes (3 values quick / 6 values thorough per parameter), every wrong argument count 0..7 must be reported without running, the exit status must be the low 8 bits of the result; AArch64 arities 0..7 run on the emulator. Distinct = distinct (kind, value/tuple).".into(),
                assumptions: vec!["gcc/glibc of the sandbox; GNU as stands in for yasm; AArch64 entry checked on the emulator only".into()],
            };
            finish(&meta, tier, started, rep, Map::new())
        }
        "C13" => {
            let rep = run_sharded(id, tier, &[]);
            let meta = CheckMeta {
                property: "C13",
                level: "model_checking",
                rule: "every emulated execution of the linear AxCut families on x86-64 and AArch64 (prints with 0..22 live variables x kind patterns x printed position x newline, 0..5 / 0..7 entry arguments, every other family) runs under the calling-convention model: distinct sentinels in callee-saved registers compared at return, alignment checked at every call (and every SP-based access on AArch64), every caller-saved register, the flags, the link register and the stack below SP become undefined at each print call and an undefined value reaching a branch, address, jump target, print argument or the result is a violation.".into(),
                assumptions: vec!["System V x86-64 and AAPCS64 register classes as documented; the print runtime is modelled as an arbitrary conforming callee".into()],
            };
            finish(&meta, tier, started, rep, Map::new())
        }
        _ => {
            eprintln!("unknown property {id}");
            2
        }
    }
}

pub fn replay(id: &str, path: &str) -> i32 {
    let Ok(s) = std::fs::read_to_string(path) else {
        eprintln!("cannot read {path}");
        return 2;
    };
    let Ok(v) = serde_json::from_str::<serde_json::Value>(&s) else {
        eprintln!("replay file is not JSON");
        return 2;
    };
    let case = &v["case"];
    match case["kind"].as_str() {
        Some("axfam") => match codegen::replay(case) {
            Some((name, verdict)) => {
                println!("[{id}] replay {name}: {verdict:?}");
                match verdict {
                    crate::exec::Verdict::Violation(_) => {
                        println!("VIOLATION property={id} replay={path}");
                        1
                    }
                    crate::exec::Verdict::Machinery(_) => 2,
                    _ => 0,
                }
            }
            None => {
                eprintln!("case not found");
                2
            }
        },
        Some("fun") => match e2e::replay(case) {
            Ok(Some(msg)) => {
                println!("[{id}] replay: {msg}");
                println!("VIOLATION property={id} replay={path}");
                1
            }
            Ok(None) => {
                println!("[{id}] replay: executable behaves like the source");
                0
            }
            Err(e) => {
                eprintln!("replay failed: {e}");
                2
            }
        },
        Some("input") => match robust::replay(case) {
            Ok(Some(msg)) => {
                println!("[{id}] replay: {msg}");
                println!("VIOLATION property={id} replay={path}");
                1
            }
            Ok(None) => {
                println!("[{id}] replay: no crash");
                0
            }
            Err(e) => {
                eprintln!("replay failed: {e}");
                2
            }
        },
        Some("fmt") => match format::replay(case) {
            Ok(Some(msg)) => {
                println!("[{id}] replay: {msg}");
                println!("VIOLATION property={id} replay={path}");
                1
            }
            Ok(None) => {
                println!("[{id}] replay: no violation");
                0
            }
            Err(e) => {
                eprintln!("replay failed: {e}");
                2
            }
        },
        Some("asm-fun") => match asmcheck::replay(case) {
            Ok(Some(msg)) => {
                println!("[{id}] replay: {msg}");
                println!("VIOLATION property={id} replay={path}");
                1
            }
            Ok(None) => {
                println!("[{id}] replay: no violation");
                0
            }
            Err(e) => {
                eprintln!("replay failed: {e}");
                2
            }
        },
        Some("funstage") | Some("axnl") => match stages::replay(case) {
            Ok(Some(msg)) => {
                println!("[{id}] replay: {msg}");
                println!("VIOLATION property={id} replay={path}");
                1
            }
            Ok(None) => {
                println!("[{id}] replay: no violation");
                0
            }
            Err(e) => {
                eprintln!("replay failed: {e}");
                2
            }
        },
        Some("subst") => match subst::replay(case) {
            Ok(Some(msg)) => {
                println!("[{id}] replay: {msg}");
                println!("VIOLATION property={id} replay={path}");
                1
            }
            Ok(None) => {
                println!("[{id}] replay: configuration behaves as a simultaneous assignment");
                0
            }
            Err(e) => {
                eprintln!("replay failed: {e}");
                2
            }
        },
        Some("heapbfs") => match heapbfs::replay(case) {
            Ok(Some(msg)) => {
                println!("[{id}] replay: {msg}");
                println!("VIOLATION property={id} replay={path}");
                1
            }
            Ok(None) => {
                println!("[{id}] replay: history executes without violation");
                0
            }
            Err(e) => {
                eprintln!("replay failed: {e}");
                2
            }
        },
        Some(_) => {
            // generic replay: re-run the property's enumeration in this process (single shard) at
            // the recorded tier and look for the recorded case
            let tier = v["tier"].as_str().and_then(Tier::parse).unwrap_or(Tier::Quick);
            let ctx = WorkerCtx { tier, shard: 0, nshards: 1, seed: seed(), started: Instant::now(), budget_s: 3000.0 };
            let rep = run_worker(id, &ctx, &[]);
            match rep.violations.iter().find(|x| x.case == *case) {
                Some(x) => {
                    println!("[{id}] replay: {}: {}", x.sig, x.msg);
                    println!("VIOLATION property={id} replay={path}");
                    1
                }
                None => {
                    println!("[{id}] replay: the recorded case no longer violates the property");
                    0
                }
            }
        }
        None => {
            eprintln!("unknown replay kind");
            2
        }
    }
}
