//! C16: formatting never changes a program. For every parser-accepted text of G-TEXT and every
//! (width, indent) configuration: parse(print(ast)) == ast and print is idempotent.
use crate::framework::*;
use crate::generate::funlang::{Ty, T};
use crate::pipeline::guarded;
use fun::syntax::program::Program;
use printer::{Print, PrintCfg};
use serde_json::json;
use std::collections::HashSet;

fn v(s: &str) -> T {
    T::Var(s.to_string())
}
fn b(t: T) -> Box<T> {
    Box::new(t)
}

/// Every term form with "holes" (slots); `fill(i, t)` gives the form with slot i replaced.
fn forms() -> Vec<(String, usize, Box<dyn Fn(&[T]) -> T>)> {
    let mut f: Vec<(String, usize, Box<dyn Fn(&[T]) -> T>)> = Vec::new();
    f.push(("lit5".into(), 0, Box::new(|_| T::Lit(5))));
    f.push(("lit0".into(), 0, Box::new(|_| T::Lit(0))));
    f.push(("litneg".into(), 0, Box::new(|_| T::Lit(-3))));
    f.push(("var".into(), 0, Box::new(|_| v("x"))));
    for (n, o) in [("add", "+"), ("sub", "-"), ("mul", "*"), ("div", "/"), ("rem", "%")] {
        f.push((format!("op_{n}"), 2, Box::new(move |s| T::Op(b(s[0].clone()), o, b(s[1].clone())))));
    }
    for (n, c) in [("eq", "=="), ("ne", "!="), ("lt", "<"), ("le", "<="), ("gt", ">"), ("ge", ">=")] {
        f.push((format!("if_{n}"), 4, Box::new(move |s| T::If(c, b(s[0].clone()), Some(b(s[1].clone())), b(s[2].clone()), b(s[3].clone())))));
        f.push((format!("ifz_{n}"), 3, Box::new(move |s| T::If(c, b(s[0].clone()), None, b(s[1].clone()), b(s[2].clone())))));
        f.push((format!("ifzl_{n}"), 3, Box::new(move |s| T::IfZeroLeft(c, b(s[0].clone()), b(s[1].clone()), b(s[2].clone())))));
    }
    f.push(("let".into(), 2, Box::new(|s| T::Let("y".into(), Ty::Int, b(s[0].clone()), b(s[1].clone())))));
    f.push(("let_decl".into(), 2, Box::new(|s| T::Let("y".into(), Ty::List, b(s[0].clone()), b(s[1].clone())))));
    f.push(("call0".into(), 0, Box::new(|_| T::Call("f".into(), vec![]))));
    f.push(("call2".into(), 2, Box::new(|s| T::Call("f".into(), vec![s[0].clone(), s[1].clone()]))));
    // (argument lists of length one: the parentheses of the list and those of a parenthesized
    // argument are adjacent)
    f.push(("call1".into(), 1, Box::new(|s| T::Call("f".into(), vec![s[0].clone()]))));
    f.push(("ctor1".into(), 1, Box::new(|s| T::Ctor("T1".into(), vec![s[0].clone()]))));
    f.push(("dtor1".into(), 2, Box::new(|s| T::Dtor(b(s[0].clone()), "ap".into(), "[i64, i64]", vec![s[1].clone()]))));
    f.push(("ctor0".into(), 0, Box::new(|_| T::Ctor("Nil".into(), vec![]))));
    f.push(("ctor2".into(), 2, Box::new(|s| T::Ctor("Cons".into(), vec![s[0].clone(), s[1].clone()]))));
    f.push(("case0".into(), 1, Box::new(|s| T::Case(b(s[0].clone()), "", vec![]))));
    f.push(("case1".into(), 2, Box::new(|s| T::Case(b(s[0].clone()), "[i64]", vec![("Nil".into(), vec![], s[1].clone())]))));
    f.push((
        "case2".into(),
        3,
        Box::new(|s| T::Case(b(s[0].clone()), "[i64, List[i64]]", vec![("Nil".into(), vec![], s[1].clone()), ("Cons".into(), vec!["h".into(), "t".into()], s[2].clone())])),
    ));
    f.push((
        "case3".into(),
        4,
        Box::new(|s| {
            T::Case(
                b(s[0].clone()),
                "",
                vec![("T0".into(), vec![], s[1].clone()), ("T1".into(), vec!["a".into()], s[2].clone()), ("T2".into(), vec!["a".into(), "c".into()], s[3].clone())],
            )
        }),
    ));
    f.push(("dtor0".into(), 1, Box::new(|s| T::Dtor(b(s[0].clone()), "hd".into(), "[i64]", vec![]))));
    f.push(("dtor_plain".into(), 1, Box::new(|s| T::Dtor(b(s[0].clone()), "m0".into(), "", vec![]))));
    f.push(("dtor2".into(), 3, Box::new(|s| T::Dtor(b(s[0].clone()), "ap".into(), "[i64, i64]", vec![s[1].clone(), s[2].clone()]))));
    f.push(("new0".into(), 0, Box::new(|_| T::New(vec![]))));
    f.push(("new1".into(), 1, Box::new(|s| T::New(vec![("ap".into(), vec!["q".into()], s[0].clone())]))));
    f.push(("new2".into(), 2, Box::new(|s| T::New(vec![("hd".into(), vec![], s[0].clone()), ("tl".into(), vec![], s[1].clone())]))));
    f.push(("label".into(), 1, Box::new(|s| T::Label("a".into(), b(s[0].clone())))));
    f.push(("goto".into(), 1, Box::new(|s| T::Goto("a".into(), b(s[0].clone())))));
    f.push(("exit".into(), 1, Box::new(|s| T::Exit(b(s[0].clone())))));
    f.push(("print".into(), 2, Box::new(|s| T::Print(false, b(s[0].clone()), b(s[1].clone())))));
    f.push(("println".into(), 2, Box::new(|s| T::Print(true, b(s[0].clone()), b(s[1].clone())))));
    f.push(("paren".into(), 1, Box::new(|s| T::Paren(b(s[0].clone())))));
    f
}

fn atom(i: usize) -> T {
    [v("x"), T::Lit(1), v("zz")][i % 3].clone()
}

/// G-TEXT: every form nested in every slot of every form (depth 2; depth 3 when `deep`).
pub fn texts(deep: bool, mut f: impl FnMut(String, String)) {
    let fs = forms();
    let decls = "data List[A] { Nil, Cons(x: A, xs: List[A]) }\ndata Unit { }\ndata Tri { T0, T1(a: i64), T2(a: i64, b: i64) }\ncodata Fun[A, B] { ap(x: A, k :cns B): B }\ncodata Obj { m0: i64 }\ncodata Empty { }\ncodata Stream[A] { hd: A, tl: Stream[A] }\n";
    let wrap = |t: &T| format!("{decls}def f(x: i64, zz: List[i64], a :cns i64): i64 {{ {} }}\n", t.render());
    let build = |fi: usize, fillers: &dyn Fn(usize) -> T| -> T {
        let (_, n, mk) = &fs[fi];
        let slots: Vec<T> = (0..*n).map(|i| fillers(i)).collect();
        mk(&slots)
    };
    for (oi, (oname, on, _)) in fs.iter().enumerate() {
        if *on == 0 {
            f(format!("d1/{oname}"), wrap(&build(oi, &|i| atom(i))));
            continue;
        }
        for slot in 0..*on {
            for (ii, (iname, inn, _)) in fs.iter().enumerate() {
                let inner = build(ii, &|i| atom(i + 1));
                let t = build(oi, &|i| if i == slot { inner.clone() } else { atom(i) });
                f(format!("d2/{oname}.{slot}/{iname}"), wrap(&t));
                // the inner term inside one, two and three pairs of parentheses (redundant
                // parentheses around non-atomic terms in every operand position)
                for depth in 1..=3usize {
                    let mut w = inner.clone();
                    for _ in 0..depth {
                        w = T::Paren(b(w));
                    }
                    let t = build(oi, &|i| if i == slot { w.clone() } else { atom(i) });
                    f(format!("d2p{depth}/{oname}.{slot}/{iname}"), wrap(&t));
                }
                if deep && *inn > 0 {
                    for slot2 in 0..*inn {
                        for (ji, (jname, _, _)) in fs.iter().enumerate() {
                            let inner2 = build(ji, &|i| atom(i + 2));
                            let mid = build(ii, &|i| if i == slot2 { inner2.clone() } else { atom(i + 1) });
                            let t = build(oi, &|i| if i == slot { mid.clone() } else { atom(i) });
                            f(format!("d3/{oname}.{slot}/{iname}.{slot2}/{jname}"), wrap(&t));
                        }
                    }
                }
            }
        }
    }
    // literal and comparison spellings
    let cmps = ["==", "!=", "<", "<=", ">", ">="];
    for c in cmps {
        for (k, body) in [
            ("neg0_r", format!("if x {c} -0 {{ 1 }} else {{ 2 }}")),
            ("neg0_l", format!("if -0 {c} x {{ 1 }} else {{ 2 }}")),
            ("zero_nospace", format!("if x {c}0 {{ 1 }} else {{ 2 }}")),
            ("zero_left_nospace", format!("if 0{c} x {{ 1 }} else {{ 2 }}")),
            ("neg_r", format!("if x {c} -1 {{ 1 }} else {{ 2 }}")),
            ("zero_paren", format!("if x {c} (0) {{ 1 }} else {{ 2 }}")),
            ("zero_both", format!("if 0 {c} 0 {{ 1 }} else {{ 2 }}")),
            ("lit_10", format!("if x {c} 10 {{ 1 }} else {{ 2 }}")),
            ("lit_01", format!("if x {c} 0 + 1 {{ 1 }} else {{ 2 }}")),
        ] {
            f(format!("cmp/{k}/{c}"), format!("{decls}def f(x: i64): i64 {{ {body} }}\n"));
        }
    }
    for (k, body) in [
        ("neg_chain", "x - -1"),
        ("neg_first", "-1 - x"),
        ("neg_paren", "(-1) * (-2)"),
        ("max", "9223372036854775807 + x"),
        ("deep_paren", "((((x))))"),
        ("dtor_chain", "zz.tl[i64].tl[i64].hd[i64]"),
        ("dtor_on_call", "g(x).ap[i64, i64](1, a)"),
        ("case_on_case", "zz.case[i64] { Nil => Nil, Cons(h, t) => t }.case[i64] { Nil => 0, Cons(h, t) => h }"),
        ("case_on_new", "new { hd => 1, tl => zz }.hd[i64]"),
        ("print_chain", "print_i64(1); println_i64(2); print_i64(3); 4"),
        ("let_chain", "let p: i64 = 1; let q: Fun[i64, List[i64]] = new { ap(u, k) => Nil }; let r: List[List[i64]] = Nil; p"),
        ("comment", "x // trailing comment\n"),
    ] {
        f(format!("misc/{k}"), format!("{decls}def g(x: i64): Fun[i64, i64] {{ new {{ ap(u, k) => u }} }}\ndef f(x: i64, zz: Stream[i64], a :cns i64): i64 {{ {body} }}\n"));
    }
    // identifier shapes: every class of names (variables, covariables and labels, definitions,
    // destructors, declaration parameters, types, type parameters, constructors) written in every
    // shape the lexer admits (camel case, underscores inside and at the end, digits, keyword
    // prefixes), one class at a time and all classes together
    let shapes: [(&str, fn(&str) -> String); 9] = [
        ("plain", |b| b.to_string()),
        ("camel", |b| format!("{b}Bc")),
        ("snake", |b| format!("{b}_b")),
        ("digit", |b| format!("{b}1")),
        ("trailing", |b| format!("{b}_")),
        ("multi", |b| format!("{b}__1_")),
        ("mixed", |b| format!("{b}B_9z")),
        ("keyword", |b| if b.chars().next().unwrap().is_uppercase() { format!("{b}i64") } else { format!("new{b}") }),
        ("keyword2", |b| if b.chars().next().unwrap().is_uppercase() { format!("{b}_case") } else { format!("cns{b}") }),
    ];
    let classes: [(&str, &[&str]); 8] = [
        ("var", &["x", "y", "o", "u", "w", "h", "t"]),
        ("covar", &["k", "l"]),
        ("def", &["f", "g"]),
        ("dtor", &["d", "e"]),
        ("declparam", &["p", "q"]),
        ("type", &["T", "C"]),
        ("typaram", &["P"]),
        ("ctor", &["K", "L"]),
    ];
    let template = "data {T}[{P}] { {K}, {L}({p}: {P}, {q}: {T}[{P}]) }
codata {C}[{P}] { {d}: {P}, {e}({p}: {P}, {q} :cns i64): {C}[{P}] }
        def {f}({x}: i64, {k} :cns i64): i64 { let {y}: {T}[i64] = {L}({x}, {K}); let {o}: {C}[i64] = new { {d} => {x}, {e}({u}, {w}) => {g}({u}) };         label {l} { {y}.case[i64] { {K} => goto {l} ({o}.{d}[i64]), {L}({h}, {t}) => {o}.{e}[i64]({h}, {k}).{d}[i64] } } }
        def {g}({x}: i64): {C}[i64] { new { {d} => {x}, {e}({u}, {w}) => {g}({u}) } }
";
    for (sname, shape) in shapes.iter() {
        for ci in 0..=classes.len() {
            let mut text = template.to_string();
            for (cj, (_, bases)) in classes.iter().enumerate() {
                for base in bases.iter() {
                    let name = if ci == classes.len() || ci == cj { shape(base) } else { base.to_string() };
                    text = text.replace(&format!("{{{base}}}"), &name);
                }
            }
            let cname = if ci == classes.len() { "all" } else { classes[ci].0 };
            f(format!("names/{cname}/{sname}"), text);
        }
    }
    // declaration forms
    for (k, d) in [
        ("data0", "data E { }"),
        ("data_params", "data P[A, B, C] { MkP(a: A, b: B, c: C), Other }"),
        ("codata_params", "codata Q[A] { q1: A, q2(x: A, y: i64): Q[A], q3(k :cns A): i64 }"),
        ("def_noparams", "def c(): i64 { 1 }"),
        ("def_cns", "def d(k :cns i64, l :  cns List[i64]): i64 { goto k (1) }"),
        ("two_defs", "def c(): i64 { 1 }\n\n\ndef e(x: i64): i64 { c() }"),
    ] {
        f(format!("decl/{k}"), format!("data List[A] {{ Nil, Cons(x: A, xs: List[A]) }}\n{d}\n"));
    }
}

fn configs(thorough: bool) -> Vec<PrintCfg> {
    let widths: Vec<usize> = if thorough { (1..=200).collect() } else { (1..=60).chain([70, 80, 90, 100, 120, 160, 200]).collect() };
    let indents: Vec<isize> = if thorough { (0..=8).collect() } else { vec![0, 1, 2, 4, 8] };
    let mut v = Vec::new();
    for w in &widths {
        for i in &indents {
            v.push(PrintCfg { width: *w, allow_linebreaks: true, latex: false, omit_decl_sep: false, indent: *i });
        }
    }
    v
}

pub fn check_text(name: &str, src: &str, cfgs: &[PrintCfg], rep: &mut Report) {
    let ast: Program = match guarded("parse", || fun::parser::parse_module(src)) {
        Ok(Ok(p)) => p,
        Ok(Err(_)) => {
            rep.count("texts_not_accepted_by_the_parser", 1);
            return;
        }
        Err(_) => {
            rep.count("parser_panics_seen", 1);
            return;
        }
    };
    rep.count("programs", 1);
    rep.distinct.push(hash64(&src));
    let mut seen: HashSet<String> = HashSet::new();
    for cfg in cfgs {
        rep.count("cases", 1);
        rep.count("evaluations", 1);
        let text = match guarded("print", || ast.print_to_string(Some(cfg))) {
            Ok(t) => t,
            Err(e) => {
                rep.violation("print-panic".to_string(), format!("{name}: printing at width {} indent {} panics: {e:?}", cfg.width, cfg.indent), json!({"kind": "fmt", "name": name, "source": src, "width": cfg.width, "indent": cfg.indent}));
                return;
            }
        };
        if !seen.insert(text.clone()) {
            continue;
        }
        rep.count("distinct_renderings", 1);
        let cj = json!({"kind": "fmt", "name": name, "source": src, "width": cfg.width, "indent": cfg.indent});
        let fam = name.split('/').take(2).collect::<Vec<_>>().join("/");
        match guarded("parse", || fun::parser::parse_module(&text)) {
            Ok(Ok(again)) => {
                if again != ast {
                    rep.outcomes.insert("violation/tree-changed".into());
                    rep.violation(
                        format!("tree-changed/{}", fam.split('.').next().unwrap_or(&fam)),
                        format!("{name}: formatted at width {} indent {} the program parses to a different tree; formatted text: {:?}", cfg.width, cfg.indent, text.chars().take(400).collect::<String>()),
                        cj,
                    );
                    return;
                }
                let text2 = again.print_to_string(Some(cfg));
                if text2 != text {
                    rep.violation(format!("not-idempotent/{fam}"), format!("{name}: printing the re-parsed program at width {} indent {} gives a different text", cfg.width, cfg.indent), cj);
                    return;
                }
                rep.count("roundtrips_ok", 1);
            }
            Ok(Err(e)) => {
                rep.outcomes.insert("violation/unparsable".into());
                rep.violation(
                    format!("unparsable/{}", fam.split('.').next().unwrap_or(&fam)),
                    format!("{name}: formatted at width {} indent {} the program no longer parses ({}); formatted text: {:?}", cfg.width, cfg.indent, format!("{e:?}").chars().take(120).collect::<String>(), text.chars().take(400).collect::<String>()),
                    cj,
                );
                return;
            }
            Err(e) => {
                rep.violation("parse-panic".to_string(), format!("{name}: {e:?}"), cj);
                return;
            }
        }
    }
    rep.outcomes.insert("ok".into());
}

pub fn worker(ctx: &WorkerCtx) -> Report {
    let mut rep = Report::default();
    let cfgs = configs(ctx.tier.thorough());
    // depth-3 texts (thorough only, ~400 k of them) are rendered under the quick configuration set
    let cfgs_deep = configs(false);
    // the parenthesised variants of the depth-2 texts under a handful of configurations (redundant
    // parentheses do not interact with the layout)
    let cfgs_paren: Vec<PrintCfg> = [(1usize, 0isize), (20, 2), (80, 4), (200, 8)].iter().map(|(w, i)| PrintCfg { width: *w, allow_linebreaks: true, latex: false, omit_decl_sep: false, indent: *i }).collect();
    let mut idx = 0u64;
    let mut skipped_after_budget = 0u64;
    texts(ctx.tier.thorough(), |name, src| {
        idx += 1;
        if ctx.mine(idx) {
            if ctx.out_of_time() {
                skipped_after_budget += 1;
                return;
            }
            check_text(&name, &src, if name.starts_with("d3/") { &cfgs_deep } else if name.starts_with("d2p") { &cfgs_paren } else { &cfgs }, &mut rep);
        }
    });
    if skipped_after_budget > 0 {
        rep.capped = Some(format!("time budget: {skipped_after_budget} of this worker's texts (the last ones of the enumeration, depth 3) were not rendered"));
    }
    // the repository's own programs
    let mut files: Vec<std::path::PathBuf> = Vec::new();
    for base in [format!("{}/examples", repo_dir()), format!("{}/testsuite", repo_dir()), format!("{}/benchmarks", repo_dir())] {
        collect_sc(std::path::Path::new(&base), &mut files);
    }
    files.sort();
    for p in files {
        idx += 1;
        if ctx.mine(idx) {
            if let Ok(src) = std::fs::read_to_string(&p) {
                check_text(&format!("repo/{}", p.file_name().unwrap().to_string_lossy()), &src, &cfgs, &mut rep);
            }
        }
    }
    // the in-place path of `scc fmt` through the real binary, on a slice
    if ctx.shard == 0 {
        inplace_slice(&mut rep);
    }
    rep.sample(json!({"configurations": cfgs.len(), "example": "d2/op_add.0/let at width 7 indent 2"}));
    rep
}

fn collect_sc(dir: &std::path::Path, out: &mut Vec<std::path::PathBuf>) {
    if let Ok(rd) = std::fs::read_dir(dir) {
        for e in rd.flatten() {
            let p = e.path();
            if p.is_dir() {
                collect_sc(&p, out);
            } else if p.extension().map(|x| x == "sc").unwrap_or(false) {
                out.push(p);
            }
        }
    }
}

fn scc_binary() -> Option<std::path::PathBuf> {
    let p = scc_path();
    if p.exists() { Some(p) } else { None }
}

fn inplace_slice(rep: &mut Report) {
    let Some(scc) = scc_binary() else {
        rep.notes.push("scc binary not built; the in-place path was not exercised in this run".into());
        return;
    };
    let dir = scratch_dir().join(format!("fmt-{}", std::process::id()));
    let _ = std::fs::create_dir_all(&dir);
    let mut n = 0;
    texts(false, |name, src| {
        n += 1;
        if n % 97 != 0 {
            return;
        }
        let Ok(Ok(ast)) = guarded("parse", || fun::parser::parse_module(&src)) else { return };
        let file = dir.join("t.sc");
        std::fs::write(&file, &src).unwrap();
        for (w, i) in [(20usize, 2isize), (80, 4)] {
            let out = std::process::Command::new(&scc).arg("fmt").arg("--inplace").arg("--width").arg(w.to_string()).arg("--indent").arg(i.to_string()).arg(&file).output();
            rep.count("cases", 1);
            rep.count("inplace_runs", 1);
            match out {
                Ok(o) if o.status.success() => {
                    let text = std::fs::read_to_string(&file).unwrap_or_default();
                    match guarded("parse", || fun::parser::parse_module(&text)) {
                        Ok(Ok(again)) if again == ast => rep.count("inplace_ok", 1),
                        _ => rep.violation("inplace".to_string(), format!("{name}: `scc fmt --inplace --width {w} --indent {i}` changed or broke the file"), json!({"kind": "fmt", "name": name, "source": src, "width": w, "indent": i})),
                    }
                }
                Ok(o) => rep.violation("inplace-exit".to_string(), format!("{name}: scc fmt exited with {:?}", o.status.code()), json!({"kind": "fmt", "name": name, "source": src, "width": w, "indent": i})),
                Err(e) => rep.machinery(format!("scc: {e}")),
            }
        }
    });
    let _ = std::fs::remove_dir_all(&dir);
}

pub fn replay(case: &serde_json::Value) -> Result<Option<String>, String> {
    let src = case["source"].as_str().ok_or("source")?;
    let cfg = PrintCfg {
        width: case["width"].as_u64().unwrap_or(80) as usize,
        allow_linebreaks: true,
        latex: false,
        omit_decl_sep: false,
        indent: case["indent"].as_i64().unwrap_or(4) as isize,
    };
    let mut rep = Report::default();
    check_text(case["name"].as_str().unwrap_or("replay"), src, &[cfg], &mut rep);
    if let Some(v) = rep.violations.first() {
        return Ok(Some(format!("{}: {}", v.sig, v.msg)));
    }
    Ok(None)
}
