//! Thin wrappers around the repository's own pipeline stages (the same calls `driver` makes).
use printer::Print;
use std::panic::{catch_unwind, AssertUnwindSafe};

pub type FunProg = fun::syntax::program::CheckedProgram;
pub type CoreProg = core_lang::syntax::Prog;
pub type FsProg = core_lang::syntax::program::FsProg;
pub type AxProg = axcut::syntax::Prog;

#[derive(Debug, Clone)]
pub enum StageError {
    Parse(String),
    Check(String),
    Panic { stage: &'static str, msg: String },
}

pub fn install_quiet_panic_hook() {
    std::panic::set_hook(Box::new(|_| {}));
}

pub fn panic_msg(e: Box<dyn std::any::Any + Send>) -> String {
    if let Some(s) = e.downcast_ref::<&str>() {
        s.to_string()
    } else if let Some(s) = e.downcast_ref::<String>() {
        s.clone()
    } else {
        "<non-string panic>".to_string()
    }
}

pub fn guarded<T>(stage: &'static str, f: impl FnOnce() -> T) -> Result<T, StageError> {
    catch_unwind(AssertUnwindSafe(f)).map_err(|e| StageError::Panic { stage, msg: panic_msg(e) })
}

pub fn parse(src: &str) -> Result<fun::syntax::program::Program, StageError> {
    match guarded("parse", || fun::parser::parse_module(src)) {
        Ok(Ok(p)) => Ok(p),
        Ok(Err(e)) => Err(StageError::Parse(format!("{e:?}"))),
        Err(e) => Err(e),
    }
}

pub fn check(p: fun::syntax::program::Program) -> Result<FunProg, StageError> {
    match guarded("check", || p.check()) {
        Ok(Ok(p)) => Ok(p),
        Ok(Err(e)) => Err(StageError::Check(format!("{e:?}"))),
        Err(e) => Err(e),
    }
}

pub fn parse_check(src: &str) -> Result<FunProg, StageError> {
    check(parse(src)?)
}

pub fn to_core(p: FunProg) -> Result<CoreProg, StageError> {
    guarded("fun2core", || fun2core::program::compile_prog(p))
}
pub fn focus(p: CoreProg) -> Result<FsProg, StageError> {
    guarded("focus", || p.focus())
}
pub fn shrink(p: FsProg) -> Result<AxProg, StageError> {
    guarded("shrink", || core2axcut::program::shrink_prog(p))
}
pub fn linearize(mut p: AxProg) -> Result<AxProg, StageError> {
    guarded("linearize", move || {
        p.linearize();
        p
    })
}

#[derive(Debug, Clone, Copy, PartialEq, Eq, Hash, PartialOrd, Ord)]
pub enum Arch {
    X86,
    A64,
    Rv64,
}
impl Arch {
    pub fn name(self) -> &'static str {
        match self {
            Arch::X86 => "x86_64",
            Arch::A64 => "aarch64",
            Arch::Rv64 => "rv64",
        }
    }
    pub fn all() -> [Arch; 3] {
        [Arch::X86, Arch::A64, Arch::Rv64]
    }
}

/// Generates the complete routine text for `arch` exactly as the driver would write it to the
/// assembly file. Returns (text, number_of_arguments).
pub fn codegen(p: AxProg, arch: Arch) -> Result<(String, usize), StageError> {
    use axcut2backend::coder::compile;
    match arch {
        Arch::X86 => guarded("codegen-x86_64", || {
            let code = compile::<axcut2x86_64::Backend, _, _, _>(p);
            let n = code.number_of_arguments;
            (axcut2x86_64::into_routine::into_x86_64_routine(code).print_to_string(None), n)
        }),
        Arch::A64 => guarded("codegen-aarch64", || {
            let code = compile::<axcut2aarch64::Backend, _, _, _>(p);
            let n = code.number_of_arguments;
            (axcut2aarch64::into_routine::into_aarch64_routine(code).print_to_string(None), n)
        }),
        Arch::Rv64 => guarded("codegen-rv64", || {
            let code = compile::<axcut2rv64::Backend, _, _, _>(p);
            let n = code.number_of_arguments;
            (axcut2rv64::into_routine::into_rv64_routine(code).print_to_string(None), n)
        }),
    }
}

pub struct Stages {
    pub fun: FunProg,
    pub core: CoreProg,
    pub focused: FsProg,
    pub shrunk: AxProg,
    pub linear: AxProg,
}

pub fn all_stages(src: &str) -> Result<Stages, StageError> {
    let fun = parse_check(src)?;
    let core = to_core(fun.clone())?;
    let focused = focus(core.clone())?;
    let shrunk = shrink(focused.clone())?;
    let linear = linearize(shrunk.clone())?;
    Ok(Stages { fun, core, focused, shrunk, linear })
}
