//! asmlint (C14): static well-formedness of an emitted assembly file for its assembler — labels,
//! operand ranges of every instruction form, jump-table entry form. Only what the target assembler
//! would reject or silently mis-encode is reported (DESIGN §3.4).
use crate::emu::{a64, rv64, x86, ArchInfo};
use crate::pipeline::Arch;
use std::collections::{HashMap, HashSet};

#[derive(Debug, Clone)]
pub struct Problem {
    pub kind: &'static str,
    pub msg: String,
}

fn p(kind: &'static str, msg: String) -> Problem {
    Problem { kind, msg }
}

pub struct LintStats {
    pub instructions: u64,
    pub labels: u64,
    pub tables: u64,
}

/// A symbol every assembler in question accepts: `[A-Za-z_.$][A-Za-z0-9_.$]*`.
fn well_formed_symbol(l: &str) -> bool {
    let mut cs = l.chars();
    match cs.next() {
        Some(c) if c.is_ascii_alphabetic() || c == '_' || c == '.' || c == '$' => {}
        _ => return false,
    }
    cs.all(|c| c.is_ascii_alphanumeric() || c == '_' || c == '.' || c == '$')
}

fn check_labels(defined: &HashMap<String, usize>, dups: &[String], referenced: &[(String, String)], externs: &[String], out: &mut Vec<Problem>) {
    let mut bad: Vec<&String> = defined.keys().filter(|l| !well_formed_symbol(l)).collect();
    bad.sort();
    for l in bad.into_iter().take(3) {
        out.push(p("ill-formed-label", format!("label `{l}` is not a symbol the assembler accepts")));
    }
    for d in dups {
        out.push(p("duplicate-label", format!("label `{d}` is defined more than once")));
    }
    for (l, at) in referenced {
        if !defined.contains_key(l) && !externs.contains(l) {
            out.push(p("undefined-label", format!("`{at}` references undefined label `{l}`")));
        }
    }
    for e in externs {
        if defined.contains_key(e) {
            out.push(p("runtime-symbol-clash", format!("label `{e}` collides with a runtime symbol declared extern")));
        }
    }
}

pub fn lint(arch: Arch, text: &str, info: &ArchInfo) -> Result<(Vec<Problem>, LintStats), String> {
    match arch {
        Arch::X86 => lint_x86(text, info),
        Arch::A64 => lint_a64(text, info),
        Arch::Rv64 => lint_rv(text, info),
    }
}

fn lint_x86(text: &str, info: &ArchInfo) -> Result<(Vec<Problem>, LintStats), String> {
    let prog = x86::Program::parse(text)?;
    let mut out = Vec::new();
    let mut refs = Vec::new();
    let mut lea_targets: HashSet<String> = HashSet::new();
    let fits32 = |i: i64| i32::try_from(i).is_ok();
    let mut n = 0;
    for (insn, line) in prog.insns.iter().zip(&prog.text) {
        use x86::{Alu, Insn, Opnd};
        match insn {
            Insn::Marker(_) => continue,
            Insn::Alu(op, dst, src) => {
                if let Opnd::Imm(i) = src {
                    let wide_ok = *op == Alu::Mov && matches!(dst, Opnd::Reg(_));
                    if !wide_ok && !fits32(*i) {
                        out.push(p("immediate-range", format!("`{line}`: immediate does not fit the sign-extended 32-bit field of this form")));
                    }
                }
                for o in [dst, src] {
                    if let Opnd::Mem(_, d) = o {
                        if !fits32(*d) {
                            out.push(p("offset-range", format!("`{line}`: displacement does not fit 32 bits")));
                        }
                    }
                }
                if matches!(dst, Opnd::Mem(..)) && matches!(src, Opnd::Mem(..)) {
                    out.push(p("operand-form", format!("`{line}`: two memory operands")));
                }
                if *op == Alu::Imul && !matches!(dst, Opnd::Reg(_)) {
                    out.push(p("operand-form", format!("`{line}`: imul has no memory-destination form")));
                }
                if matches!(dst, Opnd::Imm(_)) {
                    out.push(p("operand-form", format!("`{line}`: immediate destination")));
                }
            }
            Insn::Idiv(o) => {
                if matches!(o, Opnd::Imm(_)) {
                    out.push(p("operand-form", format!("`{line}`: idiv has no immediate form")));
                }
            }
            Insn::JmpLabel(l, _) | Insn::Jcc(_, l) | Insn::Call(l) => refs.push((l.clone(), line.clone())),
            Insn::Lea(_, l) => {
                refs.push((l.clone(), line.clone()));
                lea_targets.insert(l.clone());
            }
            _ => {}
        }
        n += 1;
    }
    check_labels(&prog.labels, &prog.dup_labels, &refs, &prog.externs, &mut out);
    // jump tables: the instructions at a label whose address is taken; if they start with two or
    // more jumps, these are table entries and must be fixed-size `jmp near` of jump_length(1) bytes
    let mut tables = 0;
    for l in &lea_targets {
        let Some(start) = prog.labels.get(l) else { continue };
        let mut i = *start;
        let mut entries = Vec::new();
        while i < prog.insns.len() {
            match &prog.insns[i] {
                x86::Insn::JmpLabel(_, near) => entries.push((*near, prog.text[i].clone())),
                x86::Insn::Marker(_) => {}
                _ => break,
            }
            // stop at the next label
            if prog.labels.values().any(|v| *v == i + 1) {
                break;
            }
            i += 1;
        }
        if entries.len() >= 2 {
            tables += 1;
            for (near, line) in &entries {
                if !*near {
                    out.push(p("jump-table-stride", format!("table `{l}`: entry `{line}` is not a fixed-size `jmp near`, the assembler may choose a 2-byte encoding")));
                }
            }
            if info.jump_length_1 != 5 {
                out.push(p("jump-table-stride", format!("table `{l}`: tag arithmetic assumes {} bytes per entry, `jmp near` is 5 bytes", info.jump_length_1)));
            }
        }
    }
    Ok((out, LintStats { instructions: n, labels: prog.labels.len() as u64, tables }))
}

fn lint_a64(text: &str, info: &ArchInfo) -> Result<(Vec<Problem>, LintStats), String> {
    let prog = a64::Program::parse(text)?;
    let mut out = Vec::new();
    let mut refs = Vec::new();
    let mut adr_targets: Vec<(String, usize)> = Vec::new();
    // real instruction numbers (markers occupy no space)
    let mut real_index = Vec::with_capacity(prog.insns.len() + 1);
    let mut k = 0i64;
    for insn in &prog.insns {
        real_index.push(k);
        if !matches!(insn, a64::Insn::Marker(_)) {
            k += 1;
        }
    }
    real_index.push(k);
    let dist = |from: usize, label: &str| -> Option<i64> { prog.labels.get(label).map(|t| (real_index[*t] - real_index[from]) * 4) };
    let imm12 = |i: i64| {
        let m = i.unsigned_abs();
        m < 4096 || (m % 4096 == 0 && m < (4096 << 12))
    };
    let mut n = 0;
    for (idx, (insn, line)) in prog.insns.iter().zip(&prog.text).enumerate() {
        use a64::Insn::*;
        match insn {
            Marker(_) => continue,
            AddI(_, _, i) | SubI(_, _, i) => {
                if !imm12(*i) {
                    out.push(p("immediate-range", format!("`{line}`: immediate does not fit imm12 (optionally shifted by 12)")));
                }
            }
            CmpI(_, i) => {
                if !imm12(*i) {
                    out.push(p("immediate-range", format!("`{line}`: immediate does not fit imm12")));
                }
            }
            Movz(_, i, s) | Movn(_, i, s) | Movk(_, i, s) => {
                if !(0..=0xFFFF).contains(i) {
                    out.push(p("immediate-range", format!("`{line}`: immediate does not fit 16 bits")));
                }
                if ![0, 16, 32, 48].contains(s) {
                    out.push(p("shift-range", format!("`{line}`: shift must be 0, 16, 32 or 48")));
                }
            }
            Ldr(_, _, off) | Str(_, _, off) => {
                let scaled = *off >= 0 && *off <= 32760 && *off % 8 == 0;
                let unscaled = (-256..=255).contains(off);
                if !scaled && !unscaled {
                    out.push(p("offset-range", format!("`{line}`: offset fits neither the scaled 12-bit nor the unscaled 9-bit form")));
                }
            }
            LdpPost(_, _, _, off) | StpPre(_, _, _, off) => {
                if !(*off >= -512 && *off <= 504 && *off % 8 == 0) {
                    out.push(p("offset-range", format!("`{line}`: pair offset does not fit the scaled 7-bit field")));
                }
            }
            B(l) | Bl(l) => {
                refs.push((l.clone(), line.clone()));
                if let Some(d) = dist(idx, l) {
                    if d.abs() >= 128 << 20 {
                        out.push(p("branch-range", format!("`{line}`: target is {d} bytes away (limit 128 MiB)")));
                    }
                }
            }
            Bcc(_, l) => {
                refs.push((l.clone(), line.clone()));
                if let Some(d) = dist(idx, l) {
                    if d.abs() >= 1 << 20 {
                        out.push(p("branch-range", format!("`{line}`: target is {d} bytes away (limit 1 MiB)")));
                    }
                }
            }
            Adr(_, l) => {
                refs.push((l.clone(), line.clone()));
                adr_targets.push((l.clone(), idx));
                if let Some(d) = dist(idx, l) {
                    if d.abs() >= 1 << 20 {
                        out.push(p("branch-range", format!("`{line}`: label is {d} bytes away (ADR reaches 1 MiB)")));
                    }
                }
            }
            _ => {}
        }
        n += 1;
    }
    let externs = vec!["print_i64".to_string(), "println_i64".to_string()];
    let mut real_externs = Vec::new();
    for (l, _) in &refs {
        if externs.contains(l) && !real_externs.contains(l) {
            real_externs.push(l.clone());
        }
    }
    check_labels(&prog.labels, &prog.dup_labels, &refs, &externs, &mut out);
    let mut tables = 0;
    for (l, _) in &adr_targets {
        let Some(start) = prog.labels.get(l) else { continue };
        let mut i = *start;
        let mut entries = 0;
        while i < prog.insns.len() {
            match &prog.insns[i] {
                a64::Insn::B(_) => entries += 1,
                a64::Insn::Marker(_) => {}
                _ => break,
            }
            if prog.labels.values().any(|v| *v == i + 1) {
                break;
            }
            i += 1;
        }
        if entries >= 2 {
            tables += 1;
            if info.jump_length_1 != 4 {
                out.push(p("jump-table-stride", format!("table `{l}`: tag arithmetic assumes {} bytes per entry, a branch is 4 bytes", info.jump_length_1)));
            }
        }
    }
    Ok((out, LintStats { instructions: n, labels: prog.labels.len() as u64, tables }))
}

fn lint_rv(text: &str, info: &ArchInfo) -> Result<(Vec<Problem>, LintStats), String> {
    let prog = rv64::Program::parse(text)?;
    let mut out = Vec::new();
    let mut refs = Vec::new();
    let mut la_targets = Vec::new();
    let fits12 = |i: i64| (-2048..=2047).contains(&i);
    let mut n = 0;
    for (insn, line) in prog.insns.iter().zip(&prog.text) {
        use rv64::Insn::*;
        match insn {
            Marker(_) => continue,
            AddI(_, _, i) | Jalr(_, _, i) => {
                if !fits12(*i) {
                    out.push(p("immediate-range", format!("`{line}`: immediate does not fit 12 bits")));
                }
            }
            Lw(_, off, _) | Sw(_, off, _) => {
                if !fits12(*off) {
                    out.push(p("offset-range", format!("`{line}`: offset does not fit 12 bits")));
                }
            }
            Jal(_, l) | Bcc(_, _, _, l) => refs.push((l.clone(), line.clone())),
            La(_, l) => {
                refs.push((l.clone(), line.clone()));
                la_targets.push(l.clone());
            }
            _ => {}
        }
        n += 1;
    }
    check_labels(&prog.labels, &prog.dup_labels, &refs, &[], &mut out);
    let mut tables = 0;
    for l in &la_targets {
        let Some(start) = prog.labels.get(l) else { continue };
        let mut i = *start;
        let mut entries = 0;
        while i < prog.insns.len() {
            match &prog.insns[i] {
                rv64::Insn::Jal(0, _) => entries += 1,
                rv64::Insn::Marker(_) => {}
                _ => break,
            }
            if prog.labels.values().any(|v| *v == i + 1) {
                break;
            }
            i += 1;
        }
        if entries >= 2 {
            tables += 1;
            if info.jump_length_1 != 4 {
                out.push(p("jump-table-stride", format!("table `{l}`: tag arithmetic assumes {} bytes per entry, a jump is 4 bytes", info.jump_length_1)));
            }
        }
    }
    Ok((out, LintStats { instructions: n, labels: prog.labels.len() as u64, tables }))
}
