//! Heap monitor (C09/C10): at a statement boundary with environment Γ, classify every block below
//! the allocation frontier and check exact reference counts. Block geometry comes from the
//! backend's own constants through `ArchInfo`.
use crate::emu::{Chi, Cpu, Marker, HEAP_BASE};
use std::collections::{BTreeMap, BTreeSet};

#[derive(Debug, Clone, Default)]
pub struct HeapFacts {
    pub frontier_blocks: usize,
    pub live: usize,
    pub linear: usize,
    pub deferred: usize,
    pub waiting: usize,
    pub max_refcount: i64,
}

fn block_index(addr: i64, block_bytes: i64) -> Option<usize> {
    let off = addr - HEAP_BASE as i64;
    if off >= 0 && off % block_bytes == 0 {
        Some((off / block_bytes) as usize)
    } else {
        None
    }
}

pub fn check_heap(cpu: &dyn Cpu, kinds: &[Chi]) -> Result<HeapFacts, String> {
    let info = cpu.info();
    let mem = cpu.memory();
    let bw = info.block_words;
    let bb = (bw * 8) as i64;
    let nblocks = mem.heap.len() / bw;
    let word = |b: usize, byte_off: i64| -> crate::emu::Word { mem.heap[b * bw + (byte_off / 8) as usize] };

    // ---- the two lists -------------------------------------------------------------------
    let heap_reg = cpu.reg(info.heap_reg);
    let free_reg = cpu.reg(info.free_reg);
    if !heap_reg.d || !free_reg.d {
        return Err("heap or free register is undefined at a statement boundary".into());
    }
    let mut linear: Vec<usize> = Vec::new();
    let mut seen = BTreeSet::new();
    let mut cur = heap_reg.v;
    loop {
        let Some(b) = block_index(cur, bb).filter(|b| *b < nblocks) else {
            return Err(format!("linear free list reaches {cur:#x}, which is not a block"));
        };
        if !seen.insert(b) {
            return Err(format!("linear free list is cyclic at block {b}"));
        }
        linear.push(b);
        let next = word(b, info.next_off);
        if !next.d {
            return Err(format!("linear free list: link of block {b} is undefined"));
        }
        if next.v == 0 {
            break;
        }
        cur = next.v;
    }
    let mut deferred: Vec<usize> = Vec::new();
    let mut cur = free_reg.v;
    let frontier;
    loop {
        let Some(b) = block_index(cur, bb).filter(|b| *b < nblocks) else {
            return Err(format!("deferred free list reaches {cur:#x}, which is not a block"));
        };
        if seen.contains(&b) {
            return Err(format!("block {b} is on a free list twice (or on both lists)"));
        }
        let next = word(b, info.next_off);
        if !next.d {
            return Err(format!("deferred free list: link of block {b} is undefined"));
        }
        if next.v == 0 {
            // the last element is the allocation frontier: untouched memory
            frontier = b;
            break;
        }
        seen.insert(b);
        deferred.push(b);
        cur = next.v;
    }
    // nothing at or above the frontier has ever been written
    if mem.heap_high_water > frontier * bw {
        return Err(format!(
            "memory at or above the allocation frontier (block {frontier}) has been written (high water word {})",
            mem.heap_high_water
        ));
    }
    for b in linear.iter().chain(deferred.iter()) {
        if *b >= frontier {
            return Err(format!("free-list block {b} lies at or above the frontier {frontier}"));
        }
    }

    // ---- reachability -----------------------------------------------------------------------
    let fields_of = |b: usize| -> Result<Vec<usize>, String> {
        let mut out = Vec::new();
        for (i, (fst, _snd)) in info.field_off.iter().enumerate() {
            let w = word(b, *fst);
            if !w.d {
                return Err(format!("pointer slot {i} of block {b} is undefined"));
            }
            if w.v != 0 {
                match block_index(w.v, bb).filter(|x| *x < frontier) {
                    Some(t) => out.push(t),
                    None => {
                        return Err(format!(
                            "pointer slot {i} of block {b} holds {:#x}, which is not a block below the frontier",
                            w.v
                        ));
                    }
                }
            }
        }
        Ok(out)
    };

    let mut refs: BTreeMap<usize, i64> = BTreeMap::new();
    let mut live: BTreeSet<usize> = BTreeSet::new();
    let mut stack: Vec<usize> = Vec::new();
    for (i, chi) in kinds.iter().enumerate() {
        if *chi == Chi::Ext {
            continue;
        }
        let Some(loc) = info.temps.get(2 * i) else {
            return Err(format!("variable {i} beyond the backend's capacity"));
        };
        let w = cpu.read_loc(*loc);
        if !w.d {
            return Err(format!("first temporary of object variable {i} is undefined"));
        }
        if w.v == 0 {
            continue;
        }
        let Some(b) = block_index(w.v, bb).filter(|x| *x < frontier) else {
            return Err(format!(
                "first temporary of object variable {i} holds {:#x}, which is not a block below the frontier",
                w.v
            ));
        };
        *refs.entry(b).or_insert(0) += 1;
        if live.insert(b) {
            stack.push(b);
        }
    }
    while let Some(b) = stack.pop() {
        for t in fields_of(b)? {
            *refs.entry(t).or_insert(0) += 1;
            if live.insert(t) {
                stack.push(t);
            }
        }
    }
    // blocks waiting beneath deferred blocks
    let mut waiting: BTreeSet<usize> = BTreeSet::new();
    let deferred_set: BTreeSet<usize> = deferred.iter().copied().collect();
    let linear_set: BTreeSet<usize> = linear.iter().copied().collect();
    let mut stack: Vec<usize> = deferred.clone();
    while let Some(b) = stack.pop() {
        for t in fields_of(b)? {
            *refs.entry(t).or_insert(0) += 1;
            if !live.contains(&t) && !deferred_set.contains(&t) && waiting.insert(t) {
                stack.push(t);
            }
        }
    }

    // ---- partition ----------------------------------------------------------------------------
    for b in 0..frontier {
        let classes = [
            live.contains(&b),
            linear_set.contains(&b),
            deferred_set.contains(&b),
            waiting.contains(&b),
        ];
        let n = classes.iter().filter(|x| **x).count();
        if n == 0 {
            return Err(format!(
                "block {b} below the frontier {frontier} is lost: not reachable, not on a free list, not beneath a deferred block"
            ));
        }
        if n > 1 {
            let names = ["reachable", "on the reusable list", "on the deferred list", "beneath a deferred block"];
            let which: Vec<&str> = names.iter().zip(classes).filter(|(_, c)| *c).map(|(n, _)| *n).collect();
            return Err(format!("block {b} is in two states at once: {}", which.join(" and ")));
        }
    }
    // references into free-list blocks
    for (t, _) in refs.iter() {
        if linear_set.contains(t) {
            return Err(format!("a live or deferred reference points to block {t}, which is on the reusable free list"));
        }
        if deferred_set.contains(t) {
            return Err(format!("a live or deferred reference points to block {t}, which is on the deferred free list"));
        }
    }

    // ---- exact counts -------------------------------------------------------------------------
    let mut max_rc = 0;
    for b in live.iter().chain(waiting.iter()) {
        let stored = word(*b, info.refcount_off);
        if !stored.d {
            return Err(format!("reference count of block {b} is undefined"));
        }
        let expected = refs.get(b).copied().unwrap_or(0) - 1;
        if stored.v != expected {
            return Err(format!(
                "block {b}: stored count {} but {} references exist (expected stored count {})",
                stored.v,
                expected + 1,
                expected
            ));
        }
        max_rc = max_rc.max(stored.v);
    }
    Ok(HeapFacts {
        frontier_blocks: frontier,
        live: live.len(),
        linear: linear.len(),
        deferred: deferred.len(),
        waiting: waiting.len(),
        max_refcount: max_rc,
    })
}

/// A `Monitor` that runs the heap check at every boundary and keeps C10's footprint accounting.
#[derive(Default)]
pub struct HeapMonitor {
    pub boundaries: u64,
    pub peak_live: usize,
    pub max_frontier: usize,
    pub max_slack: i64,
    pub saw_reuse: u64,
    pub saw_deferred: u64,
    pub saw_waiting: u64,
    pub saw_shared: u64,
    pub footprint_bound: i64,
}

impl HeapMonitor {
    pub fn new() -> HeapMonitor {
        HeapMonitor { footprint_bound: 2, ..Default::default() }
    }
}

impl crate::emu::Monitor for HeapMonitor {
    fn boundary(&mut self, cpu: &dyn Cpu, marker: &Marker) -> Result<(), String> {
        let kinds: Vec<Chi> = marker.env.iter().map(|v| v.chi).collect();
        let facts = check_heap(cpu, &kinds).map_err(|e| format!("heap invariant broken before `{}`: {e}", marker.kind))?;
        self.boundaries += 1;
        self.peak_live = self.peak_live.max(facts.live);
        self.max_frontier = self.max_frontier.max(facts.frontier_blocks);
        let slack = facts.frontier_blocks as i64 - self.peak_live as i64;
        self.max_slack = self.max_slack.max(slack);
        if facts.linear > 1 {
            self.saw_reuse += 1;
        }
        if facts.deferred > 0 {
            self.saw_deferred += 1;
        }
        if facts.waiting > 0 {
            self.saw_waiting += 1;
        }
        if facts.max_refcount > 0 {
            self.saw_shared += 1;
        }
        if slack > self.footprint_bound {
            return Err(format!(
                "heap footprint: {} blocks below the frontier but at most {} were ever reachable at once (bound: peak + {})",
                facts.frontier_blocks, self.peak_live, self.footprint_bound
            ));
        }
        Ok(())
    }
}
