pub mod asmlint;
pub mod heap;
