pub mod heap;
