//! Facts about each backend, obtained by *calling* the backend crates (register assignment,
//! block geometry, jump length), and helpers to generate code for programs and single statements.
use crate::emu::{ArchInfo, Loc};
use crate::pipeline::{guarded, Arch, StageError};
use axcut::syntax::{
    Chirality, ContextBinding, Identifier, Statement, Ty, TypeDeclaration, TypingContext,
};
use axcut2backend::config::{Config, TemporaryNumber};
use axcut2backend::statements::CodeStatement;
use axcut2backend::utils::Utils;
use printer::Print;

pub const MAX_VARS: usize = 48;

fn ctx_of_len(n: usize) -> TypingContext {
    TypingContext {
        bindings: (0..n)
            .map(|i| ContextBinding {
                var: Identifier {
                    name: "v".into(),
                    id: 1_000_000 + i,
                },
                chi: Chirality::Ext,
                ty: Ty::I64,
            })
            .collect(),
    }
}

fn x86_loc(t: axcut2x86_64::config::Temporary) -> Loc {
    use axcut2x86_64::config::{stack_offset, Temporary};
    match t {
        Temporary::Register(r) => {
            let name = r.print_to_string(None);
            Loc::Reg(crate::emu::x86::reg_index(&name).unwrap_or_else(|| panic!("unknown x86 register name {name}")))
        }
        Temporary::Spill(s) => Loc::Spill(stack_offset(s).val),
    }
}

fn a64_loc(t: axcut2aarch64::config::Temporary) -> Loc {
    use axcut2aarch64::config::{stack_offset, Temporary};
    match t {
        Temporary::Register(r) => {
            let name = r.print_to_string(None);
            Loc::Reg(crate::emu::a64::reg_index(&name).unwrap_or_else(|| panic!("unknown aarch64 register name {name}")))
        }
        Temporary::Spill(s) => Loc::Spill(stack_offset(s).val),
    }
}

fn rv_loc(r: axcut2rv64::config::Register) -> Loc {
    let name = format!("{r}");
    Loc::Reg(crate::emu::rv64::reg_index(&name).unwrap_or_else(|| panic!("unknown rv64 register name {name}")))
}

pub fn arch_info(arch: Arch) -> ArchInfo {
    use TemporaryNumber::{Fst, Snd};
    let mut temps = Vec::new();
    match arch {
        Arch::X86 => {
            use axcut2x86_64::config as c;
            use axcut2x86_64::Backend as B;
            for i in 0..MAX_VARS {
                let ctx = ctx_of_len(i);
                temps.push(x86_loc(<B as Utils<c::Temporary>>::fresh_temporary(Fst, &ctx)));
                temps.push(x86_loc(<B as Utils<c::Temporary>>::fresh_temporary(Snd, &ctx)));
            }
            let Loc::Reg(heap) = x86_loc(<B as Config<c::Temporary, c::Immediate>>::heap()) else { panic!() };
            let Loc::Reg(free) = x86_loc(<B as Config<c::Temporary, c::Immediate>>::free()) else { panic!() };
            ArchInfo {
                arch,
                temps,
                heap_reg: heap,
                free_reg: free,
                fields_per_block: c::FIELDS_PER_BLOCK,
                block_words: (c::field_offset(Fst, c::FIELDS_PER_BLOCK).val / 8) as usize,
                refcount_off: c::REFERENCE_COUNT_OFFSET.val,
                next_off: c::NEXT_ELEMENT_OFFSET.val,
                field_off: (0..c::FIELDS_PER_BLOCK)
                    .map(|i| (c::field_offset(Fst, i).val, c::field_offset(Snd, i).val))
                    .collect(),
                jump_length_1: <B as Config<c::Temporary, c::Immediate>>::jump_length(1).val,
                scratch_regs: match x86_loc(<B as Config<c::Temporary, c::Immediate>>::temp()) {
                    Loc::Reg(r) => vec![r],
                    _ => vec![],
                },
                scratch_spill: Some(c::stack_offset(c::SPILL_TEMP).val),
            }
        }
        Arch::A64 => {
            use axcut2aarch64::config as c;
            use axcut2aarch64::Backend as B;
            for i in 0..MAX_VARS {
                let ctx = ctx_of_len(i);
                temps.push(a64_loc(<B as Utils<c::Temporary>>::fresh_temporary(Fst, &ctx)));
                temps.push(a64_loc(<B as Utils<c::Temporary>>::fresh_temporary(Snd, &ctx)));
            }
            let Loc::Reg(heap) = a64_loc(<B as Config<c::Temporary, c::Immediate>>::heap()) else { panic!() };
            let Loc::Reg(free) = a64_loc(<B as Config<c::Temporary, c::Immediate>>::free()) else { panic!() };
            ArchInfo {
                arch,
                temps,
                heap_reg: heap,
                free_reg: free,
                fields_per_block: c::FIELDS_PER_BLOCK,
                block_words: (c::field_offset(Fst, c::FIELDS_PER_BLOCK).val / 8) as usize,
                refcount_off: c::REFERENCE_COUNT_OFFSET.val,
                next_off: c::NEXT_ELEMENT_OFFSET.val,
                field_off: (0..c::FIELDS_PER_BLOCK)
                    .map(|i| (c::field_offset(Fst, i).val, c::field_offset(Snd, i).val))
                    .collect(),
                jump_length_1: <B as Config<c::Temporary, c::Immediate>>::jump_length(1).val,
                scratch_regs: [c::TEMP, c::TEMP2]
                    .iter()
                    .filter_map(|r| match a64_loc(c::Temporary::Register(*r)) {
                        Loc::Reg(r) => Some(r),
                        _ => None,
                    })
                    .collect(),
                scratch_spill: Some(c::stack_offset(c::SPILL_TEMP).val),
            }
        }
        Arch::Rv64 => {
            use axcut2rv64::config as c;
            use axcut2rv64::Backend as B;
            for i in 0..MAX_VARS {
                let ctx = ctx_of_len(i);
                let r = std::panic::catch_unwind(|| {
                    (
                        <B as Utils<c::Register>>::fresh_temporary(Fst, &ctx),
                        <B as Utils<c::Register>>::fresh_temporary(Snd, &ctx),
                    )
                });
                match r {
                    Ok((a, b)) => {
                        temps.push(rv_loc(a));
                        temps.push(rv_loc(b));
                    }
                    Err(_) => break,
                }
            }
            let Loc::Reg(heap) = rv_loc(<B as Config<c::Register, c::Immediate>>::heap()) else { panic!() };
            let Loc::Reg(free) = rv_loc(<B as Config<c::Register, c::Immediate>>::free()) else { panic!() };
            ArchInfo {
                arch,
                temps,
                heap_reg: heap,
                free_reg: free,
                fields_per_block: c::FIELDS_PER_BLOCK,
                block_words: (c::field_offset(Fst, c::FIELDS_PER_BLOCK) / 8) as usize,
                refcount_off: c::REFERENCE_COUNT_OFFSET,
                next_off: c::NEXT_ELEMENT_OFFSET,
                field_off: (0..c::FIELDS_PER_BLOCK)
                    .map(|i| (c::field_offset(Fst, i), c::field_offset(Snd, i)))
                    .collect(),
                jump_length_1: <B as Config<c::Register, c::Immediate>>::jump_length(1),
                scratch_regs: match rv_loc(c::TEMP) {
                    Loc::Reg(r) => vec![r],
                    _ => vec![],
                },
                scratch_spill: None,
            }
        }
    }
}

/// Code for one statement (and everything nested in it) in context `ctx`, as printed text.
pub fn fragment(
    arch: Arch,
    types: &[TypeDeclaration],
    stmt: Statement,
    ctx: TypingContext,
) -> Result<String, StageError> {
    match arch {
        Arch::X86 => guarded("codegen-x86_64", || {
            let mut is: Vec<axcut2x86_64::code::Code> = Vec::new();
            stmt.code_statement::<axcut2x86_64::Backend, _, _, _>(types, ctx, &mut is);
            is.iter().map(|c| c.print_to_string(None)).collect::<Vec<_>>().join("\n")
        }),
        Arch::A64 => guarded("codegen-aarch64", || {
            let mut is: Vec<axcut2aarch64::code::Code> = Vec::new();
            stmt.code_statement::<axcut2aarch64::Backend, _, _, _>(types, ctx, &mut is);
            is.iter().map(|c| c.print_to_string(None)).collect::<Vec<_>>().join("\n")
        }),
        Arch::Rv64 => guarded("codegen-rv64", || {
            let mut is: Vec<axcut2rv64::code::Code> = Vec::new();
            stmt.code_statement::<axcut2rv64::Backend, _, _, _>(types, ctx, &mut is);
            is.iter().map(|c| format!("{c}")).collect::<Vec<_>>().join("\n")
        }),
    }
}
