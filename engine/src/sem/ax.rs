//! R-AX: reference abstract machine for AxCut, in two modes.
//!
//! * `run_named`: variables are looked up by id in an environment map; for non-linear programs
//!   (output of shrinking), where calls/invokes carry explicit argument lists.
//! * `run_positional`: the environment is an ordered list of (id, value); every statement consumes
//!   exactly the positions the ordered-linear discipline prescribes (DESIGN Appendix A), which is
//!   what the code generators assume. For linearized programs.
//!
//! Kept boring on purpose: values are Rust enums with `Rc` sharing, no heap model.
use axcut::syntax::statements::ifc::IfSort;
use axcut::syntax::statements::*;
use axcut::syntax::{BinOp, Def, Prog, Statement, TypeDeclaration, ID};
use std::collections::HashMap;
use std::rc::Rc;

#[derive(Debug, Clone)]
pub enum Value {
    Int(i64),
    /// an xtor applied to arguments (producer of data / consumer of codata)
    Obj(Rc<ObjV>),
    /// a closure: clauses + captured environment (consumer of data / producer of codata)
    Clo(Rc<CloV>),
}

#[derive(Debug)]
pub struct ObjV {
    pub tag: String,
    pub fields: Vec<Value>,
}

#[derive(Debug)]
pub struct CloV {
    pub clauses: Vec<Clause>,
    /// ids of the captured variables as seen by the clause bodies
    pub env_ids: Vec<ID>,
    pub env: Vec<Value>,
}

#[derive(Debug, Clone, PartialEq, Eq)]
pub enum Outcome {
    /// normal termination through `exit v`
    Exit(i64),
    /// the reference semantics is undefined here (outside every property's domain)
    Undefined(&'static str),
    /// step budget exhausted
    Fuel,
    /// the program is not executable under this mode's discipline (ill-formed)
    Stuck(String),
}

#[derive(Debug, Clone, PartialEq, Eq)]
pub struct Trace {
    pub prints: Vec<(bool, i64)>,
    pub outcome: Outcome,
    pub steps: u64,
}

impl Trace {
    pub fn output_bytes(&self) -> Vec<u8> {
        let mut out = Vec::new();
        for (nl, v) in &self.prints {
            out.extend_from_slice(v.to_string().as_bytes());
            if *nl {
                out.push(b'\n');
            }
        }
        out
    }
}

pub fn arith(op: &BinOp, a: i64, b: i64) -> Result<i64, &'static str> {
    Ok(match op {
        BinOp::Sum => a.wrapping_add(b),
        BinOp::Sub => a.wrapping_sub(b),
        BinOp::Prod => a.wrapping_mul(b),
        BinOp::Div => {
            if b == 0 {
                return Err("division by zero");
            }
            if a == i64::MIN && b == -1 {
                return Err("overflowing division");
            }
            a / b
        }
        BinOp::Rem => {
            if b == 0 {
                return Err("division by zero");
            }
            if a == i64::MIN && b == -1 {
                return Err("overflowing division");
            }
            a % b
        }
    })
}

pub fn compare(sort: IfSort, a: i64, b: i64) -> bool {
    match sort {
        IfSort::Equal => a == b,
        IfSort::NotEqual => a != b,
        IfSort::Less => a < b,
        IfSort::LessOrEqual => a <= b,
        IfSort::Greater => a > b,
        IfSort::GreaterOrEqual => a >= b,
    }
}

fn find_def<'a>(prog: &'a Prog, name: &axcut::syntax::Identifier) -> Option<&'a Def> {
    prog.defs.iter().find(|d| d.name == *name)
}

macro_rules! stuck {
    ($($a:tt)*) => { return Err(Outcome::Stuck(format!($($a)*))) };
}

// ---------------------------------------------------------------------------------------------
// named mode
// ---------------------------------------------------------------------------------------------

type NEnv = HashMap<ID, Value>;

fn nget(env: &NEnv, id: ID) -> Result<Value, Outcome> {
    match env.get(&id) {
        Some(v) => Ok(v.clone()),
        None => Err(Outcome::Stuck(format!("unbound variable id {id}"))),
    }
}
fn nint(env: &NEnv, id: ID) -> Result<i64, Outcome> {
    match nget(env, id)? {
        Value::Int(n) => Ok(n),
        v => Err(Outcome::Stuck(format!("expected integer for id {id}, got {v:?}"))),
    }
}

/// Runs definition `entry` of a (non-linear or linear) program in named mode. `args` are the
/// values of the entry definition's parameters.
pub fn run_named(prog: &Prog, entry: usize, args: &[i64], fuel: u64) -> Trace {
    let mut prints = Vec::new();
    let mut steps = 0u64;
    let def = &prog.defs[entry];
    let mut env: NEnv = HashMap::new();
    if def.context.bindings.len() != args.len() {
        return Trace {
            prints,
            outcome: Outcome::Stuck("entry arity mismatch".into()),
            steps,
        };
    }
    for (b, a) in def.context.bindings.iter().zip(args) {
        env.insert(b.var.id, Value::Int(*a));
    }
    let mut stmt: Rc<Statement> = Rc::new(def.body.clone());
    let outcome = loop {
        steps += 1;
        if steps > fuel {
            break Outcome::Fuel;
        }
        match named_step(prog, &stmt, &mut env, &mut prints) {
            Ok(Some(next)) => stmt = next,
            Ok(None) => unreachable!(),
            Err(o) => break o,
        }
    };
    Trace { prints, outcome, steps }
}

fn named_step(
    prog: &Prog,
    stmt: &Rc<Statement>,
    env: &mut NEnv,
    prints: &mut Vec<(bool, i64)>,
) -> Result<Option<Rc<Statement>>, Outcome> {
    match &**stmt {
        Statement::Substitute(s) => {
            let mut new_env = NEnv::new();
            for (new, old) in &s.rearrange {
                new_env.insert(new.var.id, nget(env, old.id)?);
            }
            *env = new_env;
            Ok(Some(s.next.clone()))
        }
        Statement::Call(c) => {
            let Some(def) = find_def(prog, &c.label) else {
                stuck!("call of unknown label {}", c.label.name)
            };
            if c.args.bindings.len() != def.context.bindings.len() {
                stuck!("call {}: arity mismatch", c.label.name);
            }
            let mut new_env = NEnv::new();
            for (param, arg) in def.context.bindings.iter().zip(&c.args.bindings) {
                new_env.insert(param.var.id, nget(env, arg.var.id)?);
            }
            *env = new_env;
            Ok(Some(Rc::new(def.body.clone())))
        }
        Statement::Let(l) => {
            let mut fields = Vec::new();
            for a in &l.args.bindings {
                fields.push(nget(env, a.var.id)?);
            }
            env.insert(
                l.var.id,
                Value::Obj(Rc::new(ObjV {
                    tag: l.tag.name.clone(),
                    fields,
                })),
            );
            Ok(Some(l.next.clone()))
        }
        Statement::Switch(s) => {
            let Value::Obj(o) = nget(env, s.var.id)? else {
                stuck!("switch on non-object")
            };
            let Some(clause) = s.clauses.iter().find(|c| c.xtor.name == o.tag) else {
                stuck!("switch: no clause for {}", o.tag)
            };
            if clause.context.bindings.len() != o.fields.len() {
                stuck!("switch: clause arity mismatch for {}", o.tag);
            }
            for (b, v) in clause.context.bindings.iter().zip(&o.fields) {
                env.insert(b.var.id, v.clone());
            }
            Ok(Some(clause.body.clone()))
        }
        Statement::Create(c) => {
            // capture the whole environment (sound for well-scoped programs: bodies only see
            // their free variables); binder ids are unique along paths
            let (ids, vals): (Vec<ID>, Vec<Value>) =
                env.iter().map(|(k, v)| (*k, v.clone())).unzip();
            env.insert(
                c.var.id,
                Value::Clo(Rc::new(CloV {
                    clauses: c.clauses.clone(),
                    env_ids: ids,
                    env: vals,
                })),
            );
            Ok(Some(c.next.clone()))
        }
        Statement::Invoke(i) => {
            let Value::Clo(clo) = nget(env, i.var.id)? else {
                stuck!("invoke on non-closure")
            };
            let Some(clause) = clo.clauses.iter().find(|c| c.xtor.name == i.tag.name) else {
                stuck!("invoke: no clause for {}", i.tag.name)
            };
            if clause.context.bindings.len() != i.args.bindings.len() {
                stuck!("invoke: arity mismatch for {}", i.tag.name);
            }
            let mut new_env = NEnv::new();
            for (id, v) in clo.env_ids.iter().zip(&clo.env) {
                new_env.insert(*id, v.clone());
            }
            for (param, arg) in clause.context.bindings.iter().zip(&i.args.bindings) {
                new_env.insert(param.var.id, nget(env, arg.var.id)?);
            }
            *env = new_env;
            Ok(Some(clause.body.clone()))
        }
        Statement::Literal(l) => {
            env.insert(l.var.id, Value::Int(l.lit));
            Ok(Some(l.next.clone()))
        }
        Statement::Op(o) => {
            let a = nint(env, o.fst.id)?;
            let b = nint(env, o.snd.id)?;
            match arith(&o.op, a, b) {
                Ok(r) => {
                    env.insert(o.var.id, Value::Int(r));
                    Ok(Some(o.next.clone()))
                }
                Err(why) => Err(Outcome::Undefined(why)),
            }
        }
        Statement::PrintI64(p) => {
            prints.push((p.newline, nint(env, p.var.id)?));
            Ok(Some(p.next.clone()))
        }
        Statement::IfC(i) => {
            let a = nint(env, i.fst.id)?;
            let b = match &i.snd {
                Some(s) => nint(env, s.id)?,
                None => 0,
            };
            Ok(Some(if compare(i.sort, a, b) {
                i.thenc.clone()
            } else {
                i.elsec.clone()
            }))
        }
        Statement::Exit(e) => Err(Outcome::Exit(nint(env, e.var.id)?)),
    }
}

// ---------------------------------------------------------------------------------------------
// positional mode
// ---------------------------------------------------------------------------------------------

pub type PEnv = Vec<(ID, Value)>;

fn ppos(env: &PEnv, id: ID) -> Result<usize, Outcome> {
    match env.iter().position(|(i, _)| *i == id) {
        Some(p) => Ok(p),
        None => Err(Outcome::Stuck(format!("variable id {id} not in environment"))),
    }
}
fn pint(env: &PEnv, id: ID) -> Result<i64, Outcome> {
    match &env[ppos(env, id)?].1 {
        Value::Int(n) => Ok(*n),
        v => Err(Outcome::Stuck(format!("expected integer for id {id}, got {v:?}"))),
    }
}

/// Observer called at every statement boundary of the positional machine.
pub trait PObserver {
    fn boundary(&mut self, _stmt: &Statement, _env: &PEnv) {}
}
pub struct NoObserver;
impl PObserver for NoObserver {}

pub fn run_positional(prog: &Prog, entry: usize, args: &[i64], fuel: u64) -> Trace {
    run_positional_obs(prog, entry, args, fuel, &mut NoObserver)
}

pub fn run_positional_obs(
    prog: &Prog,
    entry: usize,
    args: &[i64],
    fuel: u64,
    obs: &mut dyn PObserver,
) -> Trace {
    let mut prints = Vec::new();
    let mut steps = 0u64;
    let def = &prog.defs[entry];
    if def.context.bindings.len() != args.len() {
        return Trace {
            prints,
            outcome: Outcome::Stuck("entry arity mismatch".into()),
            steps,
        };
    }
    let mut env: PEnv = def
        .context
        .bindings
        .iter()
        .zip(args)
        .map(|(b, a)| (b.var.id, Value::Int(*a)))
        .collect();
    let mut stmt: Rc<Statement> = Rc::new(def.body.clone());
    let outcome = loop {
        steps += 1;
        if steps > fuel {
            break Outcome::Fuel;
        }
        obs.boundary(&stmt, &env);
        match pos_step(prog, &stmt, &mut env, &mut prints) {
            Ok(next) => stmt = next,
            Err(o) => break o,
        }
    };
    Trace { prints, outcome, steps }
}

fn pos_step(
    prog: &Prog,
    stmt: &Rc<Statement>,
    env: &mut PEnv,
    prints: &mut Vec<(bool, i64)>,
) -> Result<Rc<Statement>, Outcome> {
    match &**stmt {
        Statement::Substitute(s) => {
            let mut new_env = PEnv::new();
            for (new, old) in &s.rearrange {
                let p = ppos(env, old.id)?;
                new_env.push((new.var.id, env[p].1.clone()));
            }
            *env = new_env;
            Ok(s.next.clone())
        }
        Statement::Call(c) => {
            let Some(def) = find_def(prog, &c.label) else {
                stuck!("call of unknown label {}", c.label.name)
            };
            if env.len() != def.context.bindings.len() {
                stuck!(
                    "call {}: environment has {} entries, callee expects {}",
                    c.label.name,
                    env.len(),
                    def.context.bindings.len()
                );
            }
            for (slot, param) in env.iter_mut().zip(&def.context.bindings) {
                slot.0 = param.var.id;
            }
            Ok(Rc::new(def.body.clone()))
        }
        Statement::Let(l) => {
            let n = l.args.bindings.len();
            if env.len() < n {
                stuck!("let: environment too short");
            }
            let fields: Vec<Value> = env.drain(env.len() - n..).map(|(_, v)| v).collect();
            env.push((
                l.var.id,
                Value::Obj(Rc::new(ObjV {
                    tag: l.tag.name.clone(),
                    fields,
                })),
            ));
            Ok(l.next.clone())
        }
        Statement::Switch(s) => {
            let Some((_, v)) = env.pop() else {
                stuck!("switch: empty environment")
            };
            let Value::Obj(o) = v else {
                stuck!("switch: last environment entry is not an object")
            };
            let Some(clause) = s.clauses.iter().find(|c| c.xtor.name == o.tag) else {
                stuck!("switch: no clause for {}", o.tag)
            };
            if clause.context.bindings.len() != o.fields.len() {
                stuck!("switch: clause arity mismatch for {}", o.tag);
            }
            for (b, v) in clause.context.bindings.iter().zip(&o.fields) {
                env.push((b.var.id, v.clone()));
            }
            Ok(clause.body.clone())
        }
        Statement::Create(c) => {
            let Some(ctx) = &c.context else {
                stuck!("create without annotated closure environment")
            };
            let n = ctx.bindings.len();
            if env.len() < n {
                stuck!("create: environment too short");
            }
            let captured: Vec<(ID, Value)> = env.drain(env.len() - n..).collect();
            let (_, vals): (Vec<ID>, Vec<Value>) = captured.into_iter().unzip();
            env.push((
                c.var.id,
                Value::Clo(Rc::new(CloV {
                    clauses: c.clauses.clone(),
                    env_ids: ctx.bindings.iter().map(|b| b.var.id).collect(),
                    env: vals,
                })),
            ));
            Ok(c.next.clone())
        }
        Statement::Invoke(i) => {
            let Some((_, v)) = env.pop() else {
                stuck!("invoke: empty environment")
            };
            let Value::Clo(clo) = v else {
                stuck!("invoke: last environment entry is not a closure")
            };
            let Some(clause) = clo.clauses.iter().find(|c| c.xtor.name == i.tag.name) else {
                stuck!("invoke: no clause for {}", i.tag.name)
            };
            if clause.context.bindings.len() != env.len() {
                stuck!(
                    "invoke {}: {} arguments in environment, clause expects {}",
                    i.tag.name,
                    env.len(),
                    clause.context.bindings.len()
                );
            }
            for (slot, param) in env.iter_mut().zip(&clause.context.bindings) {
                slot.0 = param.var.id;
            }
            for (id, v) in clo.env_ids.iter().zip(&clo.env) {
                env.push((*id, v.clone()));
            }
            Ok(clause.body.clone())
        }
        Statement::Literal(l) => {
            env.push((l.var.id, Value::Int(l.lit)));
            Ok(l.next.clone())
        }
        Statement::Op(o) => {
            let a = pint(env, o.fst.id)?;
            let b = pint(env, o.snd.id)?;
            match arith(&o.op, a, b) {
                Ok(r) => {
                    env.push((o.var.id, Value::Int(r)));
                    Ok(o.next.clone())
                }
                Err(why) => Err(Outcome::Undefined(why)),
            }
        }
        Statement::PrintI64(p) => {
            prints.push((p.newline, pint(env, p.var.id)?));
            Ok(p.next.clone())
        }
        Statement::IfC(i) => {
            let a = pint(env, i.fst.id)?;
            let b = match &i.snd {
                Some(s) => pint(env, s.id)?,
                None => 0,
            };
            Ok(if compare(i.sort, a, b) {
                i.thenc.clone()
            } else {
                i.elsec.clone()
            })
        }
        Statement::Exit(e) => Err(Outcome::Exit(pint(env, e.var.id)?)),
    }
}

#[allow(dead_code)]
pub fn type_decl<'a>(types: &'a [TypeDeclaration], name: &str) -> Option<&'a TypeDeclaration> {
    types.iter().find(|t| t.name.name == name)
}
