pub mod ax;
pub mod fun;
