pub mod ax;
pub mod core;
pub mod fun;
