pub mod ax;
