//! R-CORE: reference abstract machine for Core (unfocused; focused programs are embedded).
//!
//! λμμ̃ reduction with polarity-directed critical pairs: at integer/data types the producer is
//! evaluated first (μ̃ binds values), at codata types the consumer is evaluated first (μ̃ binds the
//! producer by name). Non-variable arguments are evaluated innermost-first and left to right, once
//! for integers and data and by name for codata (dynamic focusing). Lexical scoping on (name, id),
//! variables and covariables in separate namespaces.
use super::ax::{Outcome, Trace};
use core_lang::syntax::statements::{Call, Cut, Exit, IfC, IfSort, PrintI64, Statement};
use core_lang::syntax::terms::{Clause, Cns, Mu, Op, Prd, Term, XCase, XVar, Xtor};
use core_lang::syntax::arguments::Argument;
use core_lang::syntax::{BinOp, Chirality, CodataDeclaration, Def, Identifier, Prog, Ty};
use std::rc::Rc;

pub enum PVal<'a> {
    Int(i64),
    Ctor(&'a Identifier, Vec<AVal<'a>>),
    CoCase(&'a [Clause<Prd, Statement>], Env<'a>),
    Thunk(&'a Term<Prd>, Env<'a>),
    /// the rest of an argument list, as a by-name producer (arises from a μ̃ in a consumer
    /// argument position of codata type)
    Resume(Rc<Frame<'a>>),
}
pub enum CVal<'a> {
    MuT(&'a Identifier, &'a Statement, Env<'a>),
    Case(&'a [Clause<Cns, Statement>], Env<'a>),
    Dtor(&'a Identifier, Vec<AVal<'a>>),
    /// continue evaluating an argument list with the value received
    ArgK(Rc<Frame<'a>>),
}
#[derive(Clone)]
pub enum AVal<'a> {
    P(Rc<PVal<'a>>),
    C(Rc<CVal<'a>>),
}

pub struct EnvNode<'a> {
    key: &'a Identifier,
    val: AVal<'a>,
    parent: Option<Rc<EnvNode<'a>>>,
}
#[derive(Clone, Default)]
pub struct Env<'a> {
    vars: Option<Rc<EnvNode<'a>>>,
    covars: Option<Rc<EnvNode<'a>>>,
}
impl<'a> Env<'a> {
    fn bind_var(&self, k: &'a Identifier, v: Rc<PVal<'a>>) -> Env<'a> {
        Env { vars: Some(Rc::new(EnvNode { key: k, val: AVal::P(v), parent: self.vars.clone() })), covars: self.covars.clone() }
    }
    fn bind_covar(&self, k: &'a Identifier, v: Rc<CVal<'a>>) -> Env<'a> {
        Env { vars: self.vars.clone(), covars: Some(Rc::new(EnvNode { key: k, val: AVal::C(v), parent: self.covars.clone() })) }
    }
    fn var(&self, k: &Identifier) -> Option<Rc<PVal<'a>>> {
        let mut cur = &self.vars;
        while let Some(n) = cur {
            if n.key == k {
                if let AVal::P(v) = &n.val {
                    return Some(v.clone());
                }
            }
            cur = &n.parent;
        }
        None
    }
    fn covar(&self, k: &Identifier) -> Option<Rc<CVal<'a>>> {
        let mut cur = &self.covars;
        while let Some(n) = cur {
            if n.key == k {
                if let AVal::C(v) = &n.val {
                    return Some(v.clone());
                }
            }
            cur = &n.parent;
        }
        None
    }
}

#[derive(Clone)]
pub enum ArgRef<'a> {
    P(&'a Term<Prd>),
    C(&'a Term<Cns>),
}

#[derive(Clone)]
pub enum Dest<'a> {
    Frame(Rc<Frame<'a>>),
    Consumer(&'a Term<Cns>, Env<'a>),
}

#[derive(Clone)]
pub enum Then<'a> {
    CtorTo(&'a Identifier, Dest<'a>),
    DtorCut(&'a Identifier, &'a Term<Prd>, Env<'a>),
    DtorTo(&'a Identifier, Rc<Frame<'a>>),
    Call(&'a Identifier),
    OpTo(&'a BinOp, Dest<'a>),
    If(&'a IfC, Env<'a>),
    Print(&'a PrintI64, Env<'a>),
    Exit,
}

pub struct Frame<'a> {
    items: Rc<Vec<ArgRef<'a>>>,
    next: usize,
    done: Vec<AVal<'a>>,
    env: Env<'a>,
    then: Then<'a>,
}

enum St<'a> {
    Run(&'a Statement, Env<'a>),
    Args(Frame<'a>),
    Meet(Rc<PVal<'a>>, Rc<CVal<'a>>),
    /// a producer term of codata type against a covalue
    Force(&'a Term<Prd>, Env<'a>, Rc<CVal<'a>>),
    /// a value to a destination
    Deliver(Rc<PVal<'a>>, Dest<'a>),
}

pub struct Machine<'a> {
    prog: &'a Prog,
    codata: &'a [CodataDeclaration],
    pub prints: Vec<(bool, i64)>,
    pub steps: u64,
}

pub fn prd_ty(t: &Term<Prd>) -> Ty {
    match t {
        Term::XVar(v) => v.ty.clone(),
        Term::Literal(_) | Term::Op(_) => Ty::I64,
        Term::Mu(m) => m.ty.clone(),
        Term::Xtor(x) => x.ty.clone(),
        Term::XCase(x) => x.ty.clone(),
    }
}
pub fn cns_ty(t: &Term<Cns>) -> Ty {
    match t {
        Term::XVar(v) => v.ty.clone(),
        Term::Literal(_) | Term::Op(_) => Ty::I64,
        Term::Mu(m) => m.ty.clone(),
        Term::Xtor(x) => x.ty.clone(),
        Term::XCase(x) => x.ty.clone(),
    }
}

macro_rules! stuck {
    ($($a:tt)*) => { return Err(Outcome::Stuck(format!($($a)*))) };
}

impl<'a> Machine<'a> {
    pub fn new(prog: &'a Prog) -> Machine<'a> {
        Machine { prog, codata: &prog.codata_types, prints: Vec::new(), steps: 0 }
    }
    fn is_codata(&self, ty: &Ty) -> bool {
        ty.is_codata(self.codata)
    }
    fn find_def(&self, name: &Identifier) -> Option<&'a Def> {
        self.prog.defs.iter().find(|d| d.name == *name)
    }

    pub fn run_entry(&mut self, entry: usize, args: &[i64], fuel: u64) -> Outcome {
        let def: &'a Def = &self.prog.defs[entry];
        if def.context.bindings.len() != args.len() {
            return Outcome::Stuck("entry arity mismatch".into());
        }
        let mut env = Env::default();
        for (b, a) in def.context.bindings.iter().zip(args) {
            env = env.bind_var(&b.var, Rc::new(PVal::Int(*a)));
        }
        let mut st = St::Run(&def.body, env);
        loop {
            self.steps += 1;
            if self.steps > fuel {
                return Outcome::Fuel;
            }
            st = match self.step(st) {
                Ok(s) => s,
                Err(o) => return o,
            };
        }
    }

    fn covalue(&self, c: &'a Term<Cns>, env: &Env<'a>) -> Result<Rc<CVal<'a>>, Outcome> {
        Ok(match c {
            Term::XVar(v) => match env.covar(&v.var) {
                Some(k) => k,
                None => stuck!("unbound covariable {}_{}", v.var.name, v.var.id),
            },
            Term::Mu(m) => Rc::new(CVal::MuT(&m.variable, &m.statement, env.clone())),
            Term::XCase(x) => Rc::new(CVal::Case(&x.clauses, env.clone())),
            Term::Xtor(_) => stuck!("a destructor is not a covalue before its arguments are evaluated"),
            Term::Literal(_) | Term::Op(_) => stuck!("literal/op in consumer position"),
        })
    }

    fn byname(&self, p: &'a Term<Prd>, env: &Env<'a>) -> Result<Rc<PVal<'a>>, Outcome> {
        Ok(match p {
            Term::XVar(v) => match env.var(&v.var) {
                Some(x) => x,
                None => stuck!("unbound variable {}_{}", v.var.name, v.var.id),
            },
            Term::XCase(x) => Rc::new(PVal::CoCase(&x.clauses, env.clone())),
            other => Rc::new(PVal::Thunk(other, env.clone())),
        })
    }

    fn frame(&self, items: Vec<ArgRef<'a>>, env: Env<'a>, then: Then<'a>) -> St<'a> {
        St::Args(Frame { items: Rc::new(items), next: 0, done: Vec::new(), env, then })
    }

    fn args_of(args: &'a core_lang::syntax::Arguments) -> Vec<ArgRef<'a>> {
        args.entries
            .iter()
            .map(|a| match a {
                Argument::Producer(p) => ArgRef::P(p),
                Argument::Consumer(c) => ArgRef::C(c),
            })
            .collect()
    }

    fn push(f: &Frame<'a>, v: AVal<'a>) -> Frame<'a> {
        let mut done = f.done.clone();
        done.push(v);
        Frame { items: f.items.clone(), next: f.next + 1, done, env: f.env.clone(), then: f.then.clone() }
    }

    fn int_of(&self, v: &AVal<'a>) -> Result<i64, Outcome> {
        match v {
            AVal::P(p) => match &**p {
                PVal::Int(n) => Ok(*n),
                _ => stuck!("expected an integer"),
            },
            _ => stuck!("expected an integer, got a covalue"),
        }
    }

    fn step(&mut self, st: St<'a>) -> Result<St<'a>, Outcome> {
        match st {
            St::Run(s, env) => self.run(s, env),
            St::Args(f) => self.args(f),
            St::Meet(v, k) => self.meet(v, k),
            St::Force(p, env, k) => match p {
                Term::XVar(_) | Term::XCase(_) => {
                    let v = self.byname(p, &env)?;
                    Ok(St::Meet(v, k))
                }
                Term::Mu(m) => Ok(St::Run(&m.statement, env.bind_covar(&m.variable, k))),
                _ => stuck!("integer/data producer at a codata type"),
            },
            St::Deliver(v, dest) => match dest {
                Dest::Frame(f) => Ok(St::Args(Self::push(&f, AVal::P(v)))),
                Dest::Consumer(c, env) => {
                    let k = self.covalue(c, &env)?;
                    Ok(St::Meet(v, k))
                }
            },
        }
    }

    fn run(&mut self, s: &'a Statement, env: Env<'a>) -> Result<St<'a>, Outcome> {
        match s {
            Statement::Cut(cut) => self.cut(cut, env),
            Statement::IfC(i) => {
                let mut items = vec![ArgRef::P(&i.fst)];
                if let Some(snd) = &i.snd {
                    items.push(ArgRef::P(snd));
                }
                Ok(self.frame(items, env.clone(), Then::If(i, env)))
            }
            Statement::PrintI64(p) => Ok(self.frame(vec![ArgRef::P(&p.arg)], env.clone(), Then::Print(p, env))),
            Statement::Call(c) => Ok(self.frame(Self::args_of(&c.args), env, Then::Call(&c.name))),
            Statement::Exit(e) => Ok(self.frame(vec![ArgRef::P(&e.arg)], env, Then::Exit)),
        }
    }

    fn cut(&mut self, cut: &'a Cut, env: Env<'a>) -> Result<St<'a>, Outcome> {
        let p: &'a Term<Prd> = &cut.producer;
        let c: &'a Term<Cns> = &cut.consumer;
        if self.is_codata(&cut.ty) {
            // consumer first
            match c {
                Term::XVar(_) => {
                    let k = self.covalue(c, &env)?;
                    Ok(St::Force(p, env, k))
                }
                Term::Mu(m) => {
                    let v = self.byname(p, &env)?;
                    Ok(St::Run(&m.statement, env.bind_var(&m.variable, v)))
                }
                Term::Xtor(d) => Ok(self.frame(Self::args_of(&d.args), env.clone(), Then::DtorCut(&d.name, p, env))),
                _ => stuck!("case/literal consumer at a codata type"),
            }
        } else {
            // producer first
            match p {
                Term::XVar(v) => match env.var(&v.var) {
                    Some(x) => Ok(St::Deliver(x, Dest::Consumer(c, env))),
                    None => stuck!("unbound variable {}_{}", v.var.name, v.var.id),
                },
                Term::Literal(l) => Ok(St::Deliver(Rc::new(PVal::Int(l.lit)), Dest::Consumer(c, env))),
                Term::Op(o) => Ok(self.frame(vec![ArgRef::P(&o.fst), ArgRef::P(&o.snd)], env.clone(), Then::OpTo(&o.op, Dest::Consumer(c, env)))),
                Term::Xtor(x) => Ok(self.frame(Self::args_of(&x.args), env.clone(), Then::CtorTo(&x.name, Dest::Consumer(c, env)))),
                Term::Mu(m) => {
                    let k = self.covalue(c, &env)?;
                    Ok(St::Run(&m.statement, env.bind_covar(&m.variable, k)))
                }
                Term::XCase(_) => stuck!("cocase at a data type"),
            }
        }
    }

    fn args(&mut self, f: Frame<'a>) -> Result<St<'a>, Outcome> {
        if f.next < f.items.len() {
            let item = f.items[f.next].clone();
            let env = f.env.clone();
            return match item {
                ArgRef::P(p) => match p {
                    Term::XVar(_) => {
                        let v = self.byname(p, &env)?;
                        Ok(St::Args(Self::push(&f, AVal::P(v))))
                    }
                    Term::Literal(l) => Ok(St::Args(Self::push(&f, AVal::P(Rc::new(PVal::Int(l.lit)))))),
                    Term::XCase(x) => Ok(St::Args(Self::push(&f, AVal::P(Rc::new(PVal::CoCase(&x.clauses, env)))))),
                    Term::Op(o) => Ok(self.frame(vec![ArgRef::P(&o.fst), ArgRef::P(&o.snd)], env, Then::OpTo(&o.op, Dest::Frame(Rc::new(f))))),
                    Term::Xtor(x) => Ok(self.frame(Self::args_of(&x.args), env, Then::CtorTo(&x.name, Dest::Frame(Rc::new(f))))),
                    Term::Mu(m) => {
                        if self.is_codata(&m.ty) {
                            Ok(St::Args(Self::push(&f, AVal::P(Rc::new(PVal::Thunk(p, env))))))
                        } else {
                            let k = Rc::new(CVal::ArgK(Rc::new(f)));
                            Ok(St::Run(&m.statement, env.bind_covar(&m.variable, k)))
                        }
                    }
                },
                ArgRef::C(c) => match c {
                    Term::XVar(_) | Term::XCase(_) => {
                        let k = self.covalue(c, &env)?;
                        Ok(St::Args(Self::push(&f, AVal::C(k))))
                    }
                    Term::Xtor(d) => Ok(self.frame(Self::args_of(&d.args), env, Then::DtorTo(&d.name, Rc::new(f)))),
                    Term::Mu(m) => {
                        if self.is_codata(&m.ty) {
                            // consumer first: the μ̃ runs now, the rest of the argument list
                            // becomes a by-name producer
                            let rest = Rc::new(PVal::Resume(Rc::new(f)));
                            Ok(St::Run(&m.statement, env.bind_var(&m.variable, rest)))
                        } else {
                            let k = self.covalue(c, &env)?;
                            Ok(St::Args(Self::push(&f, AVal::C(k))))
                        }
                    }
                    _ => stuck!("literal/op in consumer position"),
                },
            };
        }
        // all arguments are evaluated
        match f.then.clone() {
            Then::CtorTo(name, dest) => Ok(St::Deliver(Rc::new(PVal::Ctor(name, f.done)), dest)),
            Then::DtorCut(name, p, env) => Ok(St::Force(p, env, Rc::new(CVal::Dtor(name, f.done)))),
            Then::DtorTo(name, outer) => Ok(St::Args(Self::push(&outer, AVal::C(Rc::new(CVal::Dtor(name, f.done)))))),
            Then::Call(name) => {
                let Some(def) = self.find_def(name) else { stuck!("call of undefined {}", name.name) };
                if def.context.bindings.len() != f.done.len() {
                    stuck!("call {}: {} arguments for {} parameters", name.name, f.done.len(), def.context.bindings.len());
                }
                let mut env = Env::default();
                for (b, a) in def.context.bindings.iter().zip(f.done) {
                    env = match (&b.chi, a) {
                        (Chirality::Prd, AVal::P(v)) => env.bind_var(&b.var, v),
                        (Chirality::Cns, AVal::C(k)) => env.bind_covar(&b.var, k),
                        _ => stuck!("call {}: argument kind mismatch for {}", name.name, b.var.name),
                    };
                }
                Ok(St::Run(&def.body, env))
            }
            Then::OpTo(op, dest) => {
                let a = self.int_of(&f.done[0])?;
                let b = self.int_of(&f.done[1])?;
                let r = match op {
                    BinOp::Sum => a.wrapping_add(b),
                    BinOp::Sub => a.wrapping_sub(b),
                    BinOp::Prod => a.wrapping_mul(b),
                    BinOp::Div | BinOp::Rem => {
                        if b == 0 {
                            return Err(Outcome::Undefined("division by zero"));
                        }
                        if a == i64::MIN && b == -1 {
                            return Err(Outcome::Undefined("overflowing division"));
                        }
                        if matches!(op, BinOp::Div) { a / b } else { a % b }
                    }
                };
                Ok(St::Deliver(Rc::new(PVal::Int(r)), dest))
            }
            Then::If(i, env) => {
                let a = self.int_of(&f.done[0])?;
                let b = if f.done.len() > 1 { self.int_of(&f.done[1])? } else { 0 };
                let t = match i.sort {
                    IfSort::Equal => a == b,
                    IfSort::NotEqual => a != b,
                    IfSort::Less => a < b,
                    IfSort::LessOrEqual => a <= b,
                    IfSort::Greater => a > b,
                    IfSort::GreaterOrEqual => a >= b,
                };
                Ok(St::Run(if t { &i.thenc } else { &i.elsec }, env))
            }
            Then::Print(p, env) => {
                let a = self.int_of(&f.done[0])?;
                self.prints.push((p.newline, a));
                Ok(St::Run(&p.next, env))
            }
            Then::Exit => Err(Outcome::Exit(self.int_of(&f.done[0])?)),
        }
    }

    fn bind_clause<C: core_lang::syntax::Chi>(&self, clause: &'a Clause<C, Statement>, env: &Env<'a>, args: &[AVal<'a>]) -> Result<Env<'a>, Outcome> {
        if clause.context.bindings.len() != args.len() {
            stuck!("clause {}: {} binders for {} arguments", clause.xtor.name, clause.context.bindings.len(), args.len());
        }
        let mut e = env.clone();
        for (b, a) in clause.context.bindings.iter().zip(args) {
            e = match (&b.chi, a) {
                (Chirality::Prd, AVal::P(v)) => e.bind_var(&b.var, v.clone()),
                (Chirality::Cns, AVal::C(k)) => e.bind_covar(&b.var, k.clone()),
                _ => stuck!("clause {}: argument kind mismatch for {}", clause.xtor.name, b.var.name),
            };
        }
        Ok(e)
    }

    fn meet(&mut self, v: Rc<PVal<'a>>, k: Rc<CVal<'a>>) -> Result<St<'a>, Outcome> {
        match (&*v, &*k) {
            (_, CVal::ArgK(f)) => Ok(St::Args(Self::push(f, AVal::P(v.clone())))),
            (PVal::Thunk(p, env), CVal::MuT(x, s, kenv)) => {
                // only possible at codata types: bind by name
                let _ = (p, env);
                Ok(St::Run(s, kenv.bind_var(x, v.clone())))
            }
            (PVal::Thunk(p, env), _) => Ok(St::Force(p, env.clone(), k.clone())),
            (PVal::Resume(f), CVal::MuT(x, s, kenv)) => {
                let _ = f;
                Ok(St::Run(s, kenv.bind_var(x, v.clone())))
            }
            (PVal::Resume(f), _) => Ok(St::Args(Self::push(f, AVal::C(k.clone())))),
            (_, CVal::MuT(x, s, env)) => Ok(St::Run(s, env.bind_var(x, v.clone()))),
            (PVal::Ctor(name, args), CVal::Case(clauses, env)) => {
                let Some(clause) = clauses.iter().find(|c| c.xtor == **name) else { stuck!("no clause for constructor {}", name.name) };
                let e = self.bind_clause(clause, env, args)?;
                Ok(St::Run(&clause.body, e))
            }
            (PVal::CoCase(clauses, env), CVal::Dtor(name, args)) => {
                let Some(clause) = clauses.iter().find(|c| c.xtor == **name) else { stuck!("no clause for destructor {}", name.name) };
                let e = self.bind_clause(clause, env, args)?;
                Ok(St::Run(&clause.body, e))
            }
            _ => stuck!("ill-typed cut between a value and a covalue"),
        }
    }
}

pub fn run_core(prog: &Prog, entry: usize, args: &[i64], fuel: u64) -> Trace {
    let mut m = Machine::new(prog);
    let outcome = m.run_entry(entry, args, fuel);
    Trace { prints: m.prints, outcome, steps: m.steps }
}

// ---------------------------------------------------------------------------------------------
// embedding of the focused fragment
// ---------------------------------------------------------------------------------------------

use core_lang::syntax::program::FsProg;
use core_lang::syntax::statements::FsStatement;
use core_lang::syntax::terms::FsTerm;
use core_lang::syntax::{Arguments, ContextBinding, TypingContext};

fn ctx_args(ctx: &TypingContext) -> Arguments {
    Arguments {
        entries: ctx
            .bindings
            .iter()
            .map(|b: &ContextBinding| match b.chi {
                Chirality::Prd => Argument::Producer(Term::XVar(XVar { prdcns: Prd, var: b.var.clone(), ty: b.ty.clone() })),
                Chirality::Cns => Argument::Consumer(Term::XVar(XVar { prdcns: Cns, var: b.var.clone(), ty: b.ty.clone() })),
            })
            .collect(),
    }
}

fn var_term(id: &Identifier) -> Rc<Term<Prd>> {
    Rc::new(Term::XVar(XVar { prdcns: Prd, var: id.clone(), ty: Ty::I64 }))
}

fn unfocus_prd(t: &FsTerm<Prd>) -> Term<Prd> {
    match t {
        FsTerm::XVar(v) => Term::XVar(v.clone()),
        FsTerm::Literal(l) => Term::Literal(l.clone()),
        FsTerm::Op(o) => Term::Op(Op { fst: var_term(&o.fst), op: o.op.clone(), snd: var_term(&o.snd) }),
        FsTerm::Mu(m) => Term::Mu(Mu { prdcns: Prd, variable: m.variable.clone(), statement: Rc::new(unfocus_stmt(&m.statement)), ty: m.ty.clone() }),
        FsTerm::Xtor(x) => Term::Xtor(Xtor { prdcns: Prd, name: x.name.clone(), args: ctx_args(&x.args), ty: x.ty.clone() }),
        FsTerm::XCase(x) => Term::XCase(XCase {
            prdcns: Prd,
            clauses: x.clauses.iter().map(|c| Clause { prdcns: Prd, xtor: c.xtor.clone(), context: c.context.clone(), body: Rc::new(unfocus_stmt(&c.body)) }).collect(),
            ty: x.ty.clone(),
        }),
    }
}
fn unfocus_cns(t: &FsTerm<Cns>) -> Term<Cns> {
    match t {
        FsTerm::XVar(v) => Term::XVar(v.clone()),
        FsTerm::Literal(l) => Term::Literal(l.clone()),
        FsTerm::Op(o) => Term::Op(Op { fst: var_term(&o.fst), op: o.op.clone(), snd: var_term(&o.snd) }),
        FsTerm::Mu(m) => Term::Mu(Mu { prdcns: Cns, variable: m.variable.clone(), statement: Rc::new(unfocus_stmt(&m.statement)), ty: m.ty.clone() }),
        FsTerm::Xtor(x) => Term::Xtor(Xtor { prdcns: Cns, name: x.name.clone(), args: ctx_args(&x.args), ty: x.ty.clone() }),
        FsTerm::XCase(x) => Term::XCase(XCase {
            prdcns: Cns,
            clauses: x.clauses.iter().map(|c| Clause { prdcns: Cns, xtor: c.xtor.clone(), context: c.context.clone(), body: Rc::new(unfocus_stmt(&c.body)) }).collect(),
            ty: x.ty.clone(),
        }),
    }
}
pub fn unfocus_stmt(s: &FsStatement) -> Statement {
    match s {
        FsStatement::Cut(c) => Statement::Cut(Cut { producer: Rc::new(unfocus_prd(&c.producer)), ty: c.ty.clone(), consumer: Rc::new(unfocus_cns(&c.consumer)) }),
        FsStatement::IfC(i) => Statement::IfC(IfC {
            sort: i.sort.clone(),
            fst: var_term(&i.fst),
            snd: i.snd.as_ref().map(var_term),
            thenc: Rc::new(unfocus_stmt(&i.thenc)),
            elsec: Rc::new(unfocus_stmt(&i.elsec)),
        }),
        FsStatement::PrintI64(p) => Statement::PrintI64(PrintI64 { newline: p.newline, arg: var_term(&p.arg), next: Rc::new(unfocus_stmt(&p.next)) }),
        FsStatement::Call(c) => Statement::Call(Call { name: c.name.clone(), args: ctx_args(&c.args), ty: Ty::I64 }),
        FsStatement::Exit(e) => Statement::Exit(Exit { arg: var_term(&e.var), ty: Ty::I64 }),
    }
}
/// The focused fragment is a sub-language of Core: embed it so that one machine serves both.
pub fn unfocus(p: &FsProg) -> Prog {
    Prog {
        defs: p.defs.iter().map(|d| Def { name: d.name.clone(), context: d.context.clone(), body: unfocus_stmt(&d.body) }).collect(),
        data_types: p.data_types.clone(),
        codata_types: p.codata_types.clone(),
        max_id: p.max_id,
    }
}
