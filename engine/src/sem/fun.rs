//! R-FUN: reference abstract machine for checked Fun programs (DESIGN §3.2).
//!
//! 64-bit wrapping arithmetic, truncating division; integers and data are evaluated eagerly, left
//! to right, innermost first; a term of codata type in a *binding* position (let, argument) is
//! suspended with its environment and run once per elimination (by name); `label` reifies the
//! current consumer, `goto` installs it; `exit` terminates immediately. Destructor arguments are
//! evaluated before the scrutinee.
use super::ax::{Outcome, Trace};
use fun::syntax::context::Chirality;
use fun::syntax::declarations::Def;
use fun::syntax::program::CheckedProgram;
use fun::syntax::terms::*;
use fun::syntax::types::{OptTyped, Ty};
use std::collections::HashSet;
use std::rc::Rc;

pub enum Val<'a> {
    Int(i64),
    Data(&'a str, Vec<Arg<'a>>),
    /// a cocase closure
    Clo(&'a [Clause], Env<'a>),
    /// a suspended term of codata type
    Thunk(&'a Term, Env<'a>),
}
pub type V<'a> = Rc<Val<'a>>;

#[derive(Clone)]
pub enum Arg<'a> {
    Val(V<'a>),
    Covar(K<'a>),
}

pub struct EnvNode<'a> {
    name: &'a str,
    bind: Arg<'a>,
    parent: Env<'a>,
}
pub type Env<'a> = Option<Rc<EnvNode<'a>>>;

fn push<'a>(env: &Env<'a>, name: &'a str, bind: Arg<'a>) -> Env<'a> {
    Some(Rc::new(EnvNode { name, bind, parent: env.clone() }))
}
fn lookup<'a>(env: &Env<'a>, name: &str) -> Option<Arg<'a>> {
    let mut cur = env;
    while let Some(n) = cur {
        if n.name == name {
            return Some(n.bind.clone());
        }
        cur = &n.parent;
    }
    None
}

pub enum ArgsThen<'a> {
    Call(&'a str),
    Ctor(&'a str),
    /// destructor: arguments are done, now run the scrutinee against the observation
    Dtor(&'a str, &'a Term),
}

pub enum Cons<'a> {
    Halt,
    Let { var: &'a str, body: &'a Term, env: Env<'a>, k: K<'a> },
    Case { clauses: &'a [Clause], env: Env<'a>, k: K<'a> },
    Dtor { name: &'a str, args: Vec<Arg<'a>>, k: K<'a> },
    OpL { op: &'a BinOp, rhs: &'a Term, env: Env<'a>, k: K<'a> },
    OpR { op: &'a BinOp, lhs: i64, k: K<'a> },
    IfL { ifc: &'a IfC, env: Env<'a>, k: K<'a> },
    IfR { ifc: &'a IfC, fst: i64, env: Env<'a>, k: K<'a> },
    Print { newline: bool, next: &'a Term, env: Env<'a>, k: K<'a> },
    Exit,
    Args { pending: &'a [Term], done: Vec<Arg<'a>>, env: Env<'a>, then: Rc<ArgsThen<'a>>, k: K<'a> },
}
pub type K<'a> = Rc<Cons<'a>>;

enum Mode<'a> {
    Eval(&'a Term, Env<'a>, K<'a>),
    Apply(K<'a>, V<'a>),
    Args(&'a [Term], Vec<Arg<'a>>, Env<'a>, Rc<ArgsThen<'a>>, K<'a>),
}

pub struct Machine<'a> {
    prog: &'a CheckedProgram,
    codata: HashSet<String>,
    pub prints: Vec<(bool, i64)>,
    pub steps: u64,
}

fn base_name(n: &str) -> &str {
    n.split('[').next().unwrap_or(n)
}

pub fn term_ty(t: &Term) -> Option<Ty> {
    match t {
        Term::Paren(p) => term_ty(&p.inner),
        Term::Lit(_) | Term::Op(_) => Some(Ty::mk_i64()),
        _ => t.get_type(),
    }
}

impl<'a> Machine<'a> {
    pub fn new(prog: &'a CheckedProgram) -> Machine<'a> {
        let codata = prog.codata_types.iter().map(|c| base_name(&c.name).to_string()).collect();
        Machine { prog, codata, prints: Vec::new(), steps: 0 }
    }

    fn is_codata(&self, ty: &Option<Ty>) -> bool {
        match ty {
            Some(Ty::Decl { name, .. }) => self.codata.contains(name),
            _ => false,
        }
    }

    fn find_def(&self, name: &str) -> Option<&'a Def> {
        self.prog.defs.iter().find(|d| d.name == name)
    }

    pub fn run_main(&mut self, args: &[i64], fuel: u64) -> Outcome {
        let Some(main) = self.find_def("main").or_else(|| self.prog.defs.first()) else {
            return Outcome::Stuck("no definitions".into());
        };
        if main.context.bindings.len() != args.len() {
            return Outcome::Stuck("main arity mismatch".into());
        }
        let mut env: Env<'a> = None;
        for (b, a) in main.context.bindings.iter().zip(args) {
            env = push(&env, &b.var, Arg::Val(Rc::new(Val::Int(*a))));
        }
        self.run(Mode::Eval(&main.body, env, Rc::new(Cons::Halt)), fuel)
    }

    fn run(&mut self, mut mode: Mode<'a>, fuel: u64) -> Outcome {
        loop {
            self.steps += 1;
            if self.steps > fuel {
                return Outcome::Fuel;
            }
            mode = match mode {
                Mode::Eval(t, env, k) => match self.eval(t, env, k) {
                    Ok(m) => m,
                    Err(o) => return o,
                },
                Mode::Apply(k, v) => match self.apply(k, v) {
                    Ok(m) => m,
                    Err(o) => return o,
                },
                Mode::Args(pending, done, env, then, k) => match self.args(pending, done, env, then, k) {
                    Ok(m) => m,
                    Err(o) => return o,
                },
            };
        }
    }

    fn stuck<T>(&self, msg: impl Into<String>) -> Result<T, Outcome> {
        Err(Outcome::Stuck(msg.into()))
    }

    fn covar(&self, env: &Env<'a>, name: &str) -> Result<K<'a>, Outcome> {
        match lookup(env, name) {
            Some(Arg::Covar(k)) => Ok(k),
            Some(Arg::Val(_)) => self.stuck(format!("{name} is a variable, expected a covariable")),
            None => self.stuck(format!("unbound covariable {name}")),
        }
    }

    fn eval(&mut self, t: &'a Term, env: Env<'a>, k: K<'a>) -> Result<Mode<'a>, Outcome> {
        // a term of codata type meeting a binding consumer is suspended (by name)
        if let Cons::Let { var, body, env: kenv, k: k2 } = &*k {
            if self.is_codata(&term_ty(t)) {
                let v: V<'a> = match strip(t) {
                    Term::New(n) => Rc::new(Val::Clo(&n.clauses, env.clone())),
                    Term::XVar(x) => match lookup(&env, &x.var) {
                        Some(Arg::Val(v)) => v,
                        _ => return self.stuck(format!("unbound variable {}", x.var)),
                    },
                    other => Rc::new(Val::Thunk(other, env.clone())),
                };
                let env2 = push(kenv, var, Arg::Val(v));
                return Ok(Mode::Eval(body, env2, k2.clone()));
            }
        }
        match t {
            Term::Paren(p) => Ok(Mode::Eval(&p.inner, env, k)),
            Term::Lit(l) => Ok(Mode::Apply(k, Rc::new(Val::Int(l.lit)))),
            Term::XVar(x) => match lookup(&env, &x.var) {
                Some(Arg::Val(v)) => self.produce(v, k),
                Some(Arg::Covar(_)) => self.stuck(format!("{} is a covariable used as a term", x.var)),
                None => self.stuck(format!("unbound variable {}", x.var)),
            },
            Term::Op(o) => Ok(Mode::Eval(&o.fst, env.clone(), Rc::new(Cons::OpL { op: &o.op, rhs: &o.snd, env, k }))),
            Term::IfC(i) => Ok(Mode::Eval(&i.fst, env.clone(), Rc::new(Cons::IfL { ifc: i, env, k }))),
            Term::PrintI64(p) => Ok(Mode::Eval(&p.arg, env.clone(), Rc::new(Cons::Print { newline: p.newline, next: &p.next, env, k }))),
            Term::Let(l) => Ok(Mode::Eval(&l.bound_term, env.clone(), Rc::new(Cons::Let { var: &l.variable, body: &l.in_term, env, k }))),
            Term::Call(c) => Ok(Mode::Args(&c.args.entries, Vec::new(), env, Rc::new(ArgsThen::Call(&c.name)), k)),
            Term::Constructor(c) => Ok(Mode::Args(&c.args.entries, Vec::new(), env, Rc::new(ArgsThen::Ctor(&c.id)), k)),
            Term::Destructor(d) => Ok(Mode::Args(&d.args.entries, Vec::new(), env, Rc::new(ArgsThen::Dtor(&d.id, &d.scrutinee)), k)),
            Term::Case(c) => Ok(Mode::Eval(&c.scrutinee, env.clone(), Rc::new(Cons::Case { clauses: &c.clauses, env, k }))),
            Term::New(n) => self.produce(Rc::new(Val::Clo(&n.clauses, env)), k),
            Term::Label(l) => {
                let env2 = push(&env, &l.label, Arg::Covar(k.clone()));
                Ok(Mode::Eval(&l.term, env2, k))
            }
            Term::Goto(g) => {
                let target = self.covar(&env, &g.target)?;
                Ok(Mode::Eval(&g.term, env, target))
            }
            Term::Exit(e) => Ok(Mode::Eval(&e.arg, env, Rc::new(Cons::Exit))),
        }
    }

    /// A value meets a consumer.
    fn produce(&mut self, v: V<'a>, k: K<'a>) -> Result<Mode<'a>, Outcome> {
        match (&*v, &*k) {
            // codata values are only run against observations
            (Val::Thunk(t, tenv), Cons::Dtor { .. }) => Ok(Mode::Eval(t, tenv.clone(), k)),
            (Val::Thunk(t, tenv), Cons::Halt | Cons::Exit) => Ok(Mode::Eval(t, tenv.clone(), k)),
            _ => Ok(Mode::Apply(k, v)),
        }
    }

    fn int(&self, v: &V<'a>) -> Result<i64, Outcome> {
        match &**v {
            Val::Int(n) => Ok(*n),
            _ => self.stuck("expected an integer value"),
        }
    }

    fn apply(&mut self, k: K<'a>, v: V<'a>) -> Result<Mode<'a>, Outcome> {
        match &*k {
            Cons::Halt | Cons::Exit => Err(Outcome::Exit(self.int(&v)?)),
            Cons::Let { var, body, env, k } => Ok(Mode::Eval(body, push(env, var, Arg::Val(v)), k.clone())),
            Cons::Case { clauses, env, k } => {
                let Val::Data(ctor, fields) = &*v else { return self.stuck("case on a non-data value") };
                let Some(clause) = clauses.iter().find(|c| c.xtor == *ctor) else {
                    return self.stuck(format!("no clause for constructor {ctor}"));
                };
                if clause.context_names.bindings.len() != fields.len() {
                    return self.stuck(format!("clause {ctor}: wrong number of binders"));
                }
                let mut env2 = env.clone();
                for (name, f) in clause.context_names.bindings.iter().zip(fields) {
                    env2 = push(&env2, name, f.clone());
                }
                Ok(Mode::Eval(&clause.body, env2, k.clone()))
            }
            Cons::Dtor { name, args, k: k2 } => match &*v {
                Val::Clo(clauses, cenv) => {
                    let Some(clause) = clauses.iter().find(|c| c.xtor == *name) else {
                        return self.stuck(format!("no clause for destructor {name}"));
                    };
                    if clause.context_names.bindings.len() != args.len() {
                        return self.stuck(format!("clause {name}: wrong number of binders"));
                    }
                    let mut env2 = cenv.clone();
                    for (pname, a) in clause.context_names.bindings.iter().zip(args) {
                        env2 = push(&env2, pname, a.clone());
                    }
                    Ok(Mode::Eval(&clause.body, env2, k2.clone()))
                }
                Val::Thunk(t, tenv) => Ok(Mode::Eval(t, tenv.clone(), k.clone())),
                _ => self.stuck("destructor applied to a non-codata value"),
            },
            Cons::OpL { op, rhs, env, k } => {
                let lhs = self.int(&v)?;
                Ok(Mode::Eval(rhs, env.clone(), Rc::new(Cons::OpR { op, lhs, k: k.clone() })))
            }
            Cons::OpR { op, lhs, k } => {
                let rhs = self.int(&v)?;
                let r = match op {
                    BinOp::Sum => lhs.wrapping_add(rhs),
                    BinOp::Sub => lhs.wrapping_sub(rhs),
                    BinOp::Prod => lhs.wrapping_mul(rhs),
                    BinOp::Div | BinOp::Rem => {
                        if rhs == 0 {
                            return Err(Outcome::Undefined("division by zero"));
                        }
                        if *lhs == i64::MIN && rhs == -1 {
                            return Err(Outcome::Undefined("overflowing division"));
                        }
                        if matches!(op, BinOp::Div) { lhs / rhs } else { lhs % rhs }
                    }
                };
                Ok(Mode::Apply(k.clone(), Rc::new(Val::Int(r))))
            }
            Cons::IfL { ifc, env, k } => {
                let fst = self.int(&v)?;
                match &ifc.snd {
                    Some(snd) => Ok(Mode::Eval(snd, env.clone(), Rc::new(Cons::IfR { ifc, fst, env: env.clone(), k: k.clone() }))),
                    None => Ok(Mode::Eval(if cmp(&ifc.sort, fst, 0) { &ifc.thenc } else { &ifc.elsec }, env.clone(), k.clone())),
                }
            }
            Cons::IfR { ifc, fst, env, k } => {
                let snd = self.int(&v)?;
                Ok(Mode::Eval(if cmp(&ifc.sort, *fst, snd) { &ifc.thenc } else { &ifc.elsec }, env.clone(), k.clone()))
            }
            Cons::Print { newline, next, env, k } => {
                let n = self.int(&v)?;
                self.prints.push((*newline, n));
                Ok(Mode::Eval(next, env.clone(), k.clone()))
            }
            Cons::Args { pending, done, env, then, k } => {
                let mut done = done.clone();
                done.push(Arg::Val(v));
                Ok(Mode::Args(pending, done, env.clone(), then.clone(), k.clone()))
            }
        }
    }

    fn args(&mut self, pending: &'a [Term], mut done: Vec<Arg<'a>>, env: Env<'a>, then: Rc<ArgsThen<'a>>, k: K<'a>) -> Result<Mode<'a>, Outcome> {
        if let Some((first, rest)) = pending.split_first() {
            // covariable arguments are passed as they are
            if let Term::XVar(x) = first {
                if x.chi == Some(Chirality::Cns) {
                    done.push(Arg::Covar(self.covar(&env, &x.var)?));
                    return Ok(Mode::Args(rest, done, env, then, k));
                }
            }
            if self.is_codata(&term_ty(first)) {
                // by name: suspended, never evaluated here
                let v: V<'a> = match strip(first) {
                    Term::New(n) => Rc::new(Val::Clo(&n.clauses, env.clone())),
                    Term::XVar(x) => match lookup(&env, &x.var) {
                        Some(Arg::Val(v)) => v,
                        _ => return self.stuck(format!("unbound variable {}", x.var)),
                    },
                    other => Rc::new(Val::Thunk(other, env.clone())),
                };
                done.push(Arg::Val(v));
                return Ok(Mode::Args(rest, done, env, then, k));
            }
            return Ok(Mode::Eval(first, env.clone(), Rc::new(Cons::Args { pending: rest, done, env, then, k })));
        }
        match &*then {
            ArgsThen::Ctor(name) => Ok(Mode::Apply(k, Rc::new(Val::Data(name, done)))),
            ArgsThen::Call(name) => {
                let Some(def) = self.find_def(name) else { return self.stuck(format!("call of undefined {name}")) };
                if def.context.bindings.len() != done.len() {
                    return self.stuck(format!("call {name}: arity mismatch"));
                }
                let mut env2: Env<'a> = None;
                for (b, a) in def.context.bindings.iter().zip(done) {
                    env2 = push(&env2, &b.var, a);
                }
                Ok(Mode::Eval(&def.body, env2, k))
            }
            ArgsThen::Dtor(name, scrutinee) => Ok(Mode::Eval(scrutinee, env, Rc::new(Cons::Dtor { name, args: done, k }))),
        }
    }
}

fn strip(t: &Term) -> &Term {
    match t {
        Term::Paren(p) => strip(&p.inner),
        _ => t,
    }
}

fn cmp(sort: &IfSort, a: i64, b: i64) -> bool {
    match sort {
        IfSort::Equal => a == b,
        IfSort::NotEqual => a != b,
        IfSort::Less => a < b,
        IfSort::LessOrEqual => a <= b,
        IfSort::Greater => a > b,
        IfSort::GreaterOrEqual => a >= b,
    }
}

pub fn run_fun(prog: &CheckedProgram, args: &[i64], fuel: u64) -> Trace {
    let mut m = Machine::new(prog);
    let outcome = m.run_main(args, fuel);
    Trace { prints: m.prints, outcome, steps: m.steps }
}
