//! Builder for *linear* AxCut programs that inserts its own explicit substitutions (independent of
//! the repository's linearizer), and the fixed library of AxCut types used by the generators.
use axcut::syntax::statements::ifc::IfSort;
use axcut::syntax::statements::*;
use axcut::syntax::{
    BinOp, Chirality, ContextBinding, Def, Identifier, Prog, Statement, Ty, TypeDeclaration,
    TypingContext, XtorSig,
};
use std::rc::Rc;

pub fn ident(name: &str) -> Identifier {
    Identifier { name: name.to_string(), id: 0 }
}
pub fn ty(name: &str) -> Ty {
    Ty::Decl(ident(name))
}
pub fn ext(name: &str) -> ContextBinding {
    ContextBinding { var: ident(name), chi: Chirality::Ext, ty: Ty::I64 }
}
pub fn prd(name: &str, t: &str) -> ContextBinding {
    ContextBinding { var: ident(name), chi: Chirality::Prd, ty: ty(t) }
}
pub fn cns(name: &str, t: &str) -> ContextBinding {
    ContextBinding { var: ident(name), chi: Chirality::Cns, ty: ty(t) }
}
fn decl(name: &str, xtors: Vec<(&str, Vec<ContextBinding>)>) -> TypeDeclaration {
    TypeDeclaration {
        name: ident(name),
        xtors: xtors
            .into_iter()
            .map(|(n, args)| XtorSig { name: ident(n), args: TypingContext { bindings: args } })
            .collect(),
    }
}

/// The fixed type library. `R{n}` has one xtor `K{n}` with n integer fields (n = 0..=8), so object
/// sizes cross every block boundary (3/4, 5/6, 7/8).
pub fn std_types() -> Vec<TypeDeclaration> {
    let mut v = vec![
        decl("_Cont", vec![("Ret", vec![ext("x")])]),
        decl("Box", vec![("B", vec![ext("a")])]),
        decl("Pair", vec![("Tup", vec![ext("a"), ext("b")])]),
        decl("List", vec![("Nil", vec![]), ("Cons", vec![ext("x"), prd("xs", "List")])]),
        decl("Tri", vec![("T0", vec![]), ("T1", vec![ext("a")]), ("T2", vec![ext("a"), ext("b")])]),
        decl("Node", vec![("Leaf", vec![]), ("Fork", vec![prd("l", "Node"), ext("v"), prd("r", "Node")])]),
        decl(
            "Mix5",
            vec![("M5", vec![ext("a"), prd("p", "Box"), ext("b"), prd("q", "Box"), ext("c")])],
        ),
        // two blocks with a pointer field in each of them
        decl("PB", vec![("KPB", vec![prd("p", "Box"), ext("a"), ext("b"), prd("q", "Box")])]),
        decl("Fun", vec![("ap", vec![ext("x"), cns("k", "_Cont")])]),
        decl(
            "Obj",
            vec![
                ("m0", vec![cns("k", "_Cont")]),
                ("m1", vec![ext("a"), cns("k", "_Cont")]),
                ("m2", vec![ext("a"), ext("b"), cns("k", "_Cont")]),
            ],
        ),
        // methods with 0 / 6 / 12 integer parameters: the invoked object sits at position 2 / 8 / 14
        // of the environment (in a register, spilled on x86-64, spilled on AArch64)
        decl(
            "Wide",
            vec![
                ("wa", vec![cns("k", "_Cont")]),
                ("wb", (1..=6).map(|i| ext(&format!("p{i}"))).chain([cns("k", "_Cont")]).collect()),
                ("wc", (1..=12).map(|i| ext(&format!("p{i}"))).chain([cns("k", "_Cont")]).collect()),
            ],
        ),
        decl("Quad", vec![("Q0", vec![]), ("Q1", vec![]), ("Q2", vec![ext("a")]), ("Q3", vec![])]),
        // a closure type whose method takes a closure of the same type (self application)
        decl("Rec", vec![("run", vec![cns("f", "Rec"), ext("x")])]),
    ];
    for n in 0..=8usize {
        let fields: Vec<ContextBinding> = (0..n).map(|i| ext(&format!("f{i}"))).collect();
        let tn = format!("R{n}");
        let kn = format!("K{n}");
        v.push(TypeDeclaration {
            name: ident(&tn),
            xtors: vec![XtorSig { name: ident(&kn), args: TypingContext { bindings: fields } }],
        });
    }
    v
}

pub fn find_type<'a>(types: &'a [TypeDeclaration], name: &str) -> &'a TypeDeclaration {
    types.iter().find(|t| t.name.name == name).unwrap_or_else(|| panic!("type {name} not in library"))
}

#[derive(Clone)]
enum Step {
    Subst(Vec<(ContextBinding, Identifier)>),
    Let { var: Identifier, ty: Ty, tag: Identifier, args: TypingContext },
    Create { var: Identifier, ty: Ty, env: TypingContext, clauses: Vec<Clause> },
    Lit { var: Identifier, lit: i64 },
    Op { var: Identifier, fst: Identifier, op: BinOp, snd: Identifier },
    Print { var: Identifier, newline: bool },
}

pub type V = usize; // variable id

#[derive(Clone)]
pub struct Bld {
    pub ctx: Vec<ContextBinding>,
    steps: Vec<Step>,
    pub next_id: usize,
}

impl Bld {
    pub fn new(ctx: Vec<ContextBinding>, next_id: usize) -> Bld {
        Bld { ctx, steps: Vec::new(), next_id }
    }
    pub fn fresh(&mut self, name: &str) -> Identifier {
        self.next_id += 1;
        Identifier { name: name.to_string(), id: self.next_id }
    }
    pub fn binding(&self, v: V) -> &ContextBinding {
        self.ctx.iter().find(|b| b.var.id == v).unwrap_or_else(|| panic!("variable {v} not in builder context"))
    }
    pub fn ident_of(&self, v: V) -> Identifier {
        self.binding(v).var.clone()
    }
    pub fn ids(&self) -> Vec<V> {
        self.ctx.iter().map(|b| b.var.id).collect()
    }
    pub fn ints(&self) -> Vec<V> {
        self.ctx.iter().filter(|b| b.chi == Chirality::Ext).map(|b| b.var.id).collect()
    }

    /// Sub-builder for a clause body / method body: starts in `ctx`, shares the id counter.
    pub fn fork(&self, ctx: Vec<ContextBinding>) -> Bld {
        Bld { ctx, steps: Vec::new(), next_id: self.next_id }
    }
    pub fn join(&mut self, other: &Bld) {
        self.next_id = self.next_id.max(other.next_id);
    }

    /// Makes the environment exactly `order` (ids, repetition = copy, omission = drop) with an
    /// explicit substitution. Returns the ids of the new environment in order.
    pub fn arrange(&mut self, order: &[V]) -> Vec<V> {
        if order == self.ids().as_slice() {
            return order.to_vec();
        }
        let mut seen: Vec<V> = Vec::new();
        let mut rearrange = Vec::new();
        let mut new_ctx = Vec::new();
        for v in order {
            let old = self.binding(*v).clone();
            let new_binding = if seen.contains(v) {
                let id = self.fresh(&old.var.name);
                ContextBinding { var: id, chi: old.chi.clone(), ty: old.ty.clone() }
            } else {
                seen.push(*v);
                old.clone()
            };
            rearrange.push((new_binding.clone(), old.var.clone()));
            new_ctx.push(new_binding);
        }
        self.steps.push(Step::Subst(rearrange));
        self.ctx = new_ctx;
        self.ids()
    }
    /// Always emits a substitution, even if it is the identity (for C11-style probes).
    pub fn arrange_always(&mut self, order: &[V]) -> Vec<V> {
        if order == self.ids().as_slice() {
            let rearrange = self.ctx.iter().map(|b| (b.clone(), b.var.clone())).collect();
            self.steps.push(Step::Subst(rearrange));
            return order.to_vec();
        }
        self.arrange(order)
    }

    pub fn lit(&mut self, n: i64) -> V {
        let var = self.fresh("x");
        self.steps.push(Step::Lit { var: var.clone(), lit: n });
        self.ctx.push(ContextBinding { var: var.clone(), chi: Chirality::Ext, ty: Ty::I64 });
        var.id
    }
    pub fn op(&mut self, a: V, op: BinOp, b: V) -> V {
        let var = self.fresh("r");
        self.steps.push(Step::Op { var: var.clone(), fst: self.ident_of(a), op, snd: self.ident_of(b) });
        self.ctx.push(ContextBinding { var: var.clone(), chi: Chirality::Ext, ty: Ty::I64 });
        var.id
    }
    pub fn print(&mut self, a: V, newline: bool) {
        self.steps.push(Step::Print { var: self.ident_of(a), newline });
    }

    fn move_last(&mut self, args: &[V]) {
        let mut order: Vec<V> = self.ids().into_iter().filter(|v| !args.contains(v)).collect();
        order.extend_from_slice(args);
        // args may contain duplicates: arrange handles copies
        let new_ids = self.arrange(&order);
        let _ = new_ids;
    }

    /// `let v: T = K(args)`; the arguments are moved to the end of the environment first.
    /// (Arguments must be distinct variables.)
    pub fn let_(&mut self, types: &[TypeDeclaration], tname: &str, tag: &str, args: &[V]) -> V {
        self.move_last(args);
        let n = args.len();
        let arg_bindings: Vec<ContextBinding> = self.ctx[self.ctx.len() - n..].to_vec();
        let decl = find_type(types, tname);
        let sig = decl.xtors.iter().find(|x| x.name.name == tag).unwrap_or_else(|| panic!("xtor {tag}"));
        assert_eq!(sig.args.bindings.len(), n, "arity of {tag}");
        self.ctx.truncate(self.ctx.len() - n);
        let var = self.fresh("o");
        self.steps.push(Step::Let {
            var: var.clone(),
            ty: ty(tname),
            tag: ident(tag),
            args: TypingContext { bindings: arg_bindings },
        });
        self.ctx.push(ContextBinding { var: var.clone(), chi: Chirality::Prd, ty: ty(tname) });
        var.id
    }

    /// `create v: T = (env){ clauses }`; `env` is moved to the end first; `body` builds each
    /// method in the environment  params ++ env.
    pub fn create(
        &mut self,
        types: &[TypeDeclaration],
        tname: &str,
        env: &[V],
        mut body: impl FnMut(&str, Bld, &[V], &[V]) -> Statement,
    ) -> V {
        self.move_last(env);
        let n = env.len();
        let env_bindings: Vec<ContextBinding> = self.ctx[self.ctx.len() - n..].to_vec();
        self.ctx.truncate(self.ctx.len() - n);
        let decl = find_type(types, tname).clone();
        let mut clauses = Vec::new();
        for xtor in &decl.xtors {
            let mut params = Vec::new();
            for p in &xtor.args.bindings {
                let id = self.fresh(&p.var.name);
                params.push(ContextBinding { var: id, chi: p.chi.clone(), ty: p.ty.clone() });
            }
            let mut cctx = params.clone();
            cctx.extend(env_bindings.iter().cloned());
            let sub = self.fork(cctx);
            self.next_id += 1000;
            let pids: Vec<V> = params.iter().map(|b| b.var.id).collect();
            let eids: Vec<V> = env_bindings.iter().map(|b| b.var.id).collect();
            let stmt = body(&xtor.name.name, sub, &pids, &eids);
            clauses.push(Clause {
                xtor: xtor.name.clone(),
                context: TypingContext { bindings: params },
                body: Rc::new(stmt),
            });
        }
        let var = self.fresh("c");
        self.steps.push(Step::Create {
            var: var.clone(),
            ty: ty(tname),
            env: TypingContext { bindings: env_bindings },
            clauses,
        });
        self.ctx.push(ContextBinding { var: var.clone(), chi: Chirality::Cns, ty: ty(tname) });
        var.id
    }

    fn fold(self, terminal: Statement) -> Statement {
        let mut stmt = terminal;
        for step in self.steps.into_iter().rev() {
            stmt = match step {
                Step::Subst(rearrange) => Substitute { rearrange, next: Rc::new(stmt) }.into(),
                Step::Let { var, ty, tag, args } => {
                    Let { var, ty, tag, args, next: Rc::new(stmt), free_vars_next: None }.into()
                }
                Step::Create { var, ty, env, clauses } => Create {
                    var,
                    ty,
                    context: Some(env),
                    clauses,
                    free_vars_clauses: None,
                    next: Rc::new(stmt),
                    free_vars_next: None,
                }
                .into(),
                Step::Lit { var, lit } => Literal { lit, var, next: Rc::new(stmt), free_vars_next: None }.into(),
                Step::Op { var, fst, op, snd } => {
                    Op { fst, op, snd, var, next: Rc::new(stmt), free_vars_next: None }.into()
                }
                Step::Print { var, newline } => {
                    PrintI64 { newline, var, next: Rc::new(stmt), free_vars_next: None }.into()
                }
            };
        }
        stmt
    }

    // ---- terminals ---------------------------------------------------------------------------

    pub fn exit(self, v: V) -> Statement {
        let var = self.ident_of(v);
        self.fold(Exit { var }.into())
    }

    /// `call label` with exactly `args` as the environment.
    pub fn call(mut self, label: &str, args: &[V]) -> Statement {
        self.arrange(args);
        self.fold(Call { label: ident(label), args: TypingContext { bindings: vec![] } }.into())
    }

    /// `invoke v tag` with arguments `args` (moved in front of the closure).
    pub fn invoke(mut self, types: &[TypeDeclaration], v: V, tag: &str, args: &[V]) -> Statement {
        let mut order = args.to_vec();
        order.push(v);
        self.arrange(&order);
        let b = self.ctx.last().unwrap().clone();
        let Ty::Decl(tn) = &b.ty else { panic!() };
        let _ = find_type(types, &tn.name);
        self.fold(
            Invoke { var: b.var.clone(), tag: ident(tag), ty: b.ty.clone(), args: TypingContext { bindings: vec![] } }
                .into(),
        )
    }

    /// `switch v { clauses }`; `v` is moved last; `body` builds each clause in rest ++ fields.
    pub fn switch(
        mut self,
        types: &[TypeDeclaration],
        v: V,
        mut body: impl FnMut(&str, Bld, &[V]) -> Statement,
    ) -> Statement {
        self.move_last(&[v]);
        let b = self.ctx.pop().unwrap();
        let Ty::Decl(tn) = &b.ty else { panic!("switch on integer") };
        let decl = find_type(types, &tn.name).clone();
        let mut clauses = Vec::new();
        for xtor in &decl.xtors {
            let mut fields = Vec::new();
            for p in &xtor.args.bindings {
                let id = self.fresh(&p.var.name);
                fields.push(ContextBinding { var: id, chi: p.chi.clone(), ty: p.ty.clone() });
            }
            let mut cctx = self.ctx.clone();
            cctx.extend(fields.iter().cloned());
            let sub = self.fork(cctx);
            let fids: Vec<V> = fields.iter().map(|b| b.var.id).collect();
            // the clause builder advances ids; keep a generous gap so clauses never clash
            self.next_id += 1000;
            let stmt = body(&xtor.name.name, sub, &fids);
            clauses.push(Clause {
                xtor: xtor.name.clone(),
                context: TypingContext { bindings: fields },
                body: Rc::new(stmt),
            });
        }
        self.fold(Switch { var: b.var.clone(), ty: b.ty.clone(), clauses, free_vars_clauses: None }.into())
    }

    pub fn ifc(
        mut self,
        sort: IfSort,
        a: V,
        b: Option<V>,
        mut branch: impl FnMut(bool, Bld) -> Statement,
    ) -> Statement {
        let fst = self.ident_of(a);
        let snd = b.map(|x| self.ident_of(x));
        let t = self.fork(self.ctx.clone());
        self.next_id += 1000;
        let mut e = self.fork(self.ctx.clone());
        e.next_id = self.next_id;
        self.next_id += 1000;
        let thenc = Rc::new(branch(true, t));
        let elsec = Rc::new(branch(false, e));
        self.fold(IfC { sort, fst, snd, thenc, elsec }.into())
    }
}

pub fn def(name: &str, params: Vec<ContextBinding>, body: Statement) -> Def {
    Def { name: ident(name), context: TypingContext { bindings: params }, body }
}

pub fn prog(defs: Vec<Def>, types: Vec<TypeDeclaration>) -> Prog {
    Prog { defs, types, max_id: 1_000_000 }
}

pub fn param(name: &str, id: usize) -> ContextBinding {
    ContextBinding { var: Identifier { name: name.to_string(), id }, chi: Chirality::Ext, ty: Ty::I64 }
}
