//! G-FUN families: exhaustively enumerated Fun source programs (DESIGN §3.1).
use super::funlang::*;

pub struct FunCase {
    pub name: String,
    pub src: String,
    /// argument tuples for main
    pub inputs: Vec<Vec<i64>>,
    /// effects only in sequenced positions (domain of C01/C02)
    pub sequenced: bool,
}

pub struct FunSink<'a> {
    pub idx: u64,
    pub shard: u64,
    pub n: u64,
    pub f: &'a mut dyn FnMut(FunCase),
}
impl FunSink<'_> {
    pub fn offer(&mut self, mk: impl FnOnce() -> FunCase) {
        if self.idx % self.n == self.shard {
            (self.f)(mk());
        }
        self.idx += 1;
    }
}

pub const NAMES: [&str; 4] = ["x", "y", "x0", "a0"];

fn inputs1() -> Vec<Vec<i64>> {
    vec![vec![0], vec![1], vec![2], vec![-1], vec![7]]
}
fn inputs2() -> Vec<Vec<i64>> {
    vec![vec![0, 1], vec![5, 7], vec![-3, 2], vec![1 << 40, -1]]
}

pub struct FunCfg {
    pub thorough: bool,
    /// node bound of FUN-S (0 = the tier's default: 5 quick, 6 thorough); the full alphabet is used
    /// from 6 on
    pub small_max: usize,
    /// include the programs with effects in unsequenced positions (for C03 only)
    pub with_unsequenced: bool,
}

pub fn all_fun_families(cfg: &FunCfg, sink: &mut FunSink) {
    fam_small(cfg, sink);
    fam_shadow(cfg, sink);
    fam_live(cfg, sink);
    fam_lit_ops(cfg, sink);
    fam_data(cfg, sink);
    fam_ctrl(cfg, sink);
    fam_codata(cfg, sink);
    fam_names(cfg, sink);
    fam_arity(cfg, sink);
    fam_poly(cfg, sink);
    fam_wide(cfg, sink);
    fam_byname(cfg, sink);
    fam_declonly(cfg, sink);
    fam_alias(cfg, sink);
    fam_positions(cfg, sink);
    if cfg.with_unsequenced {
        fam_effect(cfg, sink);
    }
}

// ---- FUN-S: every well-typed main body up to a size bound ---------------------------------------
pub fn fam_small(cfg: &FunCfg, sink: &mut FunSink) {
    let max = if cfg.small_max > 0 { cfg.small_max } else if cfg.thorough { 6 } else { 5 };
    let mut alpha = Alphabet::small();
    if max < 6 {
        alpha.lits = vec![0, 2];
        alpha.ops = vec!["-", "*"];
    }
    let mut e = Enumerator::new(alpha);
    let scope = Scope { vars: vec![("n".into(), Ty::Int)], covars: vec![], pure_only: false };
    for size in 1..=max {
        let ts = e.terms(&Ty::Int, &scope, size);
        for (i, t) in ts.iter().enumerate() {
            sink.offer(|| FunCase {
                name: format!("small/s{size}/{i}"),
                src: program(&[main_def(&["n"], t.clone())]),
                inputs: vec![vec![0], vec![3], vec![-2]],
                sequenced: true,
            });
        }
    }
}

// ---- FUN-SHADOW: outer names under inner binders of the same name -------------------------------
pub fn fam_shadow(_cfg: &FunCfg, sink: &mut FunSink) {
    // f(OUTER, l): a branching construct whose clause/branch binds INNER, bound by `let`, followed
    // by a continuation that mentions OUTER
    let conts: Vec<(&str, fn(&str) -> T)> = vec![
        ("leaf", |_o| var("r")),
        ("add", |o| op(var("r"), "+", var(o))),
        ("call", |o| op(call("inc", vec![var("r")]), "*", var(o))),
        ("print", |o| print(true, var(o), var("r"))),
        ("nested", |o| let_("q", Ty::Int, op(var("r"), "-", var(o)), op(var("q"), "+", var(o)))),
    ];
    for outer in NAMES {
        for inner in NAMES {
            for (cname, cont) in &conts {
                for binder in ["clause", "iflet", "clause3", "cocase", "nestedcase"] {
                    let (outer, inner, cname, cont, binder) = (outer, inner, *cname, *cont, binder);
                    sink.offer(move || {
                        let branching: T = match binder {
                            "clause" => case_list(var("l"), lit(0), inner, "t", var(inner)),
                            "iflet" => ifz("==", var(outer), lit(3), let_(inner, Ty::Int, lit(9), op(var(inner), "+", lit(1)))),
                            "clause3" => T::Case(
                                Box::new(var("w")),
                                "",
                                vec![
                                    ("T0".into(), vec![], lit(1)),
                                    ("T1".into(), vec![inner.into()], var(inner)),
                                    ("T2".into(), vec![inner.into(), "b".into()], op(var(inner), "+", var("b"))),
                                ],
                            ),
                            "cocase" => ap(new_fun(inner, op(var(inner), "*", lit(2))), lit(4)),
                            _ => case_list(var("l"), lit(0), inner, "t", case_list(var("t"), var(inner), inner, "t", op(var(inner), "*", lit(10)))),
                        };
                        let body = let_("r", Ty::Int, branching, cont(outer));
                        let f = FunDef {
                            name: "f".into(),
                            params: vec![(outer.to_string(), Ty::Int), ("l".into(), Ty::List), ("w".into(), Ty::Tri)],
                            ret: Ty::Int,
                            body,
                        };
                        let main = main_def(
                            &["n", "m"],
                            print(
                                true,
                                call("f", vec![var("n"), ctor("Cons", vec![var("m"), ctor("Cons", vec![lit(11), ctor("Nil", vec![])])]), ctor("T2", vec![var("m"), lit(100)])]),
                                print(true, call("f", vec![var("m"), ctor("Nil", vec![]), ctor("T0", vec![])]), lit(0)),
                            ),
                        );
                        FunCase { name: format!("shadow/{binder}/{outer}/{inner}/{cname}"), src: program(&[f, main]), inputs: inputs2(), sequenced: true }
                    });
                }
            }
        }
    }
    // a shadowing binder that is live across a *branching scrutinee / destructee* (the continuation
    // of the branching term is then a case / destructor, which is shared through a compiler-generated
    // variable), and nested labels around a cocase (compiler-generated return covariables)
    for name in ["x", "a", "y", "x0", "a0", "x1"] {
        for shape in 0..8 {
            sink.offer(move || {
                let nm = name;
                let (fparams, body): (Vec<(String, Ty)>, T) = match shape {
                    0 => (
                        vec![(nm.into(), Ty::Int), ("l".into(), Ty::List)],
                        let_(nm, Ty::Int, op(var(nm), "+", lit(1)), case_list(T::Paren(Box::new(ifz("==", var(nm), var("l"), ctor("Cons", vec![lit(7), var("l")])))), var(nm), "h", "t", op(var("h"), "+", var(nm)))),
                    ),
                    1 => (
                        vec![(nm.into(), Ty::Int), ("l".into(), Ty::List)],
                        let_(nm, Ty::Int, op(var(nm), "*", lit(2)), ap(T::Paren(Box::new(ifz("==", var(nm), new_fun("q", op(var("q"), "+", lit(1))), new_fun("q", op(var("q"), "*", lit(3)))))), var(nm))),
                    ),
                    2 => (
                        vec![(nm.into(), Ty::Int), ("l".into(), Ty::List)],
                        case_list(T::Paren(Box::new(case_list(var("l"), ctor("Nil", vec![]), nm, "t", var("t")))), var(nm), nm, "t", op(var(nm), "*", lit(10))),
                    ),
                    3 => (
                        vec![(nm.into(), Ty::Int), ("l".into(), Ty::List)],
                        let_(nm, Ty::Int, op(var(nm), "+", lit(5)), let_("r", Ty::Int, case_list(T::Paren(Box::new(ifz("<", var(nm), ctor("Nil", vec![]), var("l")))), lit(0), nm, "t", var(nm)), op(var("r"), "+", var(nm)))),
                    ),
                    4 => (
                        vec![("n".into(), Ty::Int), ("l".into(), Ty::List)],
                        label(nm, label(nm, op(ap(new_fun("q", ifz("==", var("q"), goto(nm, lit(50)), op(var("q"), "+", lit(1)))), var("n")), "+", lit(100)))),
                    ),
                    5 => (
                        vec![("n".into(), Ty::Int), ("l".into(), Ty::List)],
                        label(nm, op(label(nm, ap(T::Paren(Box::new(ifz("==", var("n"), new_fun("q", goto(nm, var("q"))), new_fun("q", op(var("q"), "*", lit(2)))))), op(var("n"), "+", lit(3)))), "+", lit(1000))),
                    ),
                    6 => (
                        vec![(nm.into(), Ty::Int), ("l".into(), Ty::List)],
                        let_(nm, Ty::Int, op(var(nm), "-", lit(1)), let_(nm, Ty::Int, op(var(nm), "-", lit(1)), op(call("sum", vec![T::Paren(Box::new(ifz("==", var(nm), var("l"), ctor("Nil", vec![]))))]), "+", var(nm)))),
                    ),
                    _ => (
                        vec![(nm.into(), Ty::Int), ("l".into(), Ty::List)],
                        let_("f", Ty::Fun, new_fun(nm, let_(nm, Ty::Int, op(var(nm), "+", lit(1)), case_list(T::Paren(Box::new(ifz("==", var(nm), var("l"), ctor("Nil", vec![])))), var(nm), "h", "t", op(var("h"), "*", var(nm))))), op(ap(var("f"), var(nm)), "+", ap(var("f"), lit(0)))),
                    ),
                };
                let f = FunDef { name: "f".into(), params: fparams, ret: Ty::Int, body };
                let main = main_def(
                    &["n", "m"],
                    print(true, call("f", vec![var("n"), ctor("Cons", vec![var("m"), ctor("Cons", vec![lit(11), ctor("Nil", vec![])])])]), print(true, call("f", vec![var("m"), ctor("Nil", vec![])]), lit(0))),
                );
                FunCase { name: format!("shadow/across/{shape}/{nm}"), src: program(&[f, main]), inputs: vec![vec![0, 1], vec![5, 7], vec![-1, 0], vec![1, -1]], sequenced: true }
            });
        }
    }
    // shadowing that changes the TYPE or the chirality of the name (binder kinds: let, clause,
    // cocase clause, label over a variable, variable over a label / covariable parameter)
    for name in ["x", "a", "y", "x0"] {
        for shape in 0..7 {
            sink.offer(move || {
                let nm = name;
                let body: String = match shape {
                    0 => format!("let {nm}: i64 = sum({nm}) + n; {nm} * 2"),
                    1 => format!("{nm}.case[i64] {{ Nil => n, Cons({nm}, t) => {nm} + sum(t) }}"),
                    2 => format!("new {{ ap({nm}) => {nm} + n }}.ap[i64, i64](sum({nm}))"),
                    3 => format!("sum({nm}) + (label {nm} {{ if n == 0 {{ goto {nm} (7) }} else {{ n }} }})"),
                    4 => format!("label {nm} {{ let {nm}: i64 = n + 1; {nm} * 2 }}"),
                    5 => format!("let f: Fun[i64, List[i64]] = new {{ ap({nm}) => Cons({nm}, Nil) }}; sum(f.ap[i64, List[i64]](sum({nm}) + n))"),
                    _ => format!("label k {{ (new {{ ap(k) => k + 1 }}).ap[i64, i64](if n == 0 {{ goto k (sum({nm})) }} else {{ n }}) }}"),
                };
                let src = format!(
                    "{PRELUDE_TYPES}{PRELUDE_DEFS}def f({nm}: List[i64], n: i64): i64 {{ {body} }}\ndef main(n: i64, m: i64): i64 {{ println_i64(f(Cons(m, Cons(3, Nil)), n)); println_i64(f(Nil, m)); 0 }}\n"
                );
                FunCase { name: format!("shadow/retype/{shape}/{nm}"), src, inputs: vec![vec![0, 1], vec![5, 7], vec![-1, 0]], sequenced: true }
            });
        }
    }
    // covariable shadowing: outer label / covariable parameter vs inner label of the same name
    for outer in ["a", "a0", "k"] {
        for inner in ["a", "a0", "k"] {
            for variant in 0..3 {
                sink.offer(move || {
                    // label OUTER { let r = (label INNER { if n == 0 { goto INNER(1) } else { 2 } }); if r == 1 { goto OUTER(r + 10) } else { r + 20 } }
                    let inner_lab = label(inner, ifz("==", var("n"), goto(inner, lit(1)), lit(2)));
                    let body = match variant {
                        0 => label(outer, let_("r", Ty::Int, inner_lab, ifz("==", op(var("r"), "-", lit(1)), goto(outer, op(var("r"), "+", lit(10))), op(var("r"), "+", lit(20))))),
                        1 => label(outer, let_("r", Ty::Int, case_list(call("range", vec![var("n")]), inner_lab.clone(), "h", "t", var("h")), goto(outer, op(var("r"), "*", lit(3))))),
                        _ => label(outer, op(label(inner, ifz("<", var("n"), goto(outer, lit(100)), goto(inner, lit(5)))), "+", lit(1))),
                    };
                    FunCase { name: format!("shadow/label/{outer}/{inner}/v{variant}"), src: program(&[main_def(&["n"], print(true, body, lit(0)))]), inputs: inputs1(), sequenced: true }
                });
            }
        }
    }
    // binders with THREE names (definition parameters, constructor clause, destructor clause, lets)
    // around an inner clause that rebinds any injective selection of those names in any order; every
    // name is used inside and after, with position-dependent weights
    {
        let names = ["a", "b", "c"];
        let mut selections: Vec<[Option<usize>; 3]> = Vec::new();
        for x in 0..4usize {
            for y in 0..4usize {
                for z in 0..4usize {
                    let sel = [x, y, z].map(|v| if v < 3 { Some(v) } else { None });
                    let picked: Vec<usize> = sel.iter().flatten().copied().collect();
                    let mut d = picked.clone();
                    d.sort();
                    d.dedup();
                    if d.len() == picked.len() && !picked.is_empty() {
                        selections.push(sel);
                    }
                }
            }
        }
        for outer in 0..5 {
            for inner in 0..3 {
                for (si, sel) in selections.iter().enumerate() {
                    for cont in [false, true] {
                        let sel = *sel;
                        sink.offer(move || {
                            let binders: Vec<String> = sel.iter().enumerate().map(|(i, s)| s.map_or(format!("p{i}"), |v| names[v].to_string())).collect();
                            let bl = binders.join(", ");
                            // outer form 4 binds nothing: the names are only bound by the (sibling) clauses
                            let free_use = format!(
                                "w({}, {}, {})",
                                if sel.contains(&Some(0)) { "a" } else { "n" },
                                if sel.contains(&Some(1)) { "b" } else { "m" },
                                if sel.contains(&Some(2)) { "c" } else { "7" }
                            );
                            let use_all: &str = if outer == 4 { &free_use } else { "w(a, b, c)" };
                            let inner_t = match inner {
                                0 => format!("t.case {{ Mk3({bl}) => {use_all} }}"),
                                1 => format!("(new {{ ap3({bl}) => {use_all} }}).ap3(3, 4, 5)"),
                                _ => format!("(let s: i64 = t.case {{ Mk3({bl}) => {use_all} }}; Mk3(6, 8, 9).case {{ Mk3({bl}) => {use_all} + (s * 2) }})"),
                            };
                            let body = if cont { format!("let r: i64 = {inner_t}; r + ({} * 1000)", if outer == 4 { "w(n, m, 7)" } else { use_all }) } else { inner_t };
                            let (fdef, call) = match outer {
                                0 => (format!("def f(a: i64, b: i64, c: i64, t: Trip): i64 {{ {body} }}"), "f(n, m, 7, Mk3(3, 4, 5))".to_string()),
                                1 => (format!("def f(n: i64, m: i64, t: Trip): i64 {{ Mk3(n, m, 7).case {{ Mk3(a, b, c) => {body} }} }}"), "f(n, m, Mk3(3, 4, 5))".to_string()),
                                2 => (format!("def f(n: i64, m: i64, t: Trip): i64 {{ (new {{ ap3(a, b, c) => {body} }}).ap3(n, m, 7) }}"), "f(n, m, Mk3(3, 4, 5))".to_string()),
                                4 => (format!("def f(n: i64, m: i64, t: Trip): i64 {{ {body} }}"), "f(n, m, Mk3(3, 4, 5))".to_string()),
                                _ => (format!("def f(n: i64, m: i64, t: Trip): i64 {{ let a: i64 = n; let b: i64 = m; let c: i64 = 7; {body} }}"), "f(n, m, Mk3(3, 4, 5))".to_string()),
                            };
                            let src = format!(
                                "{PRELUDE_TYPES}data Trip {{ Mk3(a: i64, b: i64, c: i64) }}\ncodata Fun3 {{ ap3(a: i64, b: i64, c: i64): i64 }}\n{PRELUDE_DEFS}def w(a: i64, b: i64, c: i64): i64 {{ ((a * 100) + (b * 10)) + c }}\n{fdef}\ndef main(n: i64, m: i64): i64 {{ println_i64({call}); 0 }}\n"
                            );
                            FunCase { name: format!("shadow/rebind/o{outer}/i{inner}/s{si}/{}", if cont { "cont" } else { "tail" }), src, inputs: vec![vec![1, 2], vec![0, 9]], sequenced: true }
                        });
                    }
                }
            }
        }
    }
    // the same name bound again in a *sibling* scope (not shadowing: the inner binder is not in the
    // scope of the outer one): bound term of a let, both operands, destructor argument, scrutinee.
    // C ranges over non-branching and branching terms, D over the ways the inner name is used.
    for name in ["x", "a", "x0", "a0"] {
        for c in 0..5 {
            for d in 0..4 {
                for form in 0..8 {
                    sink.offer(move || {
                        let nm = name;
                        let cs = match c {
                            0 => "1".to_string(),
                            1 => "if n == 0 { 1 } else { 2 }".to_string(),
                            2 => "l.case[i64] { Nil => 0, Cons(h, t) => h }".to_string(),
                            3 => "inc(n)".to_string(),
                            _ => format!("l.case[i64] {{ Nil => 0, Cons({nm}, t) => {nm} + 3 }}"),
                        };
                        let ds = match d {
                            0 => nm.to_string(),
                            1 => format!("{nm} + 1"),
                            2 => format!("inc({nm})"),
                            _ => format!("if {nm} == 1 {{ {nm} }} else {{ n - {nm} }}"),
                        };
                        let inner = format!("(let {nm}: i64 = {cs}; {ds})");
                        let body = match form {
                            0 => format!("let {nm}: i64 = {inner}; {nm} * 10"),
                            1 => format!("let {nm}: i64 = {inner}; n * 10"),
                            2 => format!("{inner} + ({inner} * 100)"),
                            3 => format!("(new {{ ap({nm}) => {nm} + 1000 }}).ap[i64, i64]{inner}"),
                            4 => format!("(let {nm}: i64 = {cs}; Cons({ds}, l)).case[i64] {{ Nil => 0, Cons({nm}, t) => {nm} + sum(t) }}"),
                            5 => format!("let r: i64 = {inner}; let {nm}: i64 = {inner}; r + ({nm} * 100)"),
                            // sibling *clauses* of one case bind the name; in one of them a (branching)
                            // term in scrutinee / receiver position is continued by a use of the name
                            _ => {
                                let scrut = match c {
                                    0 => format!("(if n == 0 {{ Nil }} else {{ Cons(q, Nil) }}).case[i64] {{ Nil => {ds}, Cons(h, t) => h + ({ds}) }}"),
                                    1 => format!("(l.case[i64] {{ Nil => Nil, Cons(h, t) => t }}).case[i64] {{ Nil => {ds}, Cons(h, t) => h + ({ds}) }}"),
                                    2 => format!("(if n == 0 {{ new {{ ap(u) => u + {nm} }} }} else {{ new {{ ap(u) => u - {nm} }} }}).ap[i64, i64](({ds}) + q)"),
                                    3 => format!("range(q).case[i64] {{ Nil => {ds}, Cons(h, t) => h + ({ds}) }}"),
                                    _ => format!("(if {nm} == 0 {{ Nil }} else {{ Cons({nm}, Nil) }}).case[i64] {{ Nil => {ds}, Cons(h, t) => (h * 10) + ({ds}) }}"),
                                };
                                let simple = format!("T1({nm}) => {ds}");
                                let complex = format!("T2({nm}, q) => {scrut}");
                                let clauses = if form == 6 { format!("T0 => 0, {simple}, {complex}") } else { format!("{complex}, T0 => 0, {simple}") };
                                format!("let r: i64 = (if n == 0 {{ T1(5) }} else {{ T2(n, 2) }}).case {{ {clauses} }}; let s: i64 = T2(1, n).case {{ {clauses} }}; (r * 1000) + (s + (T1(n).case {{ {clauses} }}))")
                            }
                        };
                        let src = format!(
                            "{PRELUDE_TYPES}{PRELUDE_DEFS}def f(n: i64, l: List[i64]): i64 {{ {body} }}\ndef main(n: i64, m: i64): i64 {{ println_i64(f(n, Cons(m, Cons(3, Nil)))); println_i64(f(m, Nil)); 0 }}\n"
                        );
                        FunCase { name: format!("shadow/reuse/{form}/c{c}/d{d}/{nm}"), src, inputs: vec![vec![0, 1], vec![5, 7], vec![1, 0]], sequenced: true }
                    });
                }
            }
        }
    }
}

// ---- FUN-LIVE(k): k live variables around one construct ------------------------------------------
pub fn fam_live(cfg: &FunCfg, sink: &mut FunSink) {
    let ks: Vec<usize> = if cfg.thorough { (0..=20).collect() } else { vec![0, 1, 5, 6, 7, 12, 13, 14, 18] };
    for k in ks {
        for pat in ["int", "obj", "alt"] {
            for construct in ["print", "case", "call", "closure", "op", "if", "label", "if_last_first", "if_first_last", "op_last_first"] {
                sink.offer(move || {
                    // let v0..v{k-1}; CONSTRUCT; sum of all
                    let names: Vec<String> = (0..k).map(|i| format!("v{i}")).collect();
                    let is_obj = |i: usize| match pat {
                        "int" => false,
                        "obj" => true,
                        _ => i % 2 == 1,
                    };
                    // use of every variable afterwards
                    let mut total: T = var("z");
                    for (i, nme) in names.iter().enumerate() {
                        let use_ = if is_obj(i) { call("sum", vec![var(nme)]) } else { var(nme) };
                        total = op(total, "+", use_);
                    }
                    let mid: T = match construct {
                        "print" => print(true, if k > 0 && !is_obj(k - 1) { var(&names[k - 1]) } else { var("n") }, var("n")),
                        "case" => case_list(call("range", vec![var("n")]), lit(-5), "h", "t", op(var("h"), "+", call("sum", vec![var("t")]))),
                        "call" => call("inc", vec![var("n")]),
                        "closure" => ap(new_fun("q", op(var("q"), "+", var("n"))), lit(3)),
                        "op" => op(var("n"), "%", lit(3)),
                        "if" => if_("<", var("n"), lit(2), lit(10), lit(20)),
                        // operands taken from the two ends of the environment (register vs spill)
                        "if_last_first" => {
                            let last = (0..k).rev().find(|i| !is_obj(*i)).map(|i| names[i].clone()).unwrap_or("n".into());
                            if_("<", var(&last), var("n"), lit(10), lit(20))
                        }
                        "if_first_last" => {
                            let last = (0..k).rev().find(|i| !is_obj(*i)).map(|i| names[i].clone()).unwrap_or("n".into());
                            if_(">=", var("n"), var(&last), lit(10), lit(20))
                        }
                        "op_last_first" => {
                            let last = (0..k).rev().find(|i| !is_obj(*i)).map(|i| names[i].clone()).unwrap_or("n".into());
                            op(op(var(&last), "-", var("n")), "*", op(var("n"), "-", var(&last)))
                        }
                        _ => label("a", ifz("==", var("n"), goto("a", lit(7)), lit(8))),
                    };
                    let mut body = let_("z", Ty::Int, mid, total);
                    for (i, nme) in names.iter().enumerate().rev() {
                        let (ty, init) = if is_obj(i) {
                            (Ty::List, ctor("Cons", vec![lit(i as i64 + 1), ctor("Nil", vec![])]))
                        } else {
                            (Ty::Int, op(var("n"), "+", lit(i as i64 * 10)))
                        };
                        body = let_(nme, ty, init, body);
                    }
                    FunCase { name: format!("live/k{k}/{pat}/{construct}"), src: program(&[main_def(&["n"], print(true, body, lit(0)))]), inputs: vec![vec![0], vec![4], vec![-1]], sequenced: true }
                });
            }
        }
    }
}

// ---- FUN-LIT / FUN-OPS ------------------------------------------------------------------------------
pub fn fam_lit_ops(cfg: &FunCfg, sink: &mut FunSink) {
    let mut lits: Vec<i64> = vec![0, 1, -1, 2, 255, 256, 4095, 4096, 65535, 65536, -65536];
    for k in if cfg.thorough { vec![7u32, 8, 15, 16, 31, 32, 47, 48, 62] } else { vec![16, 31, 32, 48, 62] } {
        let p = 1i64 << k;
        lits.extend_from_slice(&[p, p - 1, p + 1, -p, -p - 1, -p + 1]);
    }
    lits.extend_from_slice(&[i64::MAX, i64::MIN + 1, 0x1234_5678_9abc_def0u64 as i64, 0xffff_0000_ffff_0000u64 as i64]);
    lits.sort();
    lits.dedup();
    for (li, l) in lits.iter().enumerate() {
        for placement in ["let", "live7", "operand", "compare", "field", "arg", "result"] {
            let l = *l;
            sink.offer(move || {
                let body = match placement {
                    "let" => let_("c", Ty::Int, lit(l), print(true, var("c"), lit(0))),
                    "live7" => {
                        // the literal is bound as the 8th live variable (spill slot on x86-64)
                        let mut b = let_("c", Ty::Int, lit(l), print(true, var("c"), op(op(op(var("v0"), "+", var("v1")), "+", op(var("v2"), "+", var("v3"))), "+", op(op(var("v4"), "+", var("v5")), "+", op(var("v6"), "+", var("c"))))));
                        for i in (0..7).rev() {
                            b = let_(&format!("v{i}"), Ty::Int, op(var("n"), "+", lit(i)), b);
                        }
                        b
                    }
                    "operand" => print(true, op(var("n"), "+", lit(l)), print(true, op(lit(l), "-", var("n")), lit(0))),
                    "compare" => if_("<", var("n"), lit(l), print(true, lit(1), lit(0)), print(true, lit(2), lit(0))),
                    "field" => print(true, case_list(ctor("Cons", vec![lit(l), ctor("Nil", vec![])]), lit(0), "h", "t", var("h")), lit(0)),
                    "arg" => print(true, call("inc", vec![lit(l)]), lit(0)),
                    _ => lit(l),
                };
                FunCase { name: format!("lit/{placement}/{li}"), src: program(&[main_def(&["n"], body)]), inputs: vec![vec![0], vec![-1]], sequenced: true }
            });
        }
    }
    let cmps = ["==", "!=", "<", "<=", ">", ">="];
    for o in ["+", "-", "*", "/", "%"] {
        for shape in ["vv", "vl", "lv", "nest_l", "nest_r", "same"] {
            sink.offer(move || {
                let t = match shape {
                    "vv" => op(var("n"), o, var("m")),
                    "vl" => op(var("n"), o, lit(3)),
                    "lv" => op(lit(100), o, var("m")),
                    "nest_l" => op(op(var("n"), o, var("m")), o, lit(2)),
                    "nest_r" => op(lit(50), o, op(var("n"), o, var("m"))),
                    _ => op(var("n"), o, var("n")),
                };
                FunCase {
                    name: format!("ops/{}/{shape}", match o { "+" => "add", "-" => "sub", "*" => "mul", "/" => "div", _ => "rem" }),
                    src: program(&[main_def(&["n", "m"], print(true, t, lit(0)))]),
                    inputs: vec![vec![7, 3], vec![-7, 3], vec![7, -3], vec![-7, -3], vec![0, 5], vec![i64::MAX, 2], vec![5, 0]],
                    sequenced: true,
                }
            });
        }
    }
    // arithmetic while the *first* variable of the environment is a block pointer that is used
    // afterwards (x86-64 borrows exactly that variable's registers for idiv)
    for o in ["+", "-", "*", "/", "%"] {
        for kind in ["list", "pair", "closure", "nil"] {
            for order in ["ab", "ba", "aa"] {
                sink.offer(move || {
                    let (ty, val, use_) = match kind {
                        "list" => ("List[i64]", "Cons(10, Cons(20, Nil))", "o.case[i64] { Nil => r, Cons(y, ys) => (y + r) + sum(ys) }"),
                        "nil" => ("List[i64]", "Nil", "o.case[i64] { Nil => r, Cons(y, ys) => y + r }"),
                        "pair" => ("Pair[i64, i64]", "Tup(30, 40)", "o.case[i64, i64] { Tup(y, z) => ((y * 2) + z) + r }"),
                        _ => ("Fun[i64, i64]", "new { ap(q) => q + 1000 }", "o.ap[i64, i64](r)"),
                    };
                    let e = match order {
                        "ab" => format!("a {o} b"),
                        "ba" => format!("b {o} a"),
                        _ => format!("a {o} a"),
                    };
                    let src = format!(
                        "{PRELUDE_TYPES}{PRELUDE_DEFS}def f(o: {ty}, a: i64, b: i64): i64 {{ let r: i64 = {e}; {use_} }}\ndef main(n: i64, m: i64): i64 {{ println_i64(f({val}, n, m)); 0 }}\n"
                    );
                    FunCase {
                        name: format!("ops/first_{kind}/{}/{order}", match o { "+" => "add", "-" => "sub", "*" => "mul", "/" => "div", _ => "rem" }),
                        src,
                        inputs: vec![vec![7, 3], vec![-7, 3], vec![17, -5], vec![i64::MAX, 2]],
                        sequenced: true,
                    }
                });
            }
        }
    }
    for c in cmps {
        for form in ["two", "zero_r", "zero_l", "lit_r", "nested"] {
            sink.offer(move || {
                let (t, e) = (print(false, lit(1), lit(10)), print(false, lit(2), lit(20)));
                let term = match form {
                    "two" => if_(c, var("n"), var("m"), t, e),
                    "zero_r" => ifz(c, var("n"), t, e),
                    "zero_l" => T::IfZeroLeft(c, Box::new(var("n")), Box::new(t), Box::new(e)),
                    "lit_r" => if_(c, var("n"), lit(5), t, e),
                    _ => if_(c, op(var("n"), "+", lit(1)), op(var("m"), "*", lit(2)), t, e),
                };
                FunCase {
                    name: format!("cmp/{}/{form}", match c { "==" => "eq", "!=" => "ne", "<" => "lt", "<=" => "le", ">" => "gt", _ => "ge" }),
                    src: program(&[main_def(&["n", "m"], term)]),
                    inputs: vec![vec![0, 0], vec![1, 0], vec![-1, 0], vec![5, 5], vec![4, 5], vec![6, 5], vec![i64::MIN + 1, i64::MAX]],
                    sequenced: true,
                }
            });
        }
    }
}

// ---- FUN-DATA: constructors of arity 0..8, multi-constructor types, nested and shared structures --
pub fn fam_data(_cfg: &FunCfg, sink: &mut FunSink) {
    for n in 0..=8usize {
        for variant in ["unique", "shared", "nested"] {
            sink.offer(move || {
                let fields: Vec<String> = (0..n).map(|i| format!("f{i}: i64")).collect();
                let decl = format!("data Big {{ Mk{} }}\n", if n == 0 { String::new() } else { format!("({})", fields.join(", ")) });
                let args: Vec<T> = (0..n).map(|i| op(var("n"), "+", lit(i as i64))).collect();
                let binders: Vec<String> = (0..n).map(|i| format!("g{i}")).collect();
                let mut sum: T = lit(1000);
                for b in &binders {
                    sum = op(op(sum, "*", lit(2)), "+", var(b));
                }
                let scrut = |v: &str| T::Case(Box::new(var(v)), "", vec![("Mk".into(), binders.clone(), sum.clone())]);
                let body = match variant {
                    "unique" => let_("o", Ty::Int, T::Paren(Box::new(T::Case(Box::new(T::Ctor("Mk".into(), args.clone())), "", vec![("Mk".into(), binders.clone(), sum.clone())]))), print(true, var("o"), lit(0))),
                    "shared" => format_let_obj("b", "Big", T::Ctor("Mk".into(), args.clone()), print(true, scrut("b"), print(true, scrut("b"), lit(0)))),
                    _ => format_let_obj(
                        "b",
                        "Big",
                        T::Ctor("Mk".into(), args.clone()),
                        format_let_obj("c", "Big", T::Ctor("Mk".into(), args.iter().rev().cloned().collect()), print(true, scrut("b"), print(true, scrut("c"), lit(0)))),
                    ),
                };
                let mut src = String::from(PRELUDE_TYPES);
                src.push_str(&decl);
                src.push_str(PRELUDE_DEFS);
                src.push_str(&main_def(&["n"], body).render());
                FunCase { name: format!("data/arity{n}/{variant}"), src, inputs: vec![vec![0], vec![5]], sequenced: true }
            });
        }
    }
    // multi-constructor types: every constructor, clauses written in every rotation of the order
    // every permutation of the four clauses (24) x every constructor
    let mut perms: Vec<[usize; 4]> = Vec::new();
    for a in 0..4 {
        for b in 0..4 {
            for c in 0..4 {
                for d in 0..4 {
                    let p = [a, b, c, d];
                    let mut q = p;
                    q.sort();
                    if q == [0, 1, 2, 3] {
                        perms.push(p);
                    }
                }
            }
        }
    }
    for (rot, perm) in perms.into_iter().enumerate() {
        for which in 0..4usize {
            sink.offer(move || {
                let ctors = ["Q0", "Q1", "Q2", "Q3"];
                let clauses: Vec<(String, Vec<String>, T)> = vec![
                    ("Q0".into(), vec![], lit(10)),
                    ("Q1".into(), vec!["p".into()], op(var("p"), "+", lit(20))),
                    ("Q2".into(), vec![], lit(30)),
                    ("Q3".into(), vec!["p".into(), "q".into()], op(var("p"), "*", var("q"))),
                ];
                let clauses: Vec<(String, Vec<String>, T)> = perm.iter().map(|i| clauses[*i].clone()).collect();
                let value = match which {
                    0 => T::Ctor(ctors[0].into(), vec![]),
                    1 => T::Ctor(ctors[1].into(), vec![var("n")]),
                    2 => T::Ctor(ctors[2].into(), vec![]),
                    _ => T::Ctor(ctors[3].into(), vec![var("n"), lit(3)]),
                };
                let body = format_let_obj("v", "Quad", value, print(true, T::Case(Box::new(var("v")), "", clauses), lit(0)));
                let mut src = String::from(PRELUDE_TYPES);
                src.push_str("data Quad { Q0, Q1(a: i64), Q2, Q3(a: i64, b: i64) }\n");
                src.push_str(PRELUDE_DEFS);
                src.push_str(&main_def(&["n"], body).render());
                FunCase { name: format!("data/quad/rot{rot}/ctor{which}"), src, inputs: vec![vec![2], vec![-4]], sequenced: true }
            });
            // the same match with the constructor itself as scrutinee (a cut whose two sides are
            // both known; the clause is selected at compile time)
            let perm2 = perm.clone();
            sink.offer(move || {
                let clauses = ["Q0 => 10", "Q1(p) => p + 20", "Q2 => 30", "Q3(p, q) => p * q"];
                let written: Vec<&str> = perm2.iter().map(|i| clauses[*i]).collect();
                let value = ["Q0", "Q1(n)", "Q2", "Q3(n, 3)"][which];
                let src = format!(
                    "{PRELUDE_TYPES}data Quad {{ Q0, Q1(a: i64), Q2, Q3(a: i64, b: i64) }}\n{PRELUDE_DEFS}def main(n: i64): i64 {{ println_i64({value}.case {{ {} }}); 0 }}\n",
                    written.join(", ")
                );
                FunCase { name: format!("data/quad_known/rot{rot}/ctor{which}"), src, inputs: vec![vec![2], vec![-4]], sequenced: true }
            });
        }
    }
    // cocase clauses of a three-destructor type written in every order (6) x every destructor
    for (pi, perm) in [[0usize, 1, 2], [0, 2, 1], [1, 0, 2], [1, 2, 0], [2, 0, 1], [2, 1, 0]].into_iter().enumerate() {
        for which in 0..3usize {
            sink.offer(move || {
                let clauses = ["m0 => n + 1000", "m1(a) => (a * 10) + n", "m3(a, b, c) => ((a * 100) + (b * 10)) + (c + n)"];
                let written: Vec<&str> = perm.iter().map(|i| clauses[*i]).collect();
                let call = ["o.m0", "o.m1(5)", "o.m3(1, 2, 3)"][which];
                let src = format!(
                    "{PRELUDE_TYPES}codata Obj3 {{ m0: i64, m1(a: i64): i64, m3(a: i64, b: i64, c: i64): i64 }}\n{PRELUDE_DEFS}def mk(n: i64): Obj3 {{ new {{ {} }} }}\ndef main(n: i64): i64 {{ let o: Obj3 = mk(n); println_i64({call}); println_i64(mk(n + 1).m1(2)); 0 }}\n",
                    written.join(", ")
                );
                FunCase { name: format!("data/cocase3/perm{pi}/m{which}"), src, inputs: vec![vec![2], vec![-4]], sequenced: true }
            });
            // the destructor applied to the cocase itself
            sink.offer(move || {
                let clauses = ["m0 => n + 1000", "m1(a) => (a * 10) + n", "m3(a, b, c) => ((a * 100) + (b * 10)) + (c + n)"];
                let written: Vec<&str> = perm.iter().map(|i| clauses[*i]).collect();
                let call = [".m0", ".m1(5)", ".m3(1, 2, 3)"][which];
                let src = format!(
                    "{PRELUDE_TYPES}codata Obj3 {{ m0: i64, m1(a: i64): i64, m3(a: i64, b: i64, c: i64): i64 }}\n{PRELUDE_DEFS}def main(n: i64): i64 {{ println_i64(new {{ {} }}{call}); 0 }}\n",
                    written.join(", ")
                );
                FunCase { name: format!("data/cocase3_known/perm{pi}/m{which}"), src, inputs: vec![vec![2], vec![-4]], sequenced: true }
            });
        }
    }
    // lists: build, map with a closure, fold, share
    for n in [0i64, 1, 3, 6] {
        sink.offer(move || {
            let src = format!(
                "{PRELUDE_TYPES}{PRELUDE_DEFS}def map(f: Fun[i64, i64], l: List[i64]): List[i64] {{ l.case[i64] {{ Nil => Nil, Cons(h, t) => Cons(f.ap[i64, i64](h), map(f, t)) }} }}\n\
                 def main(n: i64): i64 {{ let l: List[i64] = range({n}); let d: i64 = n * 2; let m: List[i64] = map(new {{ ap(q) => (q * d) + n }}, l); println_i64(sum(m)); println_i64(sum(l)); println_i64(sum(map(new {{ ap(q) => q - 1 }}, m))); 0 }}\n"
            );
            FunCase { name: format!("data/lists/n{n}"), src, inputs: vec![vec![1], vec![5]], sequenced: true }
        });
    }
}

fn format_let_obj(x: &str, tyname: &'static str, a: T, b: T) -> T {
    // `let x: Ty = a; b` for a user-declared monomorphic type
    T::Paren(Box::new(T::Var(format!("let {x}: {tyname} = {}; {}", a_render3(&a), b.render()))))
}
fn a_render3(a: &T) -> String {
    match a {
        T::Print(..) => format!("({})", a.render()),
        _ => a.render(),
    }
}

// ---- FUN-CTRL: label/goto, exit, covariable parameters ---------------------------------------------
pub fn fam_ctrl(_cfg: &FunCfg, sink: &mut FunSink) {
    let progs: Vec<(&str, String)> = vec![
        ("early_exit", "def main(n: i64): i64 { println_i64(1); if n == 0 { exit 42 } else { println_i64(2); n } }".into()),
        ("exit_in_let", "def main(n: i64): i64 { let x: i64 = if n < 0 { exit (0 - n) } else { n * 2 }; println_i64(x); x }".into()),
        ("exit_in_case", "def main(n: i64): i64 { let l: List[i64] = range(n); l.case[i64] { Nil => exit 9, Cons(h, t) => println_i64(h); sum(t) } }".into()),
        ("exit_nested_def", "def g(v: i64): i64 { if v == 3 { exit 33 } else { v + 1 } }\ndef main(n: i64): i64 { println_i64(g(n)); println_i64(g(n + 1)); 0 }".into()),
        ("label_unused", "def main(n: i64): i64 { println_i64(label a { n + 1 }); 0 }".into()),
        ("label_goto", "def main(n: i64): i64 { println_i64(label a { if n == 0 { goto a (100) } else { n * 3 } }); 0 }".into()),
        ("label_goto_deep", "def main(n: i64): i64 { println_i64(label a { 1 + (label b { if n == 0 { goto a (10) } else { if n == 1 { goto b (20) } else { 30 } } }) }); 0 }".into()),
        ("label_in_loop", "def find(l: List[i64], v: i64): i64 { label ret { l.case[i64] { Nil => 0 - 1, Cons(h, t) => if h == v { goto ret (h * 100) } else { find(t, v) } } } }\ndef main(n: i64): i64 { println_i64(find(range(5), n)); 0 }".into()),
        ("covar_param", "def safe_div(p: i64, q: i64, k :cns i64): i64 { if q == 0 { goto k (0 - 1) } else { p / q } }\ndef main(n: i64): i64 { println_i64(label e { 1000 + safe_div(100, n, e) }); 0 }".into()),
        ("covar_param_middle", "def pick(x: i64, k :cns i64, y: i64): i64 { if x == 0 { goto k (y) } else { x * y } }\ndef three(k1 :cns i64, p: i64, k2 :cns i64, q: i64): i64 { if p == 1 { goto k1 (q) } else { if p == 2 { goto k2 (q + 1) } else { p - q } } }\ndef main(n: i64): i64 { println_i64(label out { pick(n, out, 7) * 100 }); println_i64(label a { 10 + (label b { 100 + three(a, n, b, 5) }) }); 0 }".into()),
        ("covar_param_twice", "def pick(p: i64, k1 :cns i64, k2 :cns i64): i64 { if p == 0 { goto k1 (1) } else { if p == 1 { goto k2 (2) } else { 3 } } }\ndef main(n: i64): i64 { println_i64(label a { 10 + (label b { 100 + pick(n, a, b) }) }); 0 }".into()),
        ("label_data", "def main(n: i64): i64 { let l: List[i64] = label a { if n == 0 { goto a (Nil) } else { Cons(n, Nil) } }; println_i64(sum(l)); 0 }".into()),
        ("label_reenter", "def main(n: i64): i64 { let r: i64 = label a { if n < 0 { goto a (0 - n) } else { n } }; println_i64(r); println_i64(r + 1); 0 }".into()),
        ("covar_in_data", "data K { MkK(k :cns i64) }\ndef use(b: K, v: i64): i64 { b.case { MkK(k) => goto k (v) } }\ndef main(n: i64): i64 { println_i64(label a { 1 + use(MkK(a), n) }); 0 }".into()),
        ("goto_in_closure", "def main(n: i64): i64 { println_i64(label a { let f: Fun[i64, i64] = new { ap(q) => if q == 0 { goto a (77) } else { q + 1 } }; (f.ap[i64, i64](n)) + (f.ap[i64, i64](n + 1)) }); 0 }".into()),
        ("print_order", "def main(n: i64): i64 { print_i64(1); println_i64(2); let x: i64 = (println_i64(3); n); println_i64(x); if x == 0 { println_i64(4); 0 } else { println_i64(5); 1 } }".into()),
        ("result_mod_256", "def main(n: i64): i64 { (n * 1000) + 300 }".into()),
    ];
    for (name, body) in progs {
        sink.offer(move || FunCase { name: format!("ctrl/{name}"), src: format!("{PRELUDE_TYPES}{PRELUDE_DEFS}{body}\n"), inputs: vec![vec![0], vec![1], vec![2], vec![3], vec![-5]], sequenced: true });
    }
    // covariable parameters (and the labels passed for them) named inside the namespaces the
    // translation generates names in; every path — jump to the first, to the second, normal return
    for (k1, k2) in [("a0", "a1"), ("a1", "a0"), ("a0", "x0"), ("x0", "a0"), ("a", "a0"), ("a5", "a1")] {
        sink.offer(move || {
            let body = format!(
                "def pick(p: i64, {k1} :cns i64, {k2} :cns i64): i64 {{ if p == 0 {{ goto {k1} (1) }} else {{ if p == 1 {{ goto {k2} (2) }} else {{ p + 3 }} }} }}\n                 def one(x: i64, {k1} :cns i64): i64 {{ if x == 0 {{ goto {k1} (7) }} else {{ x }} }}\n                 def main(n: i64): i64 {{ println_i64(label {k2} {{ 10 + (label {k1} {{ 100 + pick(n, {k2}, {k1}) }}) }}); println_i64(label {k1} {{ 100 + one(n, {k1}) }}); 0 }}"
            );
            FunCase { name: format!("ctrl/covar_names/{k1}-{k2}"), src: format!("{PRELUDE_TYPES}{PRELUDE_DEFS}{body}\n"), inputs: vec![vec![0], vec![1], vec![2], vec![5]], sequenced: true }
        });
    }
    // empty declarations: a cocase / case without clauses among other binders (before, between,
    // after them), the empty object passed around and stored
    let empties: Vec<(&str, &str)> = vec![
        ("unit_let", "codata Unit { }\ndef main(n: i64): i64 { let x: i64 = n + 1; let u: Unit = new { }; let y: i64 = x * 2; let z: i64 = range(y).case[i64] { Nil => x, Cons(h, t) => h + y }; println_i64(z - x); 0 }"),
        ("unit_first", "codata Unit { }\ndef main(n: i64): i64 { let u: Unit = new { }; let x: i64 = n + 1; let y: i64 = x * 2; println_i64((let z: i64 = y - x; z * 3) + x); 0 }"),
        ("unit_arg", "codata Unit { }\ndef keep(u: Unit, v: i64): i64 { let w: i64 = v + 1; w * 2 }\ndef main(n: i64): i64 { let x: i64 = n + 5; println_i64(keep(new { }, x) + x); let y: i64 = keep(new { }, n); println_i64(y - x); 0 }"),
        ("unit_field", "codata Unit { }\ndata Box { MkBox(u: Unit, v: i64) }\ndef main(n: i64): i64 { let b: Box = MkBox(new { }, n + 2); println_i64(b.case { MkBox(u, v) => let w: i64 = v * 3; w - n }); 0 }"),
        ("unit_in_helper", "codata Unit { }\ndef mk(n: i64): Unit { new { } }\ndef g(a: i64, b: i64): i64 { let u: Unit = mk(a); let c: i64 = a - b; let d: i64 = c * 2; d + a }\ndef main(n: i64): i64 { println_i64(g(n, 3)); println_i64(g(10, n)); 0 }"),
    ];
    for (name, body) in empties {
        sink.offer(move || FunCase { name: format!("ctrl/empty/{name}"), src: format!("{PRELUDE_TYPES}{PRELUDE_DEFS}{body}\n"), inputs: vec![vec![0], vec![1], vec![4]], sequenced: true });
    }
}

// ---- codata: by-name bindings, streams, lazy pairs, multi-destructor objects ------------------------
pub fn fam_codata(_cfg: &FunCfg, sink: &mut FunSink) {
    let progs: Vec<(&str, String)> = vec![
        ("stream_take", "def take(k: i64, s: Stream[i64]): List[i64] { if k <= 0 { Nil } else { Cons(s.hd[i64], take(k - 1, s.tl[i64])) } }\ndef main(n: i64): i64 { println_i64(sum(take(n, nats(3)))); 0 }".into()),
        ("stream_let", "def main(n: i64): i64 { let s: Stream[i64] = nats(n); println_i64((s.hd[i64]) + (s.tl[i64].hd[i64])); 0 }".into()),
        ("fun_let", "def main(n: i64): i64 { let f: Fun[i64, i64] = new { ap(q) => q * n }; println_i64((f.ap[i64, i64](2)) + (f.ap[i64, i64](3))); 0 }".into()),
        ("fun_arg", "def twice(f: Fun[i64, i64], v: i64): i64 { f.ap[i64, i64](f.ap[i64, i64](v)) }\ndef main(n: i64): i64 { println_i64(twice(new { ap(q) => q + n }, 10)); 0 }".into()),
        ("fun_returned", "def adder(d: i64): Fun[i64, i64] { new { ap(q) => q + d } }\ndef main(n: i64): i64 { println_i64(adder(n).ap[i64, i64](5)); let g: Fun[i64, i64] = adder(n * 2); println_i64(g.ap[i64, i64](1)); 0 }".into()),
        ("fun_if", "def main(n: i64): i64 { let f: Fun[i64, i64] = if n == 0 { new { ap(q) => q + 1 } } else { new { ap(q) => q * 2 } }; println_i64(f.ap[i64, i64](21)); 0 }".into()),
        ("obj3", "codata Obj { m0: i64, m1(a: i64): i64, m3(a: i64, b: i64, c: i64): i64 }\ndef main(n: i64): i64 { let o: Obj = new { m0 => n, m1(a) => a + n, m3(a, b, c) => ((a * 100) + (b * 10)) + (c + n) }; println_i64(o.m0); println_i64(o.m1(5)); println_i64(o.m3(1, 2, 3)); 0 }".into()),
        ("lpair", "codata LPair[A, B] { lfst: A, lsnd: B }\ndef swap(p: LPair[i64, i64]): LPair[i64, i64] { new { lfst => p.lsnd[i64, i64], lsnd => p.lfst[i64, i64] } }\ndef main(n: i64): i64 { let p: LPair[i64, i64] = swap(new { lfst => n, lsnd => n + 1 }); println_i64(p.lfst[i64, i64]); println_i64(p.lsnd[i64, i64]); 0 }".into()),
        ("closure_in_list", "data FL { FNil, FCons(f: Fun[i64, i64], r: FL) }\ndef apply_all(l: FL, v: i64): i64 { l.case { FNil => v, FCons(f, r) => apply_all(r, f.ap[i64, i64](v)) } }\ndef main(n: i64): i64 { println_i64(apply_all(FCons(new { ap(q) => q + n }, FCons(new { ap(q) => q * 3 }, FNil)), 2)); 0 }".into()),
        ("self_application", "codata Rec { run(o: Rec, k: i64): i64 }\ndef main(n: i64): i64 { let d: i64 = n + 40; let o: Rec = new { run(o2, k) => if k <= 0 { d } else { o2.run(o2, k - 1) } }; println_i64(o.run(o, n)); println_i64(o.run(new { run(o3, k) => k * 2 }, 5)); 0 }".into()),
        ("self_application_pair", "codata Rec { run(o: Rec, p: Rec, k: i64): i64 }\ndef main(n: i64): i64 { let a1: i64 = n * 3; let o: Rec = new { run(q, r, k) => if k <= 0 { a1 } else { r.run(r, q, k - 1) } }; let u: Rec = new { run(q, r, k) => k + a1 }; println_i64(o.run(o, u, 1)); println_i64(o.run(u, o, 2)); println_i64(o.run(o, o, n)); 0 }".into()),
        ("return_codata_var", "def pick(b: i64, f: Fun[i64, i64], g: Fun[i64, i64]): Fun[i64, i64] { if b == 0 { f } else { g } }\ndef idf(f: Fun[i64, i64]): Fun[i64, i64] { f }\ndef main(n: i64): i64 { println_i64(pick(n, new { ap(q) => q + 1 }, new { ap(q) => q * 2 }).ap[i64, i64](20)); println_i64(idf(pick(n - 1, new { ap(q) => q - 7 }, idf(new { ap(q) => q * n }))).ap[i64, i64](5)); 0 }".into()),
        ("return_codata_clause", "def sel(l: List[i64], f: Stream[i64], g: Stream[i64]): Stream[i64] { l.case[i64] { Nil => f, Cons(h, t) => g } }\ndef main(n: i64): i64 { println_i64(sel(range(n), nats(10), nats(20)).hd[i64]); println_i64(sel(Nil, nats(n), nats(5)).tl[i64].hd[i64]); 0 }".into()),
        ("return_codata_label", "def viaLabel(b: i64, f: Fun[i64, i64], g: Fun[i64, i64]): Fun[i64, i64] { label k { if b == 0 { goto k (f) } else { g } } }\ndef main(n: i64): i64 { println_i64(viaLabel(n, new { ap(q) => q + 3 }, new { ap(q) => q * 5 }).ap[i64, i64](4)); 0 }".into()),
        ("label_cocase_reenter", "def handler(a: i64, b: i64, n: i64): Fun[i64, i64] { label k { new { ap(x) => if x < 0 { goto k (new { ap(y) => y + n }) } else { (x * a) * b } } } }\ndef main(n: i64): i64 { println_i64(handler(2, 3, n).ap[i64, i64](7)); println_i64(handler(2, 3, n).ap[i64, i64](0 - 1)); 0 }".into()),
        ("label_cocase_apply", "def mk(n: i64): Fun[i64, i64] { label k { new { ap(x) => if x == 0 { (goto k (new { ap(y) => y + n })).ap[i64, i64](x) } else { x * n } } } }\ndef main(n: i64): i64 { println_i64(mk(n + 1).ap[i64, i64](3)); println_i64(mk(n + 1).ap[i64, i64](0)); 0 }".into()),
        ("label_stream_body", "def from(n: i64): Stream[i64] { label k { new { hd => n, tl => if n == 2 { goto k (nats(50)) } else { from(n + 1) } } } }\ndef main(n: i64): i64 { println_i64(from(n).tl[i64].hd[i64]); println_i64(from(n).tl[i64].tl[i64].hd[i64]); 0 }".into()),
        // the receiver of a destructor is a branching term whose branches are destructor invocations /
        // calls / variables with a codata result of ANOTHER type than their own receiver
        ("receiver_if_of_dtors", "codata Scaler { scale(x: i64): i64 }\ncodata Shop { stock: i64, price: i64, discount: Scaler }\ndef mkShop(n: i64): Shop { new { stock => n, price => n * 10, discount => new { scale(x) => x - n } } }\ndef pick(b: i64, s1: Shop, s2: Shop): i64 { (if b == 0 { s1.discount } else { s2.discount }).scale(100) }\ndef main(n: i64): i64 { println_i64(pick(n, mkShop(3), mkShop(7))); println_i64(pick(0, mkShop(n), mkShop(1))); 0 }".into()),
        ("receiver_case_of_dtors", "codata Scaler { scale(x: i64): i64 }\ncodata Shop { stock: i64, price: i64, discount: Scaler }\ndef mkShop(n: i64): Shop { new { stock => n, price => n * 10, discount => new { scale(x) => x - n } } }\ndef pick(l: List[i64], s1: Shop, s2: Shop): i64 { (l.case[i64] { Nil => s1.discount, Cons(h, t) => s2.discount }).scale(100) }\ndef main(n: i64): i64 { println_i64(pick(range(n), mkShop(3), mkShop(7))); 0 }".into()),
        ("receiver_if_of_calls", "def adder(d: i64): Fun[i64, i64] { new { ap(q) => q + d } }\ndef pick(b: i64): i64 { (if b == 0 { adder(1) } else { adder(b * 10) }).ap[i64, i64](100) }\ndef main(n: i64): i64 { println_i64(pick(n)); println_i64(pick(0)); 0 }".into()),
        ("receiver_if_of_streams", "def pick(b: i64, s: Stream[Stream[i64]]): i64 { (if b == 0 { s.hd[Stream[i64]] } else { s.tl[Stream[i64]].hd[Stream[i64]] }).tl[i64].hd[i64] }\ndef rows(k: i64): Stream[Stream[i64]] { new { hd => nats(k), tl => rows(k * 10) } }\ndef main(n: i64): i64 { println_i64(pick(n, rows(1))); println_i64(pick(0, rows(n + 2))); 0 }".into()),
        ("capture_many", "def main(n: i64): i64 { let a1: i64 = n + 1; let a2: i64 = n + 2; let a3: i64 = n + 3; let a4: i64 = n + 4; let a5: i64 = n + 5; let l: List[i64] = range(3); let f: Fun[i64, i64] = new { ap(q) => ((((q + a1) + a2) + a3) + a4) + (a5 + sum(l)) }; println_i64(f.ap[i64, i64](100)); println_i64(f.ap[i64, i64](200)); println_i64(sum(l)); 0 }".into()),
    ];
    for (name, body) in progs {
        sink.offer(move || FunCase { name: format!("codata/{name}"), src: format!("{PRELUDE_TYPES}{PRELUDE_DEFS}{body}\n"), inputs: vec![vec![0], vec![1], vec![4]], sequenced: true });
    }
}

// ---- user identifiers that look like generated names ------------------------------------------------
pub fn fam_names(_cfg: &FunCfg, sink: &mut FunSink) {
    let def_names = ["share_main_0", "share_f_0", "lift_main__1", "lab1", "cleanup", "asm_main", "main_", "f", "print_i64x", "heap", "rax", "x0", "a0"];
    for dn in def_names {
        sink.offer(move || {
            let src = format!(
                "{PRELUDE_TYPES}{PRELUDE_DEFS}def {dn}(v: i64, l: List[i64]): i64 {{ let r: i64 = l.case[i64] {{ Nil => 0, Cons(h, t) => h }}; if v == 0 {{ r + 1 }} else {{ r + v }} }}\n\
                 def main(n: i64): i64 {{ let w: i64 = if n == 0 {{ {dn}(n, range(2)) }} else {{ {dn}(n, Nil) }}; println_i64(w); let u: i64 = range(n).case[i64] {{ Nil => 5, Cons(h, t) => h }}; println_i64(u + w); 0 }}\n"
            );
            FunCase { name: format!("names/def/{dn}"), src, inputs: vec![vec![0], vec![3]], sequenced: true }
        });
    }
    // a parameter (variable or covariable) named like its own definition; a variable named like another definition
    for (i, src_body) in [
        "def fac(fac: i64): i64 { if fac <= 1 { 1 } else { fac * fac(fac - 1) } }\ndef main(n: i64): i64 { println_i64(fac(n)); 0 }",
        "def esc(v: i64, esc :cns i64): i64 { if v == 0 { goto esc (7) } else { v + 1 } }\ndef main(n: i64): i64 { println_i64(label k { 100 + esc(n, k) }); 0 }",
        "def inc2(v: i64): i64 { v + 2 }\ndef main(n: i64): i64 { let inc2: i64 = inc2(n); let inc: i64 = inc(inc2); println_i64(inc + inc2); 0 }",
        "def main(main: i64): i64 { println_i64(main); main }",
    ]
    .into_iter()
    .enumerate()
    {
        sink.offer(move || FunCase { name: format!("names/param_like_def/{i}"), src: format!("{PRELUDE_TYPES}{PRELUDE_DEFS}{src_body}\n"), inputs: vec![vec![0], vec![3]], sequenced: true });
    }
    let var_names = ["x0", "a0", "x1", "a1", "lab1", "rax", "rsp", "share_main_0"];
    for vn in var_names {
        sink.offer(move || {
            let src = format!(
                "{PRELUDE_TYPES}{PRELUDE_DEFS}def main(n: i64): i64 {{ let {vn}: i64 = n + 1; let r: i64 = inc(inc({vn}) * (sum(range({vn})))); println_i64(r + {vn}); label {vn}k {{ if r == 0 {{ goto {vn}k (1) }} else {{ 0 }} }} }}\n"
            );
            FunCase { name: format!("names/var/{vn}"), src, inputs: vec![vec![0], vec![2]], sequenced: true }
        });
    }
    // names that are prefixes of each other across declarations of the same shape, used at the same
    // type arguments: destructors `app`/`app2`, constructors `Mk`/`Mk2`, types `Fn`/`Fn2`, in both
    // orders of first use (the definition that creates an instance first comes first / last)
    for (d1, d2) in [("app", "app2"), ("app2", "app"), ("get", "getOr"), ("d1", "d10")] {
        for order in 0..2 {
            sink.offer(move || {
                let use_def = format!("def use(n: i64): i64 {{ (mkb(n).{d2}[i64, i64](1, 2)) + (mka(n).{d1}[i64, i64](3)) }}");
                let mk_defs = format!("def mka(n: i64): Fn[i64, i64] {{ new {{ {d1}(x) => x + n }} }}\ndef mkb(n: i64): Fn2[i64, i64] {{ new {{ {d2}(x, y) => (x * y) + n }} }}");
                let defs = if order == 0 { format!("{use_def}\n{mk_defs}") } else { format!("{mk_defs}\n{use_def}") };
                let src = format!(
                    "{PRELUDE_TYPES}codata Fn[A, B] {{ {d1}(x: A): B }}\ncodata Fn2[A, B] {{ {d2}(x: A, y: A): B }}\ndata Bx[A] {{ Mk(a: A) }}\ndata Bx2[A] {{ Mk2(a: A, b: A) }}\n{PRELUDE_DEFS}{defs}\n                     def unbox(n: i64): i64 {{ (Mk2(n, 1).case[i64] {{ Mk2(a, b) => a - b }}) + (Mk(n).case[i64] {{ Mk(a) => a * 2 }}) }}\n                     def main(n: i64): i64 {{ println_i64(use(n)); println_i64(unbox(n)); 0 }}\n"
                );
                FunCase { name: format!("names/prefix/{d1}-{d2}/o{order}"), src, inputs: vec![vec![0], vec![3]], sequenced: true }
            });
        }
    }
    // a declaration that applies ANOTHER template to its own type parameter, the parameter named
    // unlike / like the parameters of the applied template
    for tp in ["T", "A", "B", "Elem"] {
        sink.offer(move || {
            let src = format!(
                "{PRELUDE_TYPES}data Bx[{tp}] {{ MkBx(content: List[{tp}], more: Pair[{tp}, List[{tp}]]) }}\ncodata Str[{tp}] {{ shd: {tp}, smap(f: Fun[{tp}, {tp}]): Str[{tp}] }}\n{PRELUDE_DEFS}                 def unbox(b: Bx[i64]): i64 {{ b.case[i64] {{ MkBx(c, m) => sum(c) + (m.case[i64, List[i64]] {{ Tup(p, q) => p + sum(q) }}) }} }}\n                 def consts(v: i64): Str[i64] {{ new {{ shd => v, smap(f) => consts(f.ap[i64, i64](v)) }} }}\n                 def main(n: i64): i64 {{ println_i64(unbox(MkBx(Cons(n, Cons(2, Nil)), Tup(n, Nil)))); println_i64(consts(n).smap[i64](new {{ ap(q) => q + 5 }}).shd[i64]); 0 }}\n"
            );
            FunCase { name: format!("names/typaram/{tp}"), src, inputs: vec![vec![0], vec![3]], sequenced: true }
        });
    }
    let type_names = [("Cont", "Ret"), ("List_1", "Nil_"), ("T", "C"), ("Lab1", "Cleanup")];
    for (tn, cn) in type_names {
        sink.offer(move || {
            let src = format!(
                "{PRELUDE_TYPES}{PRELUDE_DEFS}data {tn} {{ {cn}(v: i64), {cn}2 }}\ndef main(n: i64): i64 {{ let o: {tn} = if n == 0 {{ {cn}2 }} else {{ {cn}(n) }}; println_i64(o.case {{ {cn}(v) => v, {cn}2 => 7 }}); 0 }}\n"
            );
            FunCase { name: format!("names/type/{tn}"), src, inputs: vec![vec![0], vec![2]], sequenced: true }
        });
    }
}

// ---- FUN-ARITY: every supported number of parameters of main, each parameter observable by position ----
pub fn fam_arity(_cfg: &FunCfg, sink: &mut FunSink) {
    for k in 0..=5usize {
        for shape in 0..4 {
            sink.offer(move || {
                let ps: Vec<String> = (1..=k).map(|i| format!("p{i}")).collect();
                let sig = ps.iter().map(|p| format!("{p}: i64")).collect::<Vec<_>>().join(", ");
                let weighted = |names: &[String]| {
                    let mut e = String::from("0");
                    for (i, n) in names.iter().enumerate() {
                        e = format!("({e}) + ({n} * {})", i + 2);
                    }
                    e
                };
                let body = match shape {
                    0 => {
                        let mut b = String::new();
                        for p in &ps {
                            b.push_str(&format!("println_i64({p}); "));
                        }
                        b.push('0');
                        b
                    }
                    1 => format!("println_i64({}); 0", weighted(&ps)),
                    2 => {
                        // a helper with k + 2 parameters, called with the parameters reversed
                        let mut args: Vec<String> = ps.iter().rev().cloned().collect();
                        args.push("100".into());
                        args.push("7".into());
                        format!("println_i64(g({})); 0", args.join(", "))
                    }
                    _ => {
                        // parameters captured by a closure and stored in a list, read back in order
                        let mut l = String::from("Nil");
                        for p in ps.iter().rev() {
                            l = format!("Cons({p}, {l})");
                        }
                        format!("let f: Fun[i64, i64] = new {{ ap(q) => q + ({}) }}; println_i64(f.ap[i64, i64](1)); println_i64(sum({l})); {}", weighted(&ps), ps.last().cloned().unwrap_or("0".into()))
                    }
                };
                let qs: Vec<String> = (1..=k + 2).map(|i| format!("q{i}")).collect();
                let gsig = qs.iter().map(|p| format!("{p}: i64")).collect::<Vec<_>>().join(", ");
                let src = format!("{PRELUDE_TYPES}{PRELUDE_DEFS}def g({gsig}): i64 {{ {} }}\ndef main({sig}): i64 {{ {body} }}\n", weighted(&qs));
                let a: Vec<i64> = [11, 22, 33, 44, 55][..k].to_vec();
                let b: Vec<i64> = [-1, 0, 1 << 40, 7, -9][..k].to_vec();
                FunCase { name: format!("arity/k{k}/s{shape}"), src, inputs: if k == 0 { vec![vec![]] } else { vec![a, b] }, sequenced: true }
            });
        }
    }
}

// ---- FUN-POLY: every polymorphic declaration instantiated at two argument types in one program -------
pub fn fam_poly(_cfg: &FunCfg, sink: &mut FunSink) {
    // (type, a value built from n and a distinguishing constant, an integer observation of a value)
    fn mk(t: usize, i: i64) -> String {
        match t {
            0 => format!("n + {i}"),
            1 => format!("Cons(n + {i}, Cons({i}, Nil))"),
            2 => format!("new {{ ap(q) => (q * 2) + (n + {i}) }}"),
            _ => format!("Tup(n * 3, {i})"),
        }
    }
    fn ty(t: usize) -> &'static str {
        ["i64", "List[i64]", "Fun[i64, i64]", "Pair[i64, i64]"][t]
    }
    fn obs(t: usize, v: &str) -> String {
        match t {
            0 => v.to_string(),
            1 => format!("sum({v})"),
            2 => format!("{v}.ap[i64, i64](5)"),
            _ => format!("{v}.case[i64, i64] {{ Tup(pa, pb) => pa - pb }}"),
        }
    }
    for a in 0..4usize {
        for b in 0..4usize {
            for container in ["list", "pair", "fun", "stream", "lpair"] {
                sink.offer(move || {
                    let (ta, tb) = (ty(a), ty(b));
                    let body = match container {
                        "list" => format!(
                            "let u: List[{ta}] = Cons({}, Cons({}, Nil)); let w: List[{tb}] = Cons({}, Nil); println_i64(u.case[{ta}] {{ Nil => 0, Cons(h, t) => ({}) + (t.case[{ta}] {{ Nil => 0, Cons(h2, t2) => {} }}) }}); println_i64(w.case[{tb}] {{ Nil => 0, Cons(h, t) => {} }}); 0",
                            mk(a, 1), mk(a, 2), mk(b, 3), obs(a, "h"), obs(a, "h2"), obs(b, "h")
                        ),
                        "pair" => format!(
                            "let p: Pair[{ta}, {tb}] = Tup({}, {}); let r: Pair[{tb}, {ta}] = Tup({}, {}); println_i64(p.case[{ta}, {tb}] {{ Tup(u, w) => ({}) - ({}) }}); println_i64(r.case[{tb}, {ta}] {{ Tup(u, w) => ({}) * ({}) }}); 0",
                            mk(a, 1), mk(b, 2), mk(b, 3), mk(a, 4), obs(a, "u"), obs(b, "w"), obs(b, "u"), obs(a, "w")
                        ),
                        "fun" => format!(
                            "let f: Fun[{ta}, {tb}] = new {{ ap(u) => (println_i64({}); {}) }}; let g: Fun[{tb}, {ta}] = new {{ ap(u) => (println_i64({}); {}) }}; let r: {tb} = f.ap[{ta}, {tb}]({}); println_i64({}); let z: {ta} = g.ap[{tb}, {ta}](r); println_i64({}); 0",
                            obs(a, "u"), mk(b, 1), obs(b, "u"), mk(a, 2), mk(a, 3), obs(b, "r"), obs(a, "z")
                        ),
                        "stream" => format!(
                            "let s: Stream[{ta}] = new {{ hd => {}, tl => new {{ hd => {}, tl => exit 9 }} }}; let v: Stream[{tb}] = new {{ hd => {}, tl => exit 8 }}; let x: {ta} = s.tl[{ta}].hd[{ta}]; println_i64({}); let y: {tb} = v.hd[{tb}]; println_i64({}); let w: {ta} = s.hd[{ta}]; println_i64({}); 0",
                            mk(a, 1), mk(a, 2), mk(b, 3), obs(a, "x"), obs(b, "y"), obs(a, "w")
                        ),
                        _ => format!(
                            "let p: LPair[{ta}, {tb}] = new {{ lfst => {}, lsnd => {} }}; let r: LPair[{tb}, {ta}] = new {{ lfst => p.lsnd[{ta}, {tb}], lsnd => p.lfst[{ta}, {tb}] }}; let x: {tb} = r.lfst[{tb}, {ta}]; println_i64({}); let y: {ta} = r.lsnd[{tb}, {ta}]; println_i64({}); 0",
                            mk(a, 1), mk(b, 2), obs(b, "x"), obs(a, "y")
                        ),
                    };
                    let src = format!("{PRELUDE_TYPES}codata LPair[A, B] {{ lfst: A, lsnd: B }}\n{PRELUDE_DEFS}def main(n: i64): i64 {{ {body} }}\n");
                    FunCase { name: format!("poly/{container}/{a}{b}"), src, inputs: vec![vec![0], vec![7]], sequenced: true }
                });
            }
        }
    }
}

// ---- FUN-WIDE: destructors with 0..8 parameters and constructors with 0..8 fields of types with two
// xtors, the wide xtor declared first or last; objects invoked / values returned through a call ------
pub fn fam_wide(_cfg: &FunCfg, sink: &mut FunSink) {
    for n in 0..=8usize {
        for last in [false, true] {
            for kind in ["codata", "data"] {
                sink.offer(move || {
                    let ps: Vec<String> = (1..=n).map(|i| format!("a{i}")).collect();
                    let sig = ps.iter().map(|p| format!("{p}: i64")).collect::<Vec<_>>().join(", ");
                    let mut weighted = String::from("n");
                    for (i, p) in ps.iter().enumerate() {
                        weighted = format!("({weighted}) + ({p} * {})", i + 2);
                    }
                    let args = (1..=n).map(|i| format!("n + {i}")).collect::<Vec<_>>().join(", ");
                    let src = if kind == "codata" {
                        let wide = if n == 0 { "wn: i64".to_string() } else { format!("wn({sig}): i64") };
                        let decl = if last { format!("codata W {{ other: i64, {wide} }}") } else { format!("codata W {{ {wide}, other: i64 }}") };
                        let clause = if n == 0 { format!("wn => {weighted}") } else { format!("wn({}) => {weighted}", ps.join(", ")) };
                        let call = if n == 0 { "o.wn".to_string() } else { format!("o.wn({args})") };
                        format!(
                            "{PRELUDE_TYPES}{decl}\n{PRELUDE_DEFS}def mk(n: i64): W {{ new {{ other => n - 1, {clause} }} }}\ndef main(n: i64): i64 {{ let o: W = mk(n); println_i64({call}); println_i64(o.other); println_i64(mk(n + 1).other); 0 }}\n"
                        )
                    } else {
                        let wide = if n == 0 { "Dn".to_string() } else { format!("Dn({sig})") };
                        let decl = if last { format!("data D {{ E0, {wide} }}") } else { format!("data D {{ {wide}, E0 }}") };
                        let value = if n == 0 { "Dn".to_string() } else { format!("Dn({args})") };
                        let clause = if n == 0 { format!("Dn => {weighted}") } else { format!("Dn({}) => {weighted}", ps.join(", ")) };
                        format!(
                            "{PRELUDE_TYPES}{decl}\n{PRELUDE_DEFS}def mk(n: i64): D {{ if n == 0 {{ E0 }} else {{ {value} }} }}\ndef look(d: D, n: i64): i64 {{ d.case {{ E0 => 7, {clause} }} }}\ndef main(n: i64): i64 {{ println_i64(look(mk(n), n)); println_i64(look(mk(n - 1), n)); 0 }}\n"
                        )
                    };
                    FunCase { name: format!("wide/{kind}/n{n}/{}", if last { "last" } else { "first" }), src, inputs: vec![vec![0], vec![1], vec![5]], sequenced: true }
                });
            }
        }
    }
}

// ---- FUN-LOOP: print-free loops that build and drop structures `n` times (C10, end to end) -----------
pub const FUN_LOOP_SHAPES: [&str; 15] = ["list_ignore", "list_sum", "closure", "shared", "dead_let", "pair_of_lists", "stream", "tri_unused", "label", "clause_binders_unused_before_call", "same_args_after_clause", "same_args_after_let_obj", "same_args_after_let_closure", "same_args_after_tri", "prefix_args"];

/// `main(n)` runs `n` iterations and returns an accumulator.
pub fn fun_loop_source(shape: usize) -> String {
    // shapes whose tail call passes exactly the (leading) parameters on, with dead variables bound
    // in between (the explicit substitution in front of the call is then the only place where the
    // dead variables are released)
    let special = match FUN_LOOP_SHAPES[shape] {
        "same_args_after_clause" => Some("def step(i: i64, s: i64, l: List[i64]): i64 { l.case[i64] { Nil => loop(i, s), Cons(x, xs) => loop(i, s) } }\ndef loop(i: i64, s: i64): i64 { if i == 0 { s } else { step(i - 1, s + 1, range(8)) } }"),
        "same_args_after_let_obj" => Some("def step(i: i64, s: i64): i64 { let d: List[i64] = range(3); loop(i, s) }\ndef loop(i: i64, s: i64): i64 { if i == 0 { s } else { step(i - 1, s + 1) } }"),
        "same_args_after_let_closure" => Some("def step(i: i64, s: i64): i64 { let f: Fun[i64, i64] = new { ap(q) => q + i }; loop(i, s) }\ndef loop(i: i64, s: i64): i64 { if i == 0 { s } else { step(i - 1, s + 1) } }"),
        "same_args_after_tri" => Some("def step(i: i64, s: i64): i64 { mk(i, range(2)).case { W0 => loop(i, s), W1(a, l) => loop(i, s), W2(l, a, m) => loop(i, s) } }\ndef loop(i: i64, s: i64): i64 { if i == 0 { s } else { step(i - 1, s + 1) } }"),
        "prefix_args" => Some("def step(i: i64, s: i64, extra: List[i64], more: Fun[i64, i64]): i64 { loop(i, s) }\ndef loop(i: i64, s: i64): i64 { if i == 0 { s } else { step(i - 1, s + 1, range(4), new { ap(q) => q + i }) } }"),
        _ => None,
    };
    if let Some(defs) = special {
        return format!(
            "{PRELUDE_TYPES}data W {{ W0, W1(a: i64, l: List[i64]), W2(l: List[i64], a: i64, m: List[i64]) }}\n{PRELUDE_DEFS}def mk(i: i64, l: List[i64]): W {{ if i % 3 == 0 {{ W0 }} else {{ if i % 3 == 1 {{ W1(i, l) }} else {{ W2(l, i, range(1)) }} }} }}\n{defs}\ndef main(n: i64): i64 {{ loop(n, 0) }}\n"
        );
    }
    let body = match FUN_LOOP_SHAPES[shape] {
        "list_ignore" => "range(8).case[i64] { Nil => step(i - 1, s), Cons(x, xs) => step(i - 1, s + 1) }",
        "list_sum" => "step(i - 1, s + sum(range(5)))",
        "closure" => "let f: Fun[i64, i64] = new { ap(q) => q + i }; step(i - 1, s + (f.ap[i64, i64](1)))",
        "shared" => "let l: List[i64] = range(4); step(i - 1, (s + sum(l)) - sum(l))",
        "dead_let" => "let d: List[i64] = range(3); step(i - 1, s + 1)",
        "pair_of_lists" => "Tup(range(2), range(3)).case[List[i64], List[i64]] { Tup(a, b) => step(i - 1, s + sum(a)) }",
        "stream" => "let st: Stream[i64] = nats(i); step(i - 1, s + (st.tl[i64].hd[i64]))",
        "tri_unused" => "mk(i, range(2)).case { W0 => step(i - 1, s), W1(a, l) => step(i - 1, s + 1), W2(l, a, m) => step(i - 1, s + 2) }",
        "label" => "label k { if i == 3 { goto k (step(i - 1, s)) } else { step(i - 1, s + sum(range(2))) } }",
        _ => "let l: List[i64] = range(6); l.case[i64] { Nil => step(i - 1, s), Cons(x, xs) => xs.case[i64] { Nil => step(i - 1, s), Cons(y, ys) => step(i - 1, s + x) } }",
    };
    format!(
        "{PRELUDE_TYPES}data W {{ W0, W1(a: i64, l: List[i64]), W2(l: List[i64], a: i64, m: List[i64]) }}\n{PRELUDE_DEFS}def mk(i: i64, l: List[i64]): W {{ if i % 3 == 0 {{ W0 }} else {{ if i % 3 == 1 {{ W1(i, l) }} else {{ W2(l, i, range(1)) }} }} }}\ndef step(i: i64, s: i64): i64 {{ if i == 0 {{ s }} else {{ {body} }} }}\ndef main(n: i64): i64 {{ step(n, 0) }}\n"
    )
}

// ---- FUN-BYNAME: effects inside codata-typed bound terms and arguments (by-name: the effect runs at
// each use, never at the binding). Defined by C01's source semantics; outside C02's premise. ---------
pub fn fam_byname(_cfg: &FunCfg, sink: &mut FunSink) {
    let carriers = [
        "(println_i64(100); new { ap(x) => x + n })",
        "if n > 0 { println_i64(101); new { ap(x) => x + n } } else { println_i64(102); new { ap(x) => x - n } }",
        "range(n).case[i64] { Nil => (println_i64(103); new { ap(x) => x }), Cons(h, t) => (println_i64(104); new { ap(x) => x * h }) }",
        "label k { println_i64(105); if n == 2 { goto k (new { ap(x) => 0 - x }) } else { new { ap(x) => x + 1 } } }",
        "(println_i64(106); mkf(n))",
        // terms that never return, at codata type: by name they only act when (and if) they are forced
        "exit 3",
        "if n > 1 { exit 4 } else { new { ap(x) => x - n } }",
        "goto kk (9)",
        "(println_i64(107); exit 5)",
    ];
    for (ci, carrier) in carriers.iter().enumerate() {
        for binding in ["let", "arg", "recv", "field"] {
            for uses in 0..3usize {
                if (binding == "recv" || binding == "field") && uses != 1 {
                    continue;
                }
                let carrier = *carrier;
                sink.offer(move || {
                    let use_expr = |f: &str| match uses {
                        0 => "5".to_string(),
                        1 => format!("{f}.ap[i64, i64](1)"),
                        _ => format!("({f}.ap[i64, i64](1)) + ({f}.ap[i64, i64](2))"),
                    };
                    let body = if binding == "let" {
                        format!("let f: Fun[i64, i64] = {carrier}; println_i64(7); println_i64({}); 3", use_expr("f"))
                    } else if binding == "arg" {
                        format!("println_i64(user(n, {carrier})); 3")
                    } else if binding == "recv" {
                        // the effectful codata term is itself the receiver of a destructor
                        format!("println_i64(7); println_i64(({carrier}).ap[i64, i64](1)); 3")
                    } else {
                        // ... or a constructor argument
                        format!("let l: List[Fun[i64, i64]] = Cons({carrier}, Nil); println_i64(7); println_i64(l.case[Fun[i64, i64]] {{ Nil => 0, Cons(g, t) => g.ap[i64, i64](1) }}); 3")
                    };
                    let body = if carrier.contains("goto kk") { format!("label kk {{ {body} }}") } else { body };
                    let src = format!(
                        "{PRELUDE_TYPES}{PRELUDE_DEFS}def mkf(d: i64): Fun[i64, i64] {{ new {{ ap(x) => x * d }} }}\ndef user(m: i64, g: Fun[i64, i64]): i64 {{ println_i64(8); {} }}\ndef main(n: i64): i64 {{ {body} }}\n",
                        use_expr("g")
                    );
                    FunCase { name: format!("byname/c{ci}/{binding}/u{uses}"), src, inputs: vec![vec![0], vec![2], vec![5]], sequenced: false }
                });
            }
        }
    }
}

// ---- FUN-DECLONLY: a type instance that is only mentioned inside another declaration (destructor
// result, destructor parameter, constructor field), monomorphic and polymorphic --------------------
pub fn fam_declonly(_cfg: &FunCfg, sink: &mut FunSink) {
    let progs: Vec<(&str, &str)> = vec![
        ("dtor_result_data", "codata Mk { get: Res }\ndata Res { R(v: i64) }\ndef mk(n: i64): Mk { new { get => R(n) } }\ndef main(n: i64): i64 { println_i64(mk(n).get.case { R(v) => v + 1 }); 0 }"),
        ("dtor_result_codata", "codata Outer { inner: Inner }\ncodata Inner { val: i64 }\ndef mk(n: i64): Outer { new { inner => new { val => n * 2 } } }\ndef main(n: i64): i64 { println_i64(mk(n).inner.val); 0 }"),
        ("dtor_param_data", "codata Eater { eat(x: Res): i64 }\ndata Res { R(v: i64) }\ndef mk(n: i64): Eater { new { eat(x) => x.case { R(v) => v + n } } }\ndef main(n: i64): i64 { println_i64(mk(n).eat(R(1))); 0 }"),
        ("ctor_field_codata", "data Box { B(f: Fn) }\ncodata Fn { ap(x: i64): i64 }\ndef mk(n: i64): Box { B(new { ap(x) => x + n }) }\ndef main(n: i64): i64 { println_i64(mk(n).case { B(f) => f.ap(1) }); 0 }"),
        ("ctor_field_data", "data Outer { MkO(i: Inner) }\ndata Inner { MkI(v: i64) }\ndef mk(n: i64): Outer { MkO(MkI(n)) }\ndef main(n: i64): i64 { println_i64(mk(n).case { MkO(i) => i.case { MkI(v) => v } }); 0 }"),
        ("dtor_result_poly_data", "codata Str[A] { hd: A, tl: Str[A] }\ndata Pair[A, B] { Tup(a: A, b: B) }\ncodata Gen { next: Pair[i64, Str[i64]] }\ndef ones(k: i64): Str[i64] { new { hd => k, tl => ones(k + 1) } }\ndef mk(n: i64): Gen { new { next => Tup(n, ones(n)) } }\ndef main(n: i64): i64 { println_i64(mk(n).next.case[i64, Str[i64]] { Tup(a, b) => a + (b.tl[i64].hd[i64]) }); 0 }"),
        ("dtor_result_poly_codata", "codata Str[A] { hd: A, tl: Str[A] }\ncodata Gen[A] { next: Str[A] }\ndef mk(n: i64): Gen[i64] { new { next => new { hd => n, tl => mk(n + 1).next[i64] } } }\ndef main(n: i64): i64 { println_i64(mk(n).next[i64].tl[i64].hd[i64]); 0 }"),
        ("ctor_field_poly", "data List[A] { Nil, Cons(x: A, xs: List[A]) }\ndata Wrap[A] { W(l: List[A]) }\ndef mk(n: i64): Wrap[i64] { W(Cons(n, Nil)) }\ndef main(n: i64): i64 { println_i64(mk(n).case[i64] { W(l) => l.case[i64] { Nil => 0, Cons(h, t) => h } }); 0 }"),
        ("dtor_result_nested_twice", "codata A1 { a: A2 }\ncodata A2 { b: A3 }\ncodata A3 { c: i64 }\ndef mk(n: i64): A1 { new { a => new { b => new { c => n + 3 } } } }\ndef main(n: i64): i64 { println_i64(mk(n).a.b.c); 0 }"),
    ];
    for (name, src) in progs {
        sink.offer(move || FunCase { name: format!("declonly/{name}"), src: format!("{src}\n"), inputs: vec![vec![0], vec![4]], sequenced: true });
    }
}

// ---- FUN-ALIAS: every construct with operands that are *renamed away* by the compiler: a variable
// bound by a let to another variable, by the clause of a known constructor / known cocase, or free
// in a lifted continuation (each stage substitutes variables for variables in every operand slot) ----
pub fn fam_alias(_cfg: &FunCfg, sink: &mut FunSink) {
    let uses: Vec<(&str, &str)> = vec![
        ("sub", "println_i64(a - b); 0"),
        ("sub_rev", "println_i64(b - a); 0"),
        ("rem", "println_i64((a + 100) % (b + 7)); 0"),
        ("if_lt", "if a < b { println_i64(1); 0 } else { println_i64(2); 0 }"),
        ("if_ge", "if a >= b { println_i64(1); 0 } else { println_i64(2); 0 }"),
        ("if_eq_rev", "if b == a { println_i64(1); 0 } else { println_i64(2); 0 }"),
        ("ifz_snd", "if b == 0 { println_i64(a); 0 } else { println_i64(b); 1 }"),
        ("print_both", "println_i64(b); println_i64(a); 0"),
        ("print_no_newline", "print_i64(a); print_i64(b); println_i64(a - b); print_i64(b); 0"),
        ("call", "println_i64(sub2(a, b)); 0"),
        ("call_rev", "println_i64(sub2(b, a)); 0"),
        ("ctor", "println_i64(Tup(a, b).case[i64, i64] { Tup(p, q) => p - q }); 0"),
        ("dtor_args", "println_i64((new { ap2(p, q) => p - q }).ap2(b, a)); 0"),
        ("exit", "println_i64(a); exit b"),
        ("goto", "println_i64(label k { if a == 0 { goto k (b) } else { a - b } }); 0"),
        ("result", "println_i64(a); b"),
        ("closure_capture", "let f: Fun[i64, i64] = new { ap(q) => (q + a) - b }; println_i64(f.ap[i64, i64](1)); 0"),
        // the same renamed variable in two operand slots of one construct
        ("if_same", "if a == a { println_i64(b); 0 } else { println_i64(a); 1 }"),
        ("sub_same", "println_i64((a - a) + b); 0"),
        ("call_same", "println_i64(sub2(a, a) + b); 0"),
        ("ctor_same", "println_i64(Tup(a, a).case[i64, i64] { Tup(p, q) => (p * 10) + q }); println_i64(b); 0"),
        ("dtor_args_same", "println_i64((new { ap2(p, q) => (p * 10) + q }).ap2(b, b)); println_i64(a); 0"),
        ("ctor_same_three", "println_i64(Cons(a, Cons(a, Cons(a, Nil))).case[i64] { Nil => 0, Cons(h, t) => h + sum(t) }); println_i64(b); 0"),
    ];
    let binders: Vec<(&str, &str)> = vec![
        ("let_alias", "let a: i64 = n; let b: i64 = m; #"),
        ("let_alias_one", "let a: i64 = n; let b: i64 = m + 0; #"),
        ("known_case", "Tup(n, m).case[i64, i64] { Tup(a, b) => # }"),
        ("known_case_swapped", "Tup(m, n).case[i64, i64] { Tup(b, a) => # }"),
        ("known_cocase", "(new { ap2(a, b) => # }).ap2(n, m)"),
        ("lifted", "let a: i64 = n; let b: i64 = m; let rest: List[i64] = range(2); println_i64(sum(rest)); #"),
        ("param_alias_in_def", "via(n, m)"),
        // both variables are captured by a closure that is still live: the rest of the `create` sees them renamed
        ("captured_before", "let a: i64 = n; let b: i64 = m; let g: Fun[i64, i64] = new { ap(z) => (z + a) + b }; let u: i64 = g.ap[i64, i64](1); println_i64(u); #"),
        ("captured_live", "let a: i64 = n; let b: i64 = m; let g: Fun[i64, i64] = new { ap(z) => (z + a) + b }; (let r: i64 = (#); println_i64(g.ap[i64, i64](r)); 0)"),
    ];
    for (un, u) in &uses {
        for (bn, bnd) in &binders {
            let (un, u, bn, bnd) = (*un, *u, *bn, *bnd);
            sink.offer(move || {
                let body = bnd.replace('#', u);
                let src = format!(
                    "{PRELUDE_TYPES}codata Fun2 {{ ap2(x: i64, y: i64): i64 }}\n{PRELUDE_DEFS}def sub2(p: i64, q: i64): i64 {{ p - q }}\ndef via(x: i64, y: i64): i64 {{ let a: i64 = x; let b: i64 = y; {u} }}\ndef main(n: i64, m: i64): i64 {{ {body} }}\n"
                );
                FunCase { name: format!("alias/{bn}/{un}"), src, inputs: vec![vec![7, 3], vec![0, 0], vec![3, 7], vec![0, 5]], sequenced: true }
            });
        }
    }
}

// ---- FUN-POSITIONS: a block that binds a user variable named like a generated one (`x0`) and then
// shadows the parameter `x` (so the compiler must pick a fresh name that avoids `x0`) is placed in
// EVERY child position of every term form (whatever collects the used names has to visit them all) -----
pub fn fam_positions(_cfg: &FunCfg, sink: &mut FunSink) {
    let blocks: Vec<(&str, &str)> = vec![
        ("lets", "(let x0: i64 = 5; let x: i64 = 2; x + x0)"),
        ("clause", "(Cons(5, Nil).case[i64] { Nil => 0, Cons(x0, t) => (let x: i64 = 2; x + x0) })"),
        ("cocase", "((new { ap(x0) => (let x: i64 = 2; x + x0) }).ap[i64, i64](5))"),
    ];
    // `#` is the block (value 7), `x` is the parameter
    let positions: Vec<(&str, &str)> = vec![
        ("if_fst", "if # == x { 1 } else { 0 }"),
        ("if_snd", "if x == # { 1 } else { 0 }"),
        ("ifz", "if # == 0 { 1 } else { x }"),
        ("if_then", "if x == 7 { # } else { 0 }"),
        ("if_else", "if x == 0 { 0 } else { # }"),
        ("op_left", "# - x"),
        ("op_right", "x - #"),
        ("let_bound", "let y: i64 = #; y + x"),
        ("let_body", "let y: i64 = x; y + #"),
        ("call_arg1", "sub2(#, x)"),
        ("call_arg2", "sub2(x, #)"),
        ("ctor_arg", "Tup(x, #).case[i64, i64] { Tup(p, q) => p - q }"),
        ("ctor_arg_first", "Tup(#, x).case[i64, i64] { Tup(p, q) => p - q }"),
        ("dtor_arg", "(new { ap(q) => q - x }).ap[i64, i64](#)"),
        ("dtor_receiver_body", "(new { ap(q) => q - # }).ap[i64, i64](x)"),
        ("scrutinee", "Cons(#, Nil).case[i64] { Nil => 0, Cons(h, t) => h - x }"),
        ("clause_body", "range(1).case[i64] { Nil => 0, Cons(h, t) => # - x }"),
        ("clause_body_first", "Nil.case[i64] { Nil => # - x, Cons(h, t) => 0 }"),
        ("print_arg", "println_i64(#); x"),
        ("print_next", "println_i64(x); #"),
        ("exit_arg", "if x == 99 { 0 } else { exit # }"),
        ("goto_arg", "label k { if x == 99 { 0 } else { goto k (#) } }"),
        ("label_body", "label k { # - x }"),
        ("paren", "((#)) - x"),
        ("nested_op_in_call", "sub2(x, x - #)"),
    ];
    // a `goto` to an enclosing label in every child position (an effect in operand positions: for
    // C03-C05 and C12 only; every renaming of the label has to reach every position)
    for (pn, pos) in &positions {
        let (pn, pos) = (*pn, *pos);
        if pn == "goto_arg" || pn == "label_body" || pn == "exit_arg" {
            continue; // these positions bind / use a label `k` themselves
        }
        sink.offer(move || {
            let body = pos.replace('#', "(if x == 3 { goto kk (55) } else { 7 })");
            let src = format!("{PRELUDE_TYPES}{PRELUDE_DEFS}def sub2(p: i64, q: i64): i64 {{ p - q }}\ndef f(x: i64): i64 {{ label kk {{ {body} }} }}\ndef g(x: i64, kk :cns i64): i64 {{ {body} }}\ndef main(n: i64): i64 {{ println_i64(f(n)); println_i64(f(7)); println_i64(label out {{ g(n, out) + 1000 }}); 0 }}\n");
            FunCase { name: format!("positions/goto/{pn}"), src, inputs: vec![vec![0], vec![3]], sequenced: false }
        });
    }
    for (bn, block) in &blocks {
        for (pn, pos) in &positions {
            let (bn, block, pn, pos) = (*bn, *block, *pn, *pos);
            sink.offer(move || {
                let body = pos.replace('#', block);
                let src = format!("{PRELUDE_TYPES}{PRELUDE_DEFS}def sub2(p: i64, q: i64): i64 {{ p - q }}\ndef f(x: i64): i64 {{ {body} }}\ndef main(n: i64): i64 {{ println_i64(f(n)); println_i64(f(7)); 0 }}\n");
                FunCase { name: format!("positions/{bn}/{pn}"), src, inputs: vec![vec![0], vec![3]], sequenced: true }
            });
            // the same block one level further down: as the argument of a call, of a constructor
            // and of a destructor that itself sits in the position (the position's term former then
            // sees a call / case / destructor, not a parenthesized block)
            for (wn, wrap) in [("call", "idf(#)"), ("ctor", "(Cons(#, Nil).case[i64] { Nil => 0, Cons(hh, tt) => hh })"), ("dtor", "((new { ap(qq) => qq }).ap[i64, i64](#))")] {
                sink.offer(move || {
                    let body = pos.replace('#', &wrap.replace('#', block));
                    let src = format!("{PRELUDE_TYPES}{PRELUDE_DEFS}def sub2(p: i64, q: i64): i64 {{ p - q }}\ndef idf(v: i64): i64 {{ v }}\ndef f(x: i64): i64 {{ {body} }}\ndef main(n: i64): i64 {{ println_i64(f(n)); println_i64(f(7)); 0 }}\n");
                    FunCase { name: format!("positions/{bn}-{wn}/{pn}"), src, inputs: vec![vec![0], vec![3]], sequenced: true }
                });
            }
        }
    }
}

// ---- FUN-EFFECT: effects in argument positions (C03 only) -------------------------------------------
pub fn fam_effect(_cfg: &FunCfg, sink: &mut FunSink) {
    let p = |k: i64, v: T| T::Paren(Box::new(print(true, lit(k), v)));
    let shapes: Vec<(&str, T)> = vec![
        ("op", op(p(1, var("n")), "+", p(2, lit(5)))),
        ("op_nested", op(p(1, op(p(2, var("n")), "*", p(3, lit(2)))), "-", p(4, lit(1)))),
        ("call2", call("add3", vec![p(1, var("n")), p(2, lit(2)), p(3, lit(3))])),
        ("ctor", call("sum", vec![ctor("Cons", vec![p(1, var("n")), ctor("Cons", vec![p(2, lit(4)), p(3, ctor("Nil", vec![]))])])])),
        ("if_cond", if_("<", p(1, var("n")), p(2, lit(3)), p(3, lit(10)), p(4, lit(20)))),
        ("dtor_arg", ap(T::Paren(Box::new(print(true, lit(1), new_fun("q", p(3, op(var("q"), "+", lit(1))))))), p(2, var("n")))),
        ("print_arg", print(true, p(1, var("n")), p(2, lit(0)))),
        ("goto_arg", label("a", op(p(1, lit(1)), "+", call("add3", vec![p(2, var("n")), goto("a", p(3, lit(50))), p(4, lit(9))])))),
        ("exit_arg", op(p(1, lit(1)), "+", call("add3", vec![p(2, var("n")), T::Exit(Box::new(p(3, lit(50)))), p(4, lit(9))]))),
        ("codata_arg", call("twice", vec![T::Paren(Box::new(print(true, lit(1), new_fun("q", op(var("q"), "+", lit(1)))))), p(2, var("n"))])),
        // chained applications: the destructor is a consumer ARGUMENT of the call / destructor in front of it
        ("chain_call_dtor", T::Var("mkadd((println_i64(1); n)).ap[i64, i64]((println_i64(2); 5))".into())),
        ("chain_dtor_dtor", T::Var("curry3(2).ap[i64, Fun[i64, i64]]((println_i64(1); n)).ap[i64, i64]((println_i64(2); 5))".into())),
        ("chain_three", T::Var("curry3((println_i64(1); n)).ap[i64, Fun[i64, i64]]((println_i64(2); 3)).ap[i64, i64]((println_i64(3); 4))".into())),
        ("chain_stream", T::Var("add3((println_i64(1); n), nats((println_i64(2); 4)).tl[i64].hd[i64], (println_i64(3); 1))".into())),
        // constructor applications nested in argument positions, an effect at depth two followed by an
        // effect in a later sibling
        ("ctor_nested_l", T::Var("sumpl(Tup(Cons((println_i64(1); n), Nil), (println_i64(2); 2)))".into())),
        ("ctor_nested_r", T::Var("sumpr(Tup((println_i64(1); n), Cons((println_i64(2); 2), Nil)))".into())),
        ("ctor_nested_both", T::Var("sumpp(Tup(Cons((println_i64(1); n), Nil), Cons((println_i64(2); 2), Cons((println_i64(3); 3), Nil))))".into())),
        ("call_nested", T::Var("suml2(Cons((println_i64(1); n), Cons((println_i64(2); 1), Nil)), (println_i64(3); 2))".into())),
        ("dtor_nested", T::Var("mksum(1).ap[List[i64], i64](Cons((println_i64(1); n), Cons((println_i64(2); 2), Nil)))".into())),
        ("ctor_nested_exit", T::Var("sumpl(Tup(Cons((if n == 2 { exit 7 } else { println_i64(1); n }), Nil), (println_i64(2); 2)))".into())),
        ("ctor_nested_goto", T::Var("label a { sumpl(Tup(Cons((if n == 2 { goto a (7) } else { println_i64(1); n }), Nil), (println_i64(2); 2))) }".into())),
    ];
    let mut shapes = shapes;
    // both operands of every comparison with effects (print, jump), and mirrored spellings
    for (c, cn) in [("==", "eq"), ("!=", "ne"), ("<", "lt"), ("<=", "le"), (">", "gt"), (">=", "ge")] {
        shapes.push((Box::leak(format!("cmp_{cn}").into_boxed_str()), if_(c, p(1, var("n")), p(2, lit(2)), p(3, lit(10)), p(4, lit(20)))));
        shapes.push((Box::leak(format!("cmp_{cn}_calls").into_boxed_str()), T::Var(format!("if tick(n) {c} tick(2) {{ (println_i64(3); 10) }} else {{ (println_i64(4); 20) }}"))));
        shapes.push((Box::leak(format!("cmp_{cn}_goto").into_boxed_str()), T::Var(format!("label a {{ if (if n == 2 {{ goto a (5) }} else {{ println_i64(1); n }}) {c} tick(1) {{ 10 }} else {{ 20 }} }}"))));
    }
    for (name, t) in shapes {
        sink.offer(move || {
            let src = format!(
                "{PRELUDE_TYPES}{PRELUDE_DEFS}def add3(p: i64, q: i64, r: i64): i64 {{ (p + q) + r }}\ndef twice(f: Fun[i64, i64], v: i64): i64 {{ f.ap[i64, i64](f.ap[i64, i64](v)) }}\ndef mkadd(d: i64): Fun[i64, i64] {{ new {{ ap(q) => q + d }} }}\ndef curry3(d: i64): Fun[i64, Fun[i64, i64]] {{ new {{ ap(a) => new {{ ap(b) => (a * d) - b }} }} }}\ndef tick(v: i64): i64 {{ println_i64(v + 100); v }}\ndef sumpl(p: Pair[List[i64], i64]): i64 {{ p.case[List[i64], i64] {{ Tup(a, b) => sum(a) + (b * 10) }} }}\ndef sumpr(p: Pair[i64, List[i64]]): i64 {{ p.case[i64, List[i64]] {{ Tup(a, b) => a + (sum(b) * 10) }} }}\ndef sumpp(p: Pair[List[i64], List[i64]]): i64 {{ p.case[List[i64], List[i64]] {{ Tup(a, b) => sum(a) + (sum(b) * 10) }} }}\ndef suml2(l: List[i64], v: i64): i64 {{ sum(l) + (v * 10) }}\ndef mksum(d: i64): Fun[List[i64], i64] {{ new {{ ap(l) => sum(l) + d }} }}\n{}",
                main_def(&["n"], print(true, t, lit(0))).render()
            );
            FunCase { name: format!("effect/{name}"), src, inputs: vec![vec![0], vec![2]], sequenced: false }
        });
    }
}
