//! G-AX(a): the complete space of *non-linear* AxCut statements over small contexts — every
//! statement kind x every argument tuple drawn from the context with repetition x every subset of
//! variables used afterwards. This is the input space of the linearizer (`filter_by_set`,
//! `freshen`).
use super::axb::{def, ext, ident, prd, prog, std_types, ty};
use axcut::syntax::statements::ifc::IfSort;
use axcut::syntax::statements::*;
use axcut::syntax::{BinOp, Chirality, ContextBinding, Identifier, Prog, Statement, Ty, TypingContext};
use std::rc::Rc;

pub struct NlCase {
    pub name: String,
    pub prog: Prog,
    pub args: Vec<i64>,
}

fn id(name: &str, n: usize) -> Identifier {
    Identifier { name: name.to_string(), id: n }
}
fn ib(n: usize) -> ContextBinding {
    ContextBinding { var: id("v", n), chi: Chirality::Ext, ty: Ty::I64 }
}
fn ob(n: usize) -> ContextBinding {
    ContextBinding { var: id("o", n), chi: Chirality::Prd, ty: ty("Box") }
}
fn ctx(bs: Vec<ContextBinding>) -> TypingContext {
    TypingContext { bindings: bs }
}

struct Ids(usize);
impl Ids {
    fn fresh(&mut self) -> usize {
        self.0 += 1;
        self.0
    }
}

/// observe the variables in `used` (ids with kinds), then exit with `last`
fn observe(ids: &mut Ids, used: &[(usize, bool)], exit_with: Option<usize>) -> Statement {
    match used.split_first() {
        None => match exit_with {
            Some(v) => Exit { var: id("v", v) }.into(),
            None => {
                let z = ids.fresh();
                Literal { lit: 0, var: id("z", z), next: Rc::new(Exit { var: id("z", z) }.into()), free_vars_next: None }.into()
            }
        },
        Some(((v, is_obj), rest)) => {
            if *is_obj {
                let f = ids.fresh();
                let inner = observe(ids, rest, exit_with);
                Switch {
                    var: id("o", *v),
                    ty: ty("Box"),
                    clauses: vec![Clause {
                        xtor: ident("B"),
                        context: ctx(vec![ContextBinding { var: id("f", f), chi: Chirality::Ext, ty: Ty::I64 }]),
                        body: Rc::new(PrintI64 { newline: true, var: id("f", f), next: Rc::new(inner), free_vars_next: None }.into()),
                    }],
                    free_vars_clauses: None,
                }
                .into()
            } else {
                let inner = observe(ids, rest, exit_with);
                PrintI64 { newline: true, var: id("v", *v), next: Rc::new(inner), free_vars_next: None }.into()
            }
        }
    }
}

/// Enumerates the space; `n_max` is the largest context size.
pub fn enumerate(n_max: usize, mut f: impl FnMut(NlCase)) {
    let types = std_types();
    for n in 0..=n_max {
        for kinds in 0..(1u32 << n) {
            let is_obj: Vec<bool> = (0..n).map(|i| kinds >> i & 1 == 1).collect();
            let ints: Vec<usize> = (0..n).filter(|i| !is_obj[*i]).collect();
            let objs: Vec<usize> = (0..n).filter(|i| is_obj[*i]).collect();
            // every subset of the context (plus, where there is one, the new variable) used afterwards
            for used_mask in 0..(1u32 << n) {
                let used_ctx: Vec<(usize, bool)> = (0..n).filter(|i| used_mask >> i & 1 == 1).map(|i| (i + 1, is_obj[i])).collect();
                let mut kinds_of_stmt: Vec<(String, Box<dyn Fn(&mut Ids, Statement, bool) -> Statement>)> = Vec::new();
                // the statement under test receives the continuation (observation of `used`) and
                // whether the new variable is used afterwards
                // literal
                kinds_of_stmt.push(("lit".into(), Box::new(|_ids, next, _| Literal { lit: 77, var: id("v", 50), next: Rc::new(next), free_vars_next: None }.into())));
                for a in &ints {
                    let a = *a;
                    kinds_of_stmt.push((format!("print{a}"), Box::new(move |_ids, next, _| PrintI64 { newline: false, var: id("v", a + 1), next: Rc::new(next), free_vars_next: None }.into())));
                    for b in &ints {
                        let b = *b;
                        kinds_of_stmt.push((
                            format!("op{a}_{b}"),
                            Box::new(move |_ids, next, _| Op { fst: id("v", a + 1), op: BinOp::Sub, snd: id("v", b + 1), var: id("v", 50), next: Rc::new(next), free_vars_next: None }.into()),
                        ));
                        kinds_of_stmt.push((
                            format!("pair{a}_{b}"),
                            Box::new(move |ids, next, use_new| {
                                // let p: Pair = Tup(a, b); observe p (if used) through a switch
                                let (f1, f2) = (ids.fresh(), ids.fresh());
                                let next = if use_new {
                                    Switch {
                                        var: id("p", 51),
                                        ty: ty("Pair"),
                                        clauses: vec![Clause {
                                            xtor: ident("Tup"),
                                            context: ctx(vec![
                                                ContextBinding { var: id("f", f1), chi: Chirality::Ext, ty: Ty::I64 },
                                                ContextBinding { var: id("f", f2), chi: Chirality::Ext, ty: Ty::I64 },
                                            ]),
                                            body: Rc::new(
                                                PrintI64 {
                                                    newline: false,
                                                    var: id("f", f1),
                                                    next: Rc::new(PrintI64 { newline: true, var: id("f", f2), next: Rc::new(next), free_vars_next: None }.into()),
                                                    free_vars_next: None,
                                                }
                                                .into(),
                                            ),
                                        }],
                                        free_vars_clauses: None,
                                    }
                                    .into()
                                } else {
                                    next
                                };
                                Let {
                                    var: id("p", 51),
                                    ty: ty("Pair"),
                                    tag: ident("Tup"),
                                    args: ctx(vec![ib(a + 1), ib(b + 1)]),
                                    next: Rc::new(next),
                                    free_vars_next: None,
                                }
                                .into()
                            }),
                        ));
                        kinds_of_stmt.push((
                            format!("ifc{a}_{b}"),
                            Box::new(move |ids, next, _| {
                                let m = ids.fresh();
                                let marked = Literal { lit: 5, var: id("m", m), next: Rc::new(PrintI64 { newline: true, var: id("m", m), next: Rc::new(next.clone()), free_vars_next: None }.into()), free_vars_next: None };
                                IfC { sort: IfSort::Less, fst: id("v", a + 1), snd: Some(id("v", b + 1)), thenc: Rc::new(marked.into()), elsec: Rc::new(next) }.into()
                            }),
                        ));
                    }
                }
                for o in &objs {
                    let o = *o;
                    // switch on an object that may also be used afterwards (shared)
                    kinds_of_stmt.push((
                        format!("switch{o}"),
                        Box::new(move |ids, next, _| {
                            let f = ids.fresh();
                            Switch {
                                var: id("o", o + 1),
                                ty: ty("Box"),
                                clauses: vec![Clause {
                                    xtor: ident("B"),
                                    context: ctx(vec![ContextBinding { var: id("f", f), chi: Chirality::Ext, ty: Ty::I64 }]),
                                    body: Rc::new(PrintI64 { newline: false, var: id("f", f), next: Rc::new(next), free_vars_next: None }.into()),
                                }],
                                free_vars_clauses: None,
                            }
                            .into()
                        }),
                    ));
                }
                // closures capturing every subset of the context
                for cap_mask in 0..(1u32 << n) {
                    let captured: Vec<(usize, bool)> = (0..n).filter(|i| cap_mask >> i & 1 == 1).map(|i| (i + 1, is_obj[i])).collect();
                    kinds_of_stmt.push((
                        format!("create{cap_mask}"),
                        Box::new(move |ids, next, use_new| {
                            let r = ids.fresh();
                            let mut inner = Ids(1000 + ids.0 * 10);
                            let body = PrintI64 { newline: false, var: id("v", r), next: Rc::new(observe(&mut inner, &captured, Some(r))), free_vars_next: None };
                            let next = if use_new {
                                // invoke the continuation with a literal: terminal, so the
                                // observation of the context happens first
                                let l = ids.fresh();
                                push_before_exit(
                                    next,
                                    Literal {
                                        lit: 9,
                                        var: id("v", l),
                                        next: Rc::new(Invoke { var: id("k", 52), tag: ident("Ret"), ty: ty("_Cont"), args: ctx(vec![ib(l)]) }.into()),
                                        free_vars_next: None,
                                    }
                                    .into(),
                                )
                            } else {
                                next
                            };
                            Create {
                                var: id("k", 52),
                                ty: ty("_Cont"),
                                context: None,
                                clauses: vec![Clause { xtor: ident("Ret"), context: ctx(vec![ib(r)]), body: Rc::new(body.into()) }],
                                free_vars_clauses: None,
                                next: Rc::new(next),
                                free_vars_next: None,
                            }
                            .into()
                        }),
                    ));
                }
                // call with every argument tuple (arity 2) drawn from the context with repetition
                for a in 0..n {
                    for b in 0..n {
                        let (ka, kb) = (is_obj[a], is_obj[b]);
                        kinds_of_stmt.push((
                            format!("call{a}_{b}"),
                            Box::new(move |_ids, _next, _| {
                                let mk = |i: usize, o: bool| if o { ob(i + 1) } else { ib(i + 1) };
                                Call { label: ident(&format!("callee_{}{}", ka as u8, kb as u8)), args: ctx(vec![mk(a, ka), mk(b, kb)]) }.into()
                            }),
                        ));
                    }
                }
                for (sname, mk) in kinds_of_stmt {
                    for use_new in [false, true] {
                        let binds_new = sname.starts_with("lit") || sname.starts_with("op") || sname.starts_with("pair") || sname.starts_with("create");
                        if use_new && !binds_new {
                            continue;
                        }
                        let mut ids = Ids(100);
                        let mut used = used_ctx.clone();
                        if use_new && (sname.starts_with("lit") || sname.starts_with("op")) {
                            used.push((50, false));
                        }
                        let cont = observe(&mut ids, &used, None);
                        let stmt = mk(&mut ids, cont, use_new);
                        // prelude: bind the context (parameters are integers; objects are boxed)
                        let mut body = stmt;
                        for i in (0..n).rev() {
                            if is_obj[i] {
                                let t = ids.fresh();
                                body = Literal {
                                    lit: 40 + i as i64,
                                    var: id("v", t),
                                    next: Rc::new(
                                        Let { var: id("o", i + 1), ty: ty("Box"), tag: ident("B"), args: ctx(vec![ib(t)]), next: Rc::new(body), free_vars_next: None }.into(),
                                    ),
                                    free_vars_next: None,
                                }
                                .into();
                            } else {
                                body = Literal { lit: 10 + 3 * i as i64, var: id("v", i + 1), next: Rc::new(body), free_vars_next: None }.into();
                            }
                        }
                        let mut defs = vec![def("main", vec![], body)];
                        for ka in [false, true] {
                            for kb in [false, true] {
                                let mut cids = Ids(500);
                                let pa = if ka { ob(301) } else { ib(301) };
                                let pb = if kb { ob(302) } else { ib(302) };
                                defs.push(def(&format!("callee_{}{}", ka as u8, kb as u8), vec![pa, pb], observe(&mut cids, &[(301, ka), (302, kb)], None)));
                            }
                        }
                        let mut p = prog(defs, types.clone());
                        p.max_id = 100_000;
                        f(NlCase { name: format!("nl/n{n}/k{kinds}/u{used_mask}/{sname}/new{use_new}"), prog: p, args: vec![] });
                    }
                }
            }
        }
    }
}

/// Invocations with every argument tuple drawn from the context with repetition, *including the
/// invoked closure itself* (self application), for contexts of n integers/closures.
pub fn enumerate_invoke(n_max: usize, mut f: impl FnMut(NlCase)) {
    let types = std_types();
    let cb = |n: usize| ContextBinding { var: id("c", n), chi: Chirality::Cns, ty: ty("Rec") };
    for n in 1..=n_max {
        for kinds in 0..(1u32 << n) {
            let is_clo: Vec<bool> = (0..n).map(|i| kinds >> i & 1 == 1).collect();
            let clos: Vec<usize> = (0..n).filter(|i| is_clo[*i]).collect();
            let ints: Vec<usize> = (0..n).filter(|i| !is_clo[*i]).collect();
            if clos.is_empty() || ints.is_empty() {
                continue;
            }
            for &callee in &clos {
                for &farg in &clos {
                    for &xarg in &ints {
                        // which integers each closure captures: closure j captures the integers before it
                        let mut ids = Ids(100);
                        let stmt: Statement = Invoke { var: id("c", callee + 1), tag: ident("run"), ty: ty("Rec"), args: ctx(vec![cb(farg + 1), ib(xarg + 1)]) }.into();
                        let mut body = stmt;
                        for i in (0..n).rev() {
                            if is_clo[i] {
                                let (pf, px) = (ids.fresh(), ids.fresh());
                                // method: print x, print a mark of this closure, print captured integers, then
                                // invoke the closure it received once more with x - 1 while x > 0
                                let mark = ids.fresh();
                                let one = ids.fresh();
                                let dec = ids.fresh();
                                let again: Statement = Invoke { var: id("f", pf), tag: ident("run"), ty: ty("Rec"), args: ctx(vec![ContextBinding { var: id("f", pf), chi: Chirality::Cns, ty: ty("Rec") }, ib(dec)]) }.into();
                                let stop: Statement = Exit { var: id("v", mark) }.into();
                                let mut mbody: Statement = IfC { sort: IfSort::Greater, fst: id("v", px), snd: None, thenc: Rc::new(again), elsec: Rc::new(stop) }.into();
                                mbody = Op { fst: id("v", px), op: BinOp::Sub, snd: id("v", one), var: id("v", dec), next: Rc::new(mbody), free_vars_next: None }.into();
                                mbody = Literal { lit: 1, var: id("v", one), next: Rc::new(mbody), free_vars_next: None }.into();
                                for j in (0..i).rev() {
                                    if !is_clo[j] {
                                        mbody = PrintI64 { newline: true, var: id("v", j + 1), next: Rc::new(mbody), free_vars_next: None }.into();
                                    }
                                }
                                mbody = PrintI64 { newline: false, var: id("v", mark), next: Rc::new(mbody), free_vars_next: None }.into();
                                mbody = Literal { lit: 100 * (i as i64 + 1), var: id("v", mark), next: Rc::new(mbody), free_vars_next: None }.into();
                                mbody = PrintI64 { newline: false, var: id("v", px), next: Rc::new(mbody), free_vars_next: None }.into();
                                body = Create {
                                    var: id("c", i + 1),
                                    ty: ty("Rec"),
                                    context: None,
                                    clauses: vec![Clause {
                                        xtor: ident("run"),
                                        context: ctx(vec![ContextBinding { var: id("f", pf), chi: Chirality::Cns, ty: ty("Rec") }, ib(px)]),
                                        body: Rc::new(mbody),
                                    }],
                                    free_vars_clauses: None,
                                    next: Rc::new(body),
                                    free_vars_next: None,
                                }
                                .into();
                            } else {
                                body = Literal { lit: 2 + i as i64, var: id("v", i + 1), next: Rc::new(body), free_vars_next: None }.into();
                            }
                        }
                        let mut p = prog(vec![def("main", vec![], body)], types.clone());
                        p.max_id = 100_000;
                        f(NlCase { name: format!("nlinv/n{n}/k{kinds}/c{callee}/f{farg}/x{xarg}"), prog: p, args: vec![] });
                    }
                }
            }
        }
    }
}

/// Replaces the final `lit z; exit z` of an observation chain by `tail`.
fn push_before_exit(s: Statement, tail: Statement) -> Statement {
    match s {
        Statement::PrintI64(mut p) => {
            p.next = Rc::new(push_before_exit(Rc::unwrap_or_clone(p.next), tail));
            p.into()
        }
        Statement::Switch(mut sw) => {
            sw.clauses = sw
                .clauses
                .into_iter()
                .map(|mut c| {
                    c.body = Rc::new(push_before_exit(Rc::unwrap_or_clone(c.body), tail.clone()));
                    c
                })
                .collect();
            sw.into()
        }
        Statement::Literal(l) if matches!(&*l.next, Statement::Exit(_)) => tail,
        other => other,
    }
}

#[allow(dead_code)]
fn unused() {
    let _ = (ext("x"), prd("x", "Box"));
}
