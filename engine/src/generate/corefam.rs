//! G-CORE: exhaustively enumerated *hand-built* Core programs (unfocused lambda-mu-mu~), built through
//! the core_lang syntax API. Unlike translation outputs they use a pool of two variable and two
//! covariable names, so binders shadow each other freely (also at different types), arguments are
//! arbitrary non-values (effects anywhere) and critical pairs occur in every position.
use core_lang::syntax::declaration::{Codata, Data, TypeDeclaration, XtorSig};
use core_lang::syntax::statements::{Call, Cut, Exit, IfC, IfSort, PrintI64};
use core_lang::syntax::terms::{BinOp, Clause, Cns, Literal, Mu, Op, Prd, Term, XCase, XVar, Xtor};
use core_lang::syntax::arguments::Argument;
use core_lang::syntax::{Arguments, Chirality, ContextBinding, Def, Identifier, Prog, Statement, Ty, TypingContext};
use std::collections::HashMap;
use std::rc::Rc;

#[derive(Clone, Copy, PartialEq, Eq, Hash, Debug)]
pub enum T {
    Int,
    Pair,
    Fun,
    /// a data type with two constructors (critical pairs at it are lifted by shrinking)
    Opt,
    /// `data Wrap { W(p: Pair, v: i64) }`: a constructor with a constructor-typed argument (nesting)
    Wrap,
}

#[derive(Clone, Debug)]
pub enum S {
    Cut(T, Rc<P>, Rc<C>),
    Print(Rc<P>, Rc<S>),
    IfZ(Rc<P>, Rc<S>, Rc<S>),
    Exit(Rc<P>),
    Call(Rc<P>, Rc<P>, Rc<C>),
    /// call of the helper `h(x: prd i64, j: cns Fun2)`: a consumer ARGUMENT at a codata type (a
    /// destructor with non-value arguments in argument position)
    CallH(Rc<P>, Rc<C>),
    /// two-operand conditional; the first component indexes `IF2_SORTS`
    If2(u8, Rc<P>, Rc<P>, Rc<S>, Rc<S>),
}
#[derive(Clone, Debug)]
pub enum P {
    Lit(i64),
    Var(u8, T),
    Sub(Rc<P>, Rc<P>),
    Mu(u8, T, Rc<S>),
    Tup(Rc<P>, Rc<P>),
    CoCase(u8, u8, u8, Rc<S>),
    No,
    Yes(Rc<P>),
    /// W(pair, int)
    Wr(Rc<P>, Rc<P>),
}
#[derive(Clone, Debug)]
pub enum C {
    Covar(u8, T),
    MuT(u8, T, Rc<S>),
    Case(u8, u8, Rc<S>),
    Ap(Rc<P>, Rc<P>, Rc<C>),
    /// case { No => s1, Yes(x) => s2 }
    CaseOpt(u8, Rc<S>, Rc<S>),
    /// case { W(a: Pair, b: i64) => s }
    CaseW(u8, u8, Rc<S>),
}

pub const IF2_SORTS: [IfSort; 6] = [IfSort::Equal, IfSort::NotEqual, IfSort::Less, IfSort::LessOrEqual, IfSort::Greater, IfSort::GreaterOrEqual];

pub const VARS: [&str; 2] = ["x", "y"];
pub const COVARS: [&str; 2] = ["k", "j"];

/// innermost binding per name: vars[i] / covars[i] = type if bound
#[derive(Clone, Copy, PartialEq, Eq, Hash, Debug)]
pub struct Scope {
    pub vars: [Option<T>; 2],
    pub covars: [Option<T>; 2],
}
impl Scope {
    fn bind_var(mut self, v: u8, t: T) -> Scope {
        self.vars[v as usize] = Some(t);
        self
    }
    fn bind_covar(mut self, v: u8, t: T) -> Scope {
        self.covars[v as usize] = Some(t);
        self
    }
}

pub struct Alphabet {
    pub types: Vec<T>,
    /// `print` statements (the RV64 backend cannot compile them)
    pub with_print: bool,
    pub with_if: bool,
    pub with_call: bool,
    pub with_exit: bool,
    /// two-operand conditionals with these sorts (indices into `IF2_SORTS`); with them, mu / mu-tilde
    /// abstractions over a two-node statement (`mu k. exit v`) are admitted, so that two effectful
    /// operands fit into the size bound
    pub if2: Vec<u8>,
}

pub struct Enum {
    pub alpha: Alphabet,
    ms: HashMap<(Scope, usize), Rc<Vec<Rc<S>>>>,
    mp: HashMap<(T, Scope, usize), Rc<Vec<Rc<P>>>>,
    mc: HashMap<(T, Scope, usize), Rc<Vec<Rc<C>>>>,
}

impl Enum {
    pub fn new(alpha: Alphabet) -> Enum {
        Enum { alpha, ms: HashMap::new(), mp: HashMap::new(), mc: HashMap::new() }
    }

    /// all statements of exactly `n` nodes
    pub fn stmts(&mut self, sc: Scope, n: usize) -> Rc<Vec<Rc<S>>> {
        if let Some(v) = self.ms.get(&(sc, n)) {
            return v.clone();
        }
        let mut out: Vec<Rc<S>> = Vec::new();
        if n >= 3 {
            for t in self.alpha.types.clone() {
                for a in 1..=n - 2 {
                    let b = n - 1 - a;
                    let ps = self.prods(t, sc, a);
                    if ps.is_empty() {
                        continue;
                    }
                    let cs = self.cons(t, sc, b);
                    for p in ps.iter() {
                        for c in cs.iter() {
                            out.push(Rc::new(S::Cut(t, p.clone(), c.clone())));
                        }
                    }
                }
            }
            for a in 1..=n - 2 {
                if !self.alpha.with_print {
                    break;
                }
                let ps = self.prods(T::Int, sc, a);
                let ss = self.stmts(sc, n - 1 - a);
                for p in ps.iter() {
                    for s in ss.iter() {
                        out.push(Rc::new(S::Print(p.clone(), s.clone())));
                    }
                }
            }
        }
        if self.alpha.with_exit && n >= 2 {
            for p in self.prods(T::Int, sc, n - 1).iter() {
                out.push(Rc::new(S::Exit(p.clone())));
            }
        }
        if self.alpha.with_if && n >= 7 {
            for a in 1..=n - 7 + 1 {
                for b in 3..=n - 1 - a - 3 {
                    let c = n - 1 - a - b;
                    let ps = self.prods(T::Int, sc, a);
                    let s1 = self.stmts(sc, b);
                    let s2 = self.stmts(sc, c);
                    for p in ps.iter() {
                        for x in s1.iter() {
                            for y in s2.iter() {
                                out.push(Rc::new(S::IfZ(p.clone(), x.clone(), y.clone())));
                            }
                        }
                    }
                }
            }
        }
        if self.alpha.with_call && n >= 4 {
            for a in 1..=n - 3 {
                for b in 1..=n - 2 - a {
                    let c = n - 1 - a - b;
                    if c < 1 {
                        continue;
                    }
                    let p1 = self.prods(T::Int, sc, a);
                    let p2 = self.prods(T::Int, sc, b);
                    let cs = self.cons(T::Int, sc, c);
                    for x in p1.iter() {
                        for y in p2.iter() {
                            for k in cs.iter() {
                                out.push(Rc::new(S::Call(x.clone(), y.clone(), k.clone())));
                            }
                        }
                    }
                }
            }
        }
        if self.alpha.with_call && self.alpha.types.contains(&T::Fun) && n >= 3 {
            for a in 1..=n - 2 {
                let ps = self.prods(T::Int, sc, a);
                if ps.is_empty() {
                    continue;
                }
                let cs = self.cons(T::Fun, sc, n - 1 - a);
                for p in ps.iter() {
                    for c in cs.iter() {
                        out.push(Rc::new(S::CallH(p.clone(), c.clone())));
                    }
                }
            }
        }
        if !self.alpha.if2.is_empty() && n >= 7 {
            let smin = if self.alpha.with_exit { 2 } else { 3 };
            for a in 1..=n.saturating_sub(2 + 2 * smin) {
                for b in 1..=n.saturating_sub(1 + a + 2 * smin) {
                    for c in smin..=n.saturating_sub(1 + a + b + smin) {
                        let d = n - 1 - a - b - c;
                        if d < smin {
                            continue;
                        }
                        let ps = self.prods(T::Int, sc, a);
                        let qs = self.prods(T::Int, sc, b);
                        let s1 = self.stmts(sc, c);
                        let s2 = self.stmts(sc, d);
                        for so in self.alpha.if2.clone() {
                            for p in ps.iter() {
                                for q in qs.iter() {
                                    for x in s1.iter() {
                                        for y in s2.iter() {
                                            out.push(Rc::new(S::If2(so, p.clone(), q.clone(), x.clone(), y.clone())));
                                        }
                                    }
                                }
                            }
                        }
                    }
                }
            }
        }
        let r = Rc::new(out);
        self.ms.insert((sc, n), r.clone());
        r
    }

    pub fn prods(&mut self, t: T, sc: Scope, n: usize) -> Rc<Vec<Rc<P>>> {
        if let Some(v) = self.mp.get(&(t, sc, n)) {
            return v.clone();
        }
        let mut out: Vec<Rc<P>> = Vec::new();
        if n == 1 {
            if t == T::Int {
                out.push(Rc::new(P::Lit(2)));
            }
            for v in 0..2u8 {
                if sc.vars[v as usize] == Some(t) {
                    out.push(Rc::new(P::Var(v, t)));
                }
            }
        }
        if n >= 3 && t == T::Int {
            for a in 1..=n - 2 {
                let xs = self.prods(T::Int, sc, a);
                let ys = self.prods(T::Int, sc, n - 1 - a);
                for x in xs.iter() {
                    for y in ys.iter() {
                        out.push(Rc::new(P::Sub(x.clone(), y.clone())));
                    }
                }
            }
        }
        if n >= 3 && t == T::Pair {
            for a in 1..=n - 2 {
                let xs = self.prods(T::Int, sc, a);
                let ys = self.prods(T::Int, sc, n - 1 - a);
                for x in xs.iter() {
                    for y in ys.iter() {
                        out.push(Rc::new(P::Tup(x.clone(), y.clone())));
                    }
                }
            }
        }
        if n >= 5 && t == T::Wrap {
            for a in 3..=n - 2 {
                let xs = self.prods(T::Pair, sc, a);
                let ys = self.prods(T::Int, sc, n - 1 - a);
                for x in xs.iter() {
                    for y in ys.iter() {
                        out.push(Rc::new(P::Wr(x.clone(), y.clone())));
                    }
                }
            }
        }
        if t == T::Opt {
            if n == 1 {
                out.push(Rc::new(P::No));
            } else {
                for x in self.prods(T::Int, sc, n - 1).iter() {
                    out.push(Rc::new(P::Yes(x.clone())));
                }
            }
        }
        if n >= 4 || (n >= 3 && !self.alpha.if2.is_empty()) {
            // mu k. s
            for k in 0..2u8 {
                for s in self.stmts(sc.bind_covar(k, t), n - 1).iter() {
                    out.push(Rc::new(P::Mu(k, t, s.clone())));
                }
            }
        }
        if n >= 4 && t == T::Fun {
            // cocase { ap2(a, b, k) => s }: binder lists (x,y) and (y,x), either covariable name
            for (a, b) in [(0u8, 1u8), (1, 0)] {
                for k in 0..2u8 {
                    let inner = sc.bind_var(a, T::Int).bind_var(b, T::Int).bind_covar(k, T::Int);
                    for s in self.stmts(inner, n - 1).iter() {
                        out.push(Rc::new(P::CoCase(a, b, k, s.clone())));
                    }
                }
            }
        }
        let r = Rc::new(out);
        self.mp.insert((t, sc, n), r.clone());
        r
    }

    pub fn cons(&mut self, t: T, sc: Scope, n: usize) -> Rc<Vec<Rc<C>>> {
        if let Some(v) = self.mc.get(&(t, sc, n)) {
            return v.clone();
        }
        let mut out: Vec<Rc<C>> = Vec::new();
        if n == 1 {
            for v in 0..2u8 {
                if sc.covars[v as usize] == Some(t) {
                    out.push(Rc::new(C::Covar(v, t)));
                }
            }
        }
        if n >= 4 || (n >= 3 && !self.alpha.if2.is_empty()) {
            for x in 0..2u8 {
                for s in self.stmts(sc.bind_var(x, t), n - 1).iter() {
                    out.push(Rc::new(C::MuT(x, t, s.clone())));
                }
            }
        }
        if n >= 4 && t == T::Pair {
            for (a, b) in [(0u8, 1u8), (1, 0)] {
                let inner = sc.bind_var(a, T::Int).bind_var(b, T::Int);
                for s in self.stmts(inner, n - 1).iter() {
                    out.push(Rc::new(C::Case(a, b, s.clone())));
                }
            }
        }
        if n >= 4 && t == T::Wrap {
            for (a, b) in [(0u8, 1u8), (1, 0)] {
                let inner = sc.bind_var(a, T::Pair).bind_var(b, T::Int);
                for s in self.stmts(inner, n - 1).iter() {
                    out.push(Rc::new(C::CaseW(a, b, s.clone())));
                }
            }
        }
        if n >= 7 && t == T::Opt {
            for x in 0..2u8 {
                for a in 3..=n - 4 {
                    let s1 = self.stmts(sc, a);
                    let s2 = self.stmts(sc.bind_var(x, T::Int), n - 1 - a);
                    for p in s1.iter() {
                        for q in s2.iter() {
                            out.push(Rc::new(C::CaseOpt(x, p.clone(), q.clone())));
                        }
                    }
                }
            }
        }
        if n >= 4 && t == T::Fun {
            for a in 1..=n - 3 {
                for b in 1..=n - 2 - a {
                    let c = n - 1 - a - b;
                    if c < 1 {
                        continue;
                    }
                    let xs = self.prods(T::Int, sc, a);
                    let ys = self.prods(T::Int, sc, b);
                    let ks = self.cons(T::Int, sc, c);
                    for x in xs.iter() {
                        for y in ys.iter() {
                            for k in ks.iter() {
                                out.push(Rc::new(C::Ap(x.clone(), y.clone(), k.clone())));
                            }
                        }
                    }
                }
            }
        }
        let r = Rc::new(out);
        self.mc.insert((t, sc, n), r.clone());
        r
    }
}

// ---------------------------------------------------------------------------------------------
// conversion to core_lang syntax
// ---------------------------------------------------------------------------------------------

fn id(s: &str) -> Identifier {
    Identifier::new(s.to_string())
}
pub fn ty(t: T) -> Ty {
    match t {
        T::Int => Ty::I64,
        T::Pair => Ty::Decl(id("Pair")),
        T::Fun => Ty::Decl(id("Fun2")),
        T::Opt => Ty::Decl(id("Opt")),
        T::Wrap => Ty::Decl(id("Wrap")),
    }
}
fn bind(name: &str, chi: Chirality, t: T) -> ContextBinding {
    ContextBinding { var: id(name), chi, ty: ty(t) }
}

/// Rendering of the two-name pools as identifiers. Plain: `x, y / k, j`, all with id 0 (as the
/// translation from Fun writes them). *Partly unique* variant: the second name of each pool is
/// written with the first one's base name and a non-zero id — `y` becomes `(x, 7)`, `j` becomes
/// `(k, 8)` — so that two different identifiers with the same base name are in scope together, in
/// either nesting order. Identifiers with a non-zero id count as already unique (uniquification
/// leaves them alone), so the variant is only meaningful when each aliased identifier is bound at
/// most once in the definition: `used` counts the aliased binders (variables, covariables).
#[derive(Clone)]
pub struct IdEnv {
    pub alias: bool,
    pub used: Rc<std::cell::Cell<(u32, u32)>>,
}
impl IdEnv {
    pub fn zero() -> IdEnv {
        IdEnv { alias: false, used: Rc::new(std::cell::Cell::new((0, 0))) }
    }
    fn var(&self, i: u8) -> Identifier {
        if self.alias && i == 1 {
            idn(VARS[0], 7)
        } else {
            id(VARS[i as usize])
        }
    }
    fn covar(&self, i: u8) -> Identifier {
        if self.alias && i == 1 {
            idn(COVARS[0], 8)
        } else {
            id(COVARS[i as usize])
        }
    }
    fn bvar(&self, i: u8) -> Identifier {
        if i == 1 {
            let (a, b) = self.used.get();
            self.used.set((a + 1, b));
        }
        self.var(i)
    }
    fn bcovar(&self, i: u8) -> Identifier {
        if i == 1 {
            let (a, b) = self.used.get();
            self.used.set((a, b + 1));
        }
        self.covar(i)
    }
    fn bindv(&self, i: u8) -> ContextBinding {
        ContextBinding { var: self.bvar(i), chi: Chirality::Prd, ty: Ty::I64 }
    }
    fn bindk(&self, i: u8) -> ContextBinding {
        ContextBinding { var: self.bcovar(i), chi: Chirality::Cns, ty: Ty::I64 }
    }
}
fn idn(s: &str, n: usize) -> Identifier {
    let mut i = Identifier::new(s.to_string());
    i.id = n;
    i
}

pub fn stmt(s: &S) -> Statement {
    stmt_e(s, &IdEnv::zero())
}
pub fn prod(p: &P) -> Term<Prd> {
    prod_e(p, &IdEnv::zero())
}
pub fn cons(c: &C) -> Term<Cns> {
    cons_e(c, &IdEnv::zero())
}

pub fn stmt_e(s: &S, e: &IdEnv) -> Statement {
    match s {
        S::Cut(t, p, c) => Statement::Cut(Cut { producer: Rc::new(prod_e(p, e)), ty: ty(*t), consumer: Rc::new(cons_e(c, e)) }),
        S::Print(p, n) => Statement::PrintI64(PrintI64 { newline: true, arg: Rc::new(prod_e(p, e)), next: Rc::new(stmt_e(n, e)) }),
        S::IfZ(p, a, b) => Statement::IfC(IfC { sort: IfSort::Equal, fst: Rc::new(prod_e(p, e)), snd: None, thenc: Rc::new(stmt_e(a, e)), elsec: Rc::new(stmt_e(b, e)) }),
        S::Exit(p) => Statement::Exit(Exit { arg: Rc::new(prod_e(p, e)), ty: Ty::I64 }),
        S::If2(so, p, q, a, b) => Statement::IfC(IfC { sort: IF2_SORTS[*so as usize], fst: Rc::new(prod_e(p, e)), snd: Some(Rc::new(prod_e(q, e))), thenc: Rc::new(stmt_e(a, e)), elsec: Rc::new(stmt_e(b, e)) }),
        S::CallH(a, k) => Statement::Call(Call { name: id("h"), args: Arguments { entries: vec![Argument::Producer(prod_e(a, e)), Argument::Consumer(cons_e(k, e))] }, ty: Ty::I64 }),
        S::Call(a, b, k) => Statement::Call(Call { name: id("g"), args: Arguments { entries: vec![Argument::Producer(prod_e(a, e)), Argument::Producer(prod_e(b, e)), Argument::Consumer(cons_e(k, e))] }, ty: Ty::I64 }),
    }
}
pub fn prod_e(p: &P, e: &IdEnv) -> Term<Prd> {
    match p {
        P::Lit(n) => Term::Literal(Literal { lit: *n }),
        P::Var(v, t) => Term::XVar(XVar { prdcns: Prd, var: e.var(*v), ty: ty(*t) }),
        P::Sub(a, b) => Term::Op(Op { fst: Rc::new(prod_e(a, e)), op: BinOp::Sub, snd: Rc::new(prod_e(b, e)) }),
        P::Mu(k, t, s) => Term::Mu(Mu { prdcns: Prd, variable: e.bcovar(*k), statement: Rc::new(stmt_e(s, e)), ty: ty(*t) }),
        P::Tup(a, b) => Term::Xtor(Xtor { prdcns: Prd, name: id("Tup"), args: Arguments { entries: vec![Argument::Producer(prod_e(a, e)), Argument::Producer(prod_e(b, e))] }, ty: ty(T::Pair) }),
        P::Wr(a, b) => Term::Xtor(Xtor { prdcns: Prd, name: id("W"), args: Arguments { entries: vec![Argument::Producer(prod_e(a, e)), Argument::Producer(prod_e(b, e))] }, ty: ty(T::Wrap) }),
        P::No => Term::Xtor(Xtor { prdcns: Prd, name: id("No"), args: Arguments { entries: vec![] }, ty: ty(T::Opt) }),
        P::Yes(a) => Term::Xtor(Xtor { prdcns: Prd, name: id("Yes"), args: Arguments { entries: vec![Argument::Producer(prod_e(a, e))] }, ty: ty(T::Opt) }),
        P::CoCase(a, b, k, s) => Term::XCase(XCase {
            prdcns: Prd,
            clauses: vec![Clause {
                prdcns: Prd,
                xtor: id("ap2"),
                context: TypingContext { bindings: vec![e.bindv(*a), e.bindv(*b), e.bindk(*k)] },
                body: Rc::new(stmt_e(s, e)),
            }],
            ty: ty(T::Fun),
        }),
    }
}
pub fn cons_e(c: &C, e: &IdEnv) -> Term<Cns> {
    match c {
        C::Covar(k, t) => Term::XVar(XVar { prdcns: Cns, var: e.covar(*k), ty: ty(*t) }),
        C::MuT(x, t, s) => Term::Mu(Mu { prdcns: Cns, variable: e.bvar(*x), statement: Rc::new(stmt_e(s, e)), ty: ty(*t) }),
        C::Case(a, b, s) => Term::XCase(XCase {
            prdcns: Cns,
            clauses: vec![Clause {
                prdcns: Cns,
                xtor: id("Tup"),
                context: TypingContext { bindings: vec![e.bindv(*a), e.bindv(*b)] },
                body: Rc::new(stmt_e(s, e)),
            }],
            ty: ty(T::Pair),
        }),
        C::CaseW(a, b, s) => Term::XCase(XCase {
            prdcns: Cns,
            clauses: vec![Clause {
                prdcns: Cns,
                xtor: id("W"),
                context: TypingContext { bindings: vec![ContextBinding { var: e.bvar(*a), chi: Chirality::Prd, ty: ty(T::Pair) }, e.bindv(*b)] },
                body: Rc::new(stmt_e(s, e)),
            }],
            ty: ty(T::Wrap),
        }),
        C::CaseOpt(x, s1, s2) => Term::XCase(XCase {
            prdcns: Cns,
            clauses: vec![
                Clause { prdcns: Cns, xtor: id("No"), context: TypingContext { bindings: vec![] }, body: Rc::new(stmt_e(s1, e)) },
                Clause { prdcns: Cns, xtor: id("Yes"), context: TypingContext { bindings: vec![e.bindv(*x)] }, body: Rc::new(stmt_e(s2, e)) },
            ],
            ty: ty(T::Opt),
        }),
        C::Ap(a, b, k) => Term::Xtor(Xtor { prdcns: Cns, name: id("ap2"), args: Arguments { entries: vec![Argument::Producer(prod_e(a, e)), Argument::Producer(prod_e(b, e)), Argument::Consumer(cons_e(k, e))] }, ty: ty(T::Fun) }),
    }
}

/// The helper definition `g`: two parameters that an inner clause rebinds in swapped order.
fn helper_g() -> Def {
    // def g(x: prd i64, y: prd i64, k: cns i64) { <Tup(y, x - y) | case { Tup(x, y) => <x - y | k> }> }
    let body = S::Cut(
        T::Pair,
        Rc::new(P::Tup(Rc::new(P::Var(1, T::Int)), Rc::new(P::Sub(Rc::new(P::Var(0, T::Int)), Rc::new(P::Var(1, T::Int)))))),
        Rc::new(C::Case(0, 1, Rc::new(S::Cut(T::Int, Rc::new(P::Sub(Rc::new(P::Var(0, T::Int)), Rc::new(P::Var(1, T::Int)))), Rc::new(C::Covar(0, T::Int)))))),
    );
    Def { name: id("g"), context: TypingContext { bindings: vec![bind("x", Chirality::Prd, T::Int), bind("y", Chirality::Prd, T::Int), bind("k", Chirality::Cns, T::Int)] }, body: stmt(&body) }
}

/// The helper `h`: it cuts a cocase (which rebinds the parameter name) against its consumer parameter.
fn helper_h() -> Def {
    // def h(x: prd i64, j: cns Fun2) { <cocase { ap2(y, x, k) => <y - x | k> } | j> }
    let body = S::Cut(T::Fun, Rc::new(P::CoCase(1, 0, 0, Rc::new(S::Cut(T::Int, Rc::new(P::Sub(Rc::new(P::Var(1, T::Int)), Rc::new(P::Var(0, T::Int)))), Rc::new(C::Covar(0, T::Int)))))), Rc::new(C::Covar(1, T::Fun)));
    Def { name: id("h"), context: TypingContext { bindings: vec![bind("x", Chirality::Prd, T::Int), bind("j", Chirality::Cns, T::Fun)] }, body: stmt(&body) }
}

/// `def main(x: prd i64) { < mu k. BODY | mutilde y. println(y); exit y > }`
pub fn program(body: &S) -> Prog {
    program_with(body, true)
}

/// `final_print = false`: the result is only returned (for the backend without printing).
pub fn program_with(body: &S, final_print: bool) -> Prog {
    program_ids(body, final_print, false).0
}

/// `partly_unique`: see [`IdEnv`]; `max_id` is then 8. The second component says whether the variant
/// is meaningful (an aliased binder occurs, none occurs twice).
pub fn program_ids(body: &S, final_print: bool, partly_unique: bool) -> (Prog, bool) {
    let env = IdEnv { alias: partly_unique, used: Rc::new(std::cell::Cell::new((0, 0))) };
    let exit = S::Exit(Rc::new(P::Var(1, T::Int)));
    let fin = if final_print { S::Print(Rc::new(P::Var(1, T::Int)), Rc::new(exit)) } else { exit };
    // (the final consumer binds the plain `y`)
    let top = Statement::Cut(Cut {
        producer: Rc::new(Term::Mu(Mu { prdcns: Prd, variable: id(COVARS[0]), statement: Rc::new(stmt_e(body, &env)), ty: Ty::I64 })),
        ty: Ty::I64,
        consumer: Rc::new(cons(&C::MuT(1, T::Int, Rc::new(fin)))),
    });
    let (nv, nk) = env.used.get();
    let shadowed = nv <= 1 && nk <= 1 && nv + nk >= 1;
    let main = Def { name: id("main"), context: TypingContext { bindings: vec![bind("x", Chirality::Prd, T::Int)] }, body: top };
    let pair = TypeDeclaration { dat: Data, name: id("Pair"), xtors: vec![XtorSig { xtor: Data, name: id("Tup"), args: TypingContext { bindings: vec![bind("a", Chirality::Prd, T::Int), bind("b", Chirality::Prd, T::Int)] } }] };
    let fun2 = TypeDeclaration {
        dat: Codata,
        name: id("Fun2"),
        xtors: vec![XtorSig { xtor: Codata, name: id("ap2"), args: TypingContext { bindings: vec![bind("a", Chirality::Prd, T::Int), bind("b", Chirality::Prd, T::Int), bind("r", Chirality::Cns, T::Int)] } }],
    };
    let opt = TypeDeclaration {
        dat: Data,
        name: id("Opt"),
        xtors: vec![XtorSig { xtor: Data, name: id("No"), args: TypingContext { bindings: vec![] } }, XtorSig { xtor: Data, name: id("Yes"), args: TypingContext { bindings: vec![bind("a", Chirality::Prd, T::Int)] } }],
    };
    let wrap = TypeDeclaration {
        dat: Data,
        name: id("Wrap"),
        xtors: vec![XtorSig { xtor: Data, name: id("W"), args: TypingContext { bindings: vec![ContextBinding { var: id("p"), chi: Chirality::Prd, ty: ty(T::Pair) }, bind("v", Chirality::Prd, T::Int)] } }],
    };
    (Prog { defs: vec![main, helper_g(), helper_h()], data_types: vec![pair, opt, wrap], codata_types: vec![fun2], max_id: if partly_unique { 8 } else { 0 } }, shadowed)
}

pub fn initial_scope() -> Scope {
    Scope { vars: [Some(T::Int), None], covars: [Some(T::Int), None] }
}
