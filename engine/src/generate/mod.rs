pub mod axb;
pub mod axfam;
pub mod axnl;
pub mod axpad;
pub mod funfam;
pub mod funlang;
pub mod corefam;
