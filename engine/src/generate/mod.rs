pub mod axb;
pub mod axfam;
pub mod funfam;
pub mod funlang;
