pub mod axb;
pub mod axfam;
