//! Environment padding of real pipeline outputs: a (non-linear) AxCut program is rewritten so that
//! `k` extra integer variables are live from the entry to every `exit` — every definition takes
//! them as its first parameters, every call passes them on, every `exit v` folds them into the
//! result in an order-sensitive way. After the real linearizer has run, all of the program's own
//! variables sit `k` positions further up (across the register/spill boundaries of the backends),
//! closures capture the pads (more fields, more blocks) and every substitution moves them along.
//! The reference machine runs the same padded program, so no expected value is hand-written.

use axcut::syntax::statements::*;
use axcut::syntax::{Chirality, ContextBinding, Def, Identifier, Prog, Statement, Ty, TypingContext};
use std::rc::Rc;

struct Pad {
    pads: Vec<Identifier>,
    max_id: usize,
    old_main: Identifier,
    new_inner: Identifier,
}

fn bind(v: &Identifier) -> ContextBinding {
    ContextBinding { var: v.clone(), chi: Chirality::Ext, ty: Ty::I64 }
}

impl Pad {
    fn fresh(&mut self, base: &str) -> Identifier {
        self.max_id += 1;
        Identifier { name: base.to_string(), id: self.max_id }
    }

    fn rc(&mut self, s: &Rc<Statement>) -> Rc<Statement> {
        Rc::new(self.stmt(s))
    }

    fn clauses(&mut self, cs: &[Clause]) -> Vec<Clause> {
        cs.iter().map(|c| Clause { xtor: c.xtor.clone(), context: c.context.clone(), body: self.rc(&c.body) }).collect()
    }

    fn stmt(&mut self, s: &Statement) -> Statement {
        match s {
            Statement::Substitute(x) => Statement::Substitute(Substitute { rearrange: x.rearrange.clone(), next: self.rc(&x.next) }),
            Statement::Call(c) => {
                let mut bindings: Vec<ContextBinding> = self.pads.iter().map(bind).collect();
                bindings.extend(c.args.bindings.iter().cloned());
                let label = if c.label == self.old_main { self.new_inner.clone() } else { c.label.clone() };
                Statement::Call(Call { label, args: TypingContext { bindings } })
            }
            Statement::Let(l) => Statement::Let(Let { var: l.var.clone(), ty: l.ty.clone(), tag: l.tag.clone(), args: l.args.clone(), next: self.rc(&l.next), free_vars_next: None }),
            Statement::Switch(w) => Statement::Switch(Switch { var: w.var.clone(), ty: w.ty.clone(), clauses: self.clauses(&w.clauses), free_vars_clauses: None }),
            Statement::Create(c) => Statement::Create(Create {
                var: c.var.clone(),
                ty: c.ty.clone(),
                context: None,
                clauses: self.clauses(&c.clauses),
                free_vars_clauses: None,
                next: self.rc(&c.next),
                free_vars_next: None,
            }),
            Statement::Invoke(i) => Statement::Invoke(i.clone()),
            Statement::Literal(l) => Statement::Literal(Literal { lit: l.lit, var: l.var.clone(), next: self.rc(&l.next), free_vars_next: None }),
            Statement::Op(o) => Statement::Op(Op { fst: o.fst.clone(), op: o.op.clone(), snd: o.snd.clone(), var: o.var.clone(), next: self.rc(&o.next), free_vars_next: None }),
            Statement::PrintI64(p) => Statement::PrintI64(PrintI64 { newline: p.newline, var: p.var.clone(), next: self.rc(&p.next), free_vars_next: None }),
            Statement::IfC(i) => Statement::IfC(IfC { sort: i.sort, fst: i.fst.clone(), snd: i.snd.clone(), thenc: self.rc(&i.thenc), elsec: self.rc(&i.elsec) }),
            Statement::Exit(e) => {
                // acc = v; for each pad: acc = (acc + acc) + pad
                let mut names = Vec::new();
                let mut acc = e.var.clone();
                for p in self.pads.clone() {
                    let d = self.fresh("padd");
                    let n = self.fresh("pads");
                    names.push((acc.clone(), acc.clone(), d.clone()));
                    names.push((d, p, n.clone()));
                    acc = n;
                }
                let mut out = Statement::Exit(Exit { var: acc });
                for (a, b, t) in names.into_iter().rev() {
                    out = Statement::Op(Op { fst: a, op: BinOp::Sum, snd: b, var: t, next: Rc::new(out), free_vars_next: None });
                }
                out
            }
        }
    }
}

/// `None` when the program has no definitions. The first definition is the entry point; it keeps
/// its parameters, binds the pads to literals and calls the padded copy of itself.
pub fn pad_prog(p: &Prog, k: usize) -> Option<Prog> {
    let main = p.defs.first()?;
    let mut st = Pad { pads: vec![], max_id: p.max_id, old_main: main.name.clone(), new_inner: Identifier { name: String::new(), id: 0 } };
    st.pads = (0..k).map(|i| st.fresh(&format!("pad{i}"))).collect();
    st.new_inner = st.fresh("mainpadded");
    let mut defs = Vec::new();
    // the new entry point
    let mut bindings: Vec<ContextBinding> = st.pads.iter().map(bind).collect();
    bindings.extend(main.context.bindings.iter().cloned());
    let mut entry = Statement::Call(Call { label: st.new_inner.clone(), args: TypingContext { bindings } });
    for (i, pad) in st.pads.clone().iter().enumerate().rev() {
        entry = Statement::Literal(Literal { lit: 9001 + 17 * i as i64, var: pad.clone(), next: Rc::new(entry), free_vars_next: None });
    }
    defs.push(Def { name: main.name.clone(), context: main.context.clone(), body: entry });
    for (di, d) in p.defs.iter().enumerate() {
        let mut bindings: Vec<ContextBinding> = st.pads.iter().map(bind).collect();
        bindings.extend(d.context.bindings.iter().cloned());
        let name = if di == 0 { st.new_inner.clone() } else { d.name.clone() };
        let body = st.stmt(&d.body);
        defs.push(Def { name, context: TypingContext { bindings }, body });
    }
    Some(Prog { defs, types: p.types.clone(), max_id: st.max_id })
}

// ---------------------------------------------------------------------------------------------
// Renumbering of variable identifiers (the interface contract of `Prog::max_id` is "at least the
// highest id in use": the tight value and the position of the highest id are dimensions)
// ---------------------------------------------------------------------------------------------

fn mi(v: &Identifier, f: &dyn Fn(usize) -> usize) -> Identifier {
    Identifier { name: v.name.clone(), id: f(v.id) }
}

fn mctx(c: &TypingContext, f: &dyn Fn(usize) -> usize) -> TypingContext {
    TypingContext { bindings: c.bindings.iter().map(|b| ContextBinding { var: mi(&b.var, f), chi: b.chi.clone(), ty: b.ty.clone() }).collect() }
}

fn mstmt(s: &Statement, f: &dyn Fn(usize) -> usize) -> Statement {
    let rc = |x: &Rc<Statement>| Rc::new(mstmt(x, f));
    let cl = |cs: &[Clause]| -> Vec<Clause> { cs.iter().map(|c| Clause { xtor: c.xtor.clone(), context: mctx(&c.context, f), body: Rc::new(mstmt(&c.body, f)) }).collect() };
    match s {
        Statement::Substitute(x) => Statement::Substitute(Substitute {
            rearrange: x.rearrange.iter().map(|(b, o)| (ContextBinding { var: mi(&b.var, f), chi: b.chi.clone(), ty: b.ty.clone() }, mi(o, f))).collect(),
            next: rc(&x.next),
        }),
        Statement::Call(c) => Statement::Call(Call { label: c.label.clone(), args: mctx(&c.args, f) }),
        Statement::Let(l) => Statement::Let(Let { var: mi(&l.var, f), ty: l.ty.clone(), tag: l.tag.clone(), args: mctx(&l.args, f), next: rc(&l.next), free_vars_next: None }),
        Statement::Switch(w) => Statement::Switch(Switch { var: mi(&w.var, f), ty: w.ty.clone(), clauses: cl(&w.clauses), free_vars_clauses: None }),
        Statement::Create(c) => Statement::Create(Create {
            var: mi(&c.var, f),
            ty: c.ty.clone(),
            context: c.context.as_ref().map(|x| mctx(x, f)),
            clauses: cl(&c.clauses),
            free_vars_clauses: None,
            next: rc(&c.next),
            free_vars_next: None,
        }),
        Statement::Invoke(i) => Statement::Invoke(Invoke { var: mi(&i.var, f), tag: i.tag.clone(), ty: i.ty.clone(), args: mctx(&i.args, f) }),
        Statement::Literal(l) => Statement::Literal(Literal { lit: l.lit, var: mi(&l.var, f), next: rc(&l.next), free_vars_next: None }),
        Statement::Op(o) => Statement::Op(Op { fst: mi(&o.fst, f), op: o.op.clone(), snd: mi(&o.snd, f), var: mi(&o.var, f), next: rc(&o.next), free_vars_next: None }),
        Statement::PrintI64(p) => Statement::PrintI64(PrintI64 { newline: p.newline, var: mi(&p.var, f), next: rc(&p.next), free_vars_next: None }),
        Statement::IfC(i) => Statement::IfC(IfC { sort: i.sort, fst: mi(&i.fst, f), snd: i.snd.as_ref().map(|x| mi(x, f)), thenc: rc(&i.thenc), elsec: rc(&i.elsec) }),
        Statement::Exit(e) => Statement::Exit(Exit { var: mi(&e.var, f) }),
    }
}

/// Applies `f` to the id of every variable occurrence (binders and uses; not to labels, xtors, types).
pub fn map_ids(p: &Prog, f: &dyn Fn(usize) -> usize) -> Prog {
    Prog {
        defs: p.defs.iter().map(|d| Def { name: d.name.clone(), context: mctx(&d.context, f), body: mstmt(&d.body, f) }).collect(),
        types: p.types.clone(),
        max_id: p.max_id,
    }
}

/// The highest variable id occurring in the program (and the highest id of a definition label).
pub fn max_used_id(p: &Prog) -> usize {
    let m = std::cell::Cell::new(0usize);
    let _ = map_ids(p, &|i| {
        if i > m.get() {
            m.set(i);
        }
        i
    });
    p.defs.iter().map(|d| d.name.id).fold(m.get(), usize::max)
}

/// `max_id` set to exactly the highest id in use.
pub fn tight(p: &Prog) -> Prog {
    let mut q = p.clone();
    q.max_id = max_used_id(p);
    q
}

/// Variable ids mirrored (the variable with the lowest id gets the highest), `max_id` tight.
pub fn mirrored_tight(p: &Prog) -> Prog {
    let m = max_used_id(p);
    let mut q = map_ids(p, &|i| m + 1 - i.min(m));
    q.max_id = max_used_id(&q);
    q
}
