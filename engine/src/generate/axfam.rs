//! G-AX(b): exhaustively enumerated families of *linear* AxCut programs of the shape
//! `prelude(Γ of size k) ; statement under test ; observer epilogue` (DESIGN §3.1).
use super::axb::*;
use axcut::syntax::statements::ifc::IfSort;
use axcut::syntax::{BinOp, Chirality, ContextBinding, Def, Prog, Statement, Ty, TypeDeclaration};

pub struct AxCase {
    pub name: String,
    pub prog: Prog,
    pub args: Vec<i64>,
    pub uses_print: bool,
}

pub struct Sink<'a> {
    pub idx: u64,
    pub shard: u64,
    pub n: u64,
    pub f: &'a mut dyn FnMut(AxCase),
}
impl Sink<'_> {
    pub fn offer(&mut self, mk: impl FnOnce() -> AxCase) {
        if self.idx % self.n == self.shard {
            (self.f)(mk());
        }
        self.idx += 1;
    }
}

pub const SORTS: [IfSort; 6] = [
    IfSort::Equal,
    IfSort::NotEqual,
    IfSort::Less,
    IfSort::LessOrEqual,
    IfSort::Greater,
    IfSort::GreaterOrEqual,
];
pub fn ops() -> [BinOp; 5] {
    [BinOp::Sum, BinOp::Sub, BinOp::Prod, BinOp::Div, BinOp::Rem]
}
pub fn op_name(op: &BinOp) -> &'static str {
    match op {
        BinOp::Sum => "add",
        BinOp::Sub => "sub",
        BinOp::Prod => "mul",
        BinOp::Div => "div",
        BinOp::Rem => "rem",
    }
}

/// Literal boundary set (DESIGN FUN-LIT), including i64::MIN which AxCut can express directly.
pub fn boundary_literals(thorough: bool) -> Vec<i64> {
    let mut v = vec![0i64, 1, -1, 2, -2, 7, -7, 100, 255, 256, 4095, 4096, -4095, -4096, 65535, 65536, -65536, 0x7fff, 0x8000];
    let ks: &[u32] = if thorough { &[7, 8, 11, 12, 15, 16, 24, 31, 32, 33, 47, 48, 62, 63] } else { &[12, 16, 31, 32, 48, 63] };
    for k in ks {
        if *k < 63 {
            let p = 1i64 << k;
            v.extend_from_slice(&[p, p - 1, p + 1, -p, -p - 1, -p + 1]);
        } else {
            v.extend_from_slice(&[i64::MAX, i64::MIN, i64::MIN + 1, i64::MAX - 1]);
        }
    }
    // halfword patterns for MOVZ/MOVN/MOVK selection
    v.extend_from_slice(&[
        0x0000_ffff_0000_ffffu64 as i64,
        0xffff_0000_ffff_0000u64 as i64,
        0xffff_ffff_0000_1234u64 as i64,
        0x1234_ffff_ffff_ffffu64 as i64,
        0x0000_0000_ffff_0000u64 as i64,
        0xffff_1234_ffff_5678u64 as i64,
        0x1234_5678_9abc_def0u64 as i64,
        0x8000_0000u64 as i64,
        0xffff_ffff_8000_0000u64 as i64,
        0x7fff_ffffi64,
        0x1_0000_0000i64,
    ]);
    v.sort();
    v.dedup();
    v
}

#[derive(Clone, Copy, PartialEq, Debug)]
pub enum Pat {
    Ints,
    Objs,
    Alt,
    Clos,
    /// `Alt` / `Clos` rotated left by three positions: objects (closures) sit at the even positions
    /// from 0 on, the integer parameters at the end — every position holds an integer under one
    /// pattern and a block pointer under the other
    AltRot,
    ClosRot,
}
impl Pat {
    pub fn name(self) -> &'static str {
        match self {
            Pat::Ints => "ints",
            Pat::Objs => "objs",
            Pat::Alt => "alt",
            Pat::Clos => "clos",
            Pat::AltRot => "altrot",
            Pat::ClosRot => "closrot",
        }
    }
}

/// Builds a prelude: main(a, b) then extends the environment to exactly `k` variables following
/// `pat`. Integers get distinct recognisable values derived from the parameters.
pub fn prelude(types: &[TypeDeclaration], k: usize, pat: Pat, nparams: usize) -> Bld {
    let params: Vec<ContextBinding> = (0..nparams).map(|i| param(&format!("p{i}"), 1 + i)).collect();
    let mut b = Bld::new(params, 100);
    if k < nparams {
        let keep: Vec<V> = b.ids()[..k].to_vec();
        b.arrange(&keep);
        return b;
    }
    let mut i = b.ctx.len();
    while b.ctx.len() < k {
        let want_obj = match pat {
            Pat::Ints => 0,
            Pat::Objs => 1,
            Pat::Alt | Pat::AltRot => (i % 2) as u8,
            Pat::Clos | Pat::ClosRot => 2 * (i % 2) as u8,
        };
        match want_obj {
            0 => {
                b.lit(1000 + i as i64 * 7);
            }
            1 => {
                // rotate through object shapes: Box, Pair, nullary, list
                let x = b.lit(2000 + i as i64);
                // (position 3 and position 0 must be able to hold real block pointers: AArch64 and
                // x86-64 borrow exactly these variables' first temporaries as extra scratch)
                match (i + 1) % 4 {
                    0 => {
                        b.let_(types, "Box", "B", &[x]);
                    }
                    1 => {
                        let y = b.lit(3000 + i as i64);
                        b.let_(types, "Pair", "Tup", &[x, y]);
                    }
                    2 => {
                        let n = b.let_(types, "List", "Nil", &[]);
                        b.let_(types, "List", "Cons", &[x, n]);
                    }
                    _ => {
                        // a nullary object (no block) plus dropping the helper literal
                        let keep: Vec<V> = b.ids().into_iter().filter(|v| *v != x).collect();
                        b.arrange(&keep);
                        b.let_(types, "Tri", "T0", &[]);
                    }
                }
            }
            _ => {
                // a closure capturing one fresh integer
                let x = b.lit(4000 + i as i64);
                b.create(types, "Fun", &[x], |_, mut m, ps, es| {
                    let r = m.op(ps[0], BinOp::Sum, es[0]);
                    m.invoke(types, ps[1], "Ret", &[r])
                });
            }
        }
        i += 1;
    }
    if matches!(pat, Pat::AltRot | Pat::ClosRot) && b.ctx.len() >= 4 {
        let mut order = b.ids();
        order.rotate_left(3);
        b.arrange(&order);
    }
    b
}

/// Observer epilogue: folds every integer into an order-sensitive checksum (and prints it when
/// `with_print`), destructs every object, invokes every closure; exits with the checksum.
pub fn epilogue(types: &[TypeDeclaration], b: Bld, with_print: bool) -> Statement {
    epilogue_acc(types, b, None, with_print, 0)
}

fn epilogue_acc(types: &[TypeDeclaration], mut b: Bld, acc: Option<V>, with_print: bool, depth: usize) -> Statement {
    // fold integers (other than the accumulator) left to right
    let mut acc = acc;
    loop {
        let next_int = b.ctx.iter().find(|x| x.chi == Chirality::Ext && Some(x.var.id) != acc).map(|x| x.var.id);
        let Some(v) = next_int else { break };
        if with_print {
            b.print(v, true);
        }
        match acc {
            None => {
                acc = Some(v);
            }
            Some(a) => {
                let t = b.op(a, BinOp::Sum, a);
                let keep: Vec<V> = b.ids().into_iter().filter(|x| *x != a).collect();
                b.arrange(&keep);
                let n = b.op(t, BinOp::Sum, v);
                let keep: Vec<V> = b.ids().into_iter().filter(|x| *x != t && *x != v).collect();
                b.arrange(&keep);
                acc = Some(n);
            }
        }
    }
    // recursive types (List, Node) would unfold forever: beyond a fixed depth the remaining objects
    // are dropped unobserved
    if depth > 4 {
        let keep = b.ints();
        b.arrange(&keep);
    }
    let first_obj = b.ctx.iter().find(|x| x.chi != Chirality::Ext).cloned();
    match first_obj {
        None => {
            let a = match acc {
                Some(a) => a,
                None => b.lit(0),
            };
            b.exit(a)
        }
        Some(o) if o.chi == Chirality::Prd => {
            let a = match acc {
                Some(a) => a,
                None => b.lit(0),
            };
            // a tag mark so that different constructors give different checksums
            b.switch(types, o.var.id, |tag, mut sub, _fields| {
                let mark = sub.lit(tag.len() as i64 * 1000 + tag.bytes().map(|c| c as i64).sum::<i64>());
                let t = sub.op(a, BinOp::Sum, mark);
                let keep: Vec<V> = sub.ids().into_iter().filter(|x| *x != a && *x != mark).collect();
                sub.arrange(&keep);
                epilogue_acc(types, sub, Some(t), with_print, depth + 1)
            })
        }
        Some(o) => {
            // a closure: invoke it with a continuation that captures the rest
            let Ty::Decl(tn) = &o.ty else { unreachable!() };
            let a = match acc {
                Some(a) => a,
                None => b.lit(0),
            };
            match tn.name.as_str() {
                "_Cont" => {
                    // a continuation can only be observed last: drop everything else
                    b.invoke(types, o.var.id, "Ret", &[a])
                }
                "Fun" => {
                    let rest: Vec<V> = b.ids().into_iter().filter(|x| *x != o.var.id).collect();
                    let k = b.create(types, "_Cont", &rest, |_, m, ps, es| {
                        // environment: r ++ rest; the accumulator is among rest
                        let _ = es;
                        let mut m = m;
                        let r = ps[0];
                        let t = m.op(a, BinOp::Sum, r);
                        let keep: Vec<V> = m.ids().into_iter().filter(|x| *x != a && *x != r).collect();
                        m.arrange(&keep);
                        epilogue_acc(types, m, Some(t), with_print, depth + 1)
                    });
                    let x = b.lit(5);
                    b.invoke(types, o.var.id, "ap", &[x, k])
                }
                "Obj" => {
                    let rest: Vec<V> = b.ids().into_iter().filter(|x| *x != o.var.id).collect();
                    let k = b.create(types, "_Cont", &rest, |_, m, ps, _es| {
                        let mut m = m;
                        let r = ps[0];
                        let t = m.op(a, BinOp::Sum, r);
                        let keep: Vec<V> = m.ids().into_iter().filter(|x| *x != a && *x != r).collect();
                        m.arrange(&keep);
                        epilogue_acc(types, m, Some(t), with_print, depth + 1)
                    });
                    let x = b.lit(5);
                    b.invoke(types, o.var.id, "m1", &[x, k])
                }
                other => panic!("epilogue: no observer for closure type {other}"),
            }
        }
    }
}

fn case(name: String, types: &[TypeDeclaration], main: Statement, extra: Vec<Def>, nparams: usize, args: Vec<i64>, uses_print: bool) -> AxCase {
    let params: Vec<ContextBinding> = (0..nparams).map(|i| param(&format!("p{i}"), 1 + i)).collect();
    let mut defs = vec![def("main", params, main)];
    defs.extend(extra);
    AxCase { name, prog: prog(defs, types.to_vec()), args, uses_print }
}

pub fn env_sizes(thorough: bool, cap: usize) -> Vec<usize> {
    let v: Vec<usize> = if thorough { (0..=22).collect() } else { vec![0, 1, 2, 5, 6, 7, 12, 13, 14, 20] };
    v.into_iter().filter(|k| *k <= cap).collect()
}

fn positions(n: usize) -> Vec<usize> {
    // first, second, middle, last-1, last
    let mut p = vec![];
    if n > 0 {
        p.extend_from_slice(&[0, n / 2, n - 1]);
        if n > 1 {
            p.push(1);
            p.push(n - 2);
        }
    }
    p.sort();
    p.dedup();
    p
}

pub struct FamCfg {
    pub thorough: bool,
    pub with_print: bool,
    /// largest environment the target can hold (RV64: 14 incl. temporaries of the epilogue)
    pub cap: usize,
    pub max_params: usize,
}

pub const ARGS2: [[i64; 2]; 4] = [[0, 1], [7, -3], [i64::MAX, i64::MIN + 1], [-1, 1 << 40]];

pub fn all_families(cfg: &FamCfg, sink: &mut Sink) {
    let types = std_types();
    let t = &types;
    let wp = cfg.with_print;
    let pats = [Pat::Ints, Pat::Objs, Pat::Alt, Pat::Clos, Pat::AltRot, Pat::ClosRot];

    // ---- LIT: every boundary literal bound at every environment size --------------------------
    for k in env_sizes(cfg.thorough, cfg.cap.saturating_sub(2)) {
        for pat in [Pat::Ints, Pat::Alt, Pat::AltRot] {
            for lit in boundary_literals(cfg.thorough) {
                sink.offer(|| {
                    let mut b = prelude(t, k, pat, 2);
                    b.lit(lit);
                    case(format!("lit/k{k}/{}/{lit}", pat.name()), t, epilogue(t, b, wp), vec![], 2, vec![3, 4], wp)
                });
            }
        }
    }

    // ---- OP: 5 operators x operand positions x environment sizes x values ---------------------
    let op_vals: Vec<(i64, i64)> = vec![(7, 3), (-7, 3), (7, -3), (-7, -3), (0, 5), (i64::MAX, 2), (i64::MIN + 1, -1), (1 << 40, 1 << 30), (5, 5)];
    for k in env_sizes(cfg.thorough, cfg.cap.saturating_sub(2)) {
        if k < 2 {
            continue;
        }
        // `obj0`: the first object of the environment is moved to position 0 before the operation (the
        // registers of variable 0 are what x86-64 borrows for idiv; with `Alt` position 3 — AArch64's
        // borrowed scratch — holds an object already)
        for (pat, obj0) in [(Pat::Ints, false), (Pat::Alt, false), (Pat::Alt, true), (Pat::Clos, true), (Pat::AltRot, false), (Pat::ClosRot, false)] {
            if obj0 && k < 4 {
                continue;
            }
            for op in ops() {
                for (ai, av) in op_vals.iter().enumerate() {
                    if !cfg.thorough && ai % 3 != 0 && k != 7 && k != 14 {
                        continue;
                    }
                    let b0 = prelude(t, k, pat, 2);
                    let ints = b0.ints();
                    let pos = positions(ints.len());
                    for i in &pos {
                        for j in &pos {
                            let (i, j) = (*i, *j);
                            let opc = op.clone();
                            let (x, y) = *av;
                            sink.offer(|| {
                                // parameters p0/p1 carry the operand values; move them to the
                                // chosen positions by building the environment around them
                                let mut b = prelude(t, k, pat, 2);
                                let ints = b.ints();
                                // swap parameter positions with positions i, j by substitution
                                let mut order = b.ids();
                                let pi = order.iter().position(|v| *v == ints[i]).unwrap();
                                let p0pos = order.iter().position(|v| *v == 1).unwrap();
                                order.swap(p0pos, pi);
                                let pj = order.iter().position(|v| *v == ints[j]).unwrap();
                                let p1pos = order.iter().position(|v| *v == 2).unwrap();
                                if i != j {
                                    order.swap(p1pos, pj);
                                }
                                if obj0 {
                                    if let Some(o) = order.iter().position(|v| b.ctx.iter().any(|x| x.var.id == *v && x.chi != Chirality::Ext)) {
                                        let v = order.remove(o);
                                        order.insert(0, v);
                                    }
                                }
                                b.arrange(&order);
                                let a = 1;
                                let c = if i == j { 1 } else { 2 };
                                b.op(a, opc.clone(), c);
                                case(
                                    format!("op/{}/k{k}/{}{}/{i}-{j}/{x}_{y}", op_name(&opc), pat.name(), if obj0 { "-obj0" } else { "" }),
                                    t,
                                    epilogue(t, b, wp),
                                    vec![],
                                    2,
                                    vec![x, y],
                                    wp,
                                )
                            });
                        }
                    }
                }
            }
        }
    }

    // ---- IFC: 6 comparisons x {two-operand, zero} x positions x values -------------------------
    let cmp_vals: Vec<(i64, i64)> = vec![(0, 0), (1, 0), (-1, 0), (3, 7), (7, 3), (i64::MIN + 1, i64::MAX), (i64::MAX, i64::MIN + 1), (5, 5)];
    for k in env_sizes(cfg.thorough, cfg.cap.saturating_sub(2)) {
        if k < 2 {
            continue;
        }
        for sort in SORTS {
          for ipat in [Pat::Ints, Pat::Alt, Pat::AltRot] {
            if ipat != Pat::Ints && !cfg.thorough && k != 7 && k != 14 {
                continue;
            }
            for zero in [false, true] {
                for (x, y) in &cmp_vals {
                    let b0 = prelude(t, k, ipat, 2);
                    let n = b0.ints().len();
                    for i in positions(n) {
                        for j in positions(n) {
                            if zero && j != positions(n)[0] {
                                continue;
                            }
                            if i == j && !zero {
                                continue;
                            }
                            if !cfg.thorough && !(k == 7 || k == 14 || (i == 0 && j == n - 1)) {
                                continue;
                            }
                            let (x, y) = (*x, *y);
                            sink.offer(|| {
                                let mut b = prelude(t, k, ipat, 2);
                                let ints = b.ints();
                                let mut order = b.ids();
                                let pi = order.iter().position(|v| *v == ints[i]).unwrap();
                                let p0pos = order.iter().position(|v| *v == 1).unwrap();
                                order.swap(p0pos, pi);
                                if !zero {
                                    let pj = order.iter().position(|v| *v == ints[j]).unwrap();
                                    let p1pos = order.iter().position(|v| *v == 2).unwrap();
                                    order.swap(p1pos, pj);
                                }
                                b.arrange(&order);
                                let stmt = b.ifc(sort, 1, if zero { None } else { Some(2) }, |taken, mut br| {
                                    br.lit(if taken { 111 } else { 222 });
                                    epilogue(t, br, wp)
                                });
                                let pn = if ipat == Pat::Ints { String::new() } else { format!("{}/", ipat.name()) };
                                case(format!("ifc/{sort:?}/zero{zero}/k{k}/{pn}{i}-{j}/{x}_{y}"), t, stmt, vec![], 2, vec![x, y], wp)
                            });
                        }
                    }
                }
            }
          }
        }
    }

    // ---- LET + SWITCH: objects with 0..8 fields, unique and shared, at every environment size --
    for k in env_sizes(cfg.thorough, cfg.cap.saturating_sub(3)) {
        for pat in [Pat::Ints, Pat::Alt, Pat::AltRot] {
            for n in 0..=8usize {
                if k + n + 2 > cfg.cap {
                    continue;
                }
                for shared in [false, true] {
                    sink.offer(|| {
                        let mut b = prelude(t, k, pat, 2);
                        let mut fields = Vec::new();
                        for f in 0..n {
                            fields.push(b.lit(500 + f as i64));
                        }
                        let o = b.let_(t, &format!("R{n}"), &format!("K{n}"), &fields);
                        let stmt = if shared {
                            // duplicate the object, destruct one copy (shared path), later the other
                            let mut order = b.ids();
                            order.push(o);
                            b.arrange(&order);
                            epilogue(t, b, wp)
                        } else {
                            epilogue(t, b, wp)
                        };
                        case(format!("letswitch/R{n}/k{k}/{}/shared{shared}", pat.name()), t, stmt, vec![], 2, vec![11, 22], wp)
                    });
                }
            }
        }
    }

    // ---- SWITCH in the full environment: the scrutinee is destructed while k other variables are
    // live (so its block pointers cross the register/spill boundary), unique and shared, with
    // integer and object fields, with and without integer parameters in front ---------------------
    for k in env_sizes(cfg.thorough, cfg.cap.saturating_sub(3)) {
        for pat in [Pat::Ints, Pat::Objs, Pat::Alt, Pat::AltRot] {
            for nparams in [2usize, 0] {
                if nparams > k {
                    continue;
                }
                let shapes: Vec<usize> = if cfg.thorough { (0..=9).collect() } else { vec![0, 1, 3, 4, 6, 8, 9] };
                for n in shapes {
                    // shape 9 = Mix5 (object fields across two blocks)
                    let nfields = if n == 9 { 5 } else { n };
                    if k + nfields + 2 > cfg.cap {
                        continue;
                    }
                    for shared in [false, true] {
                        sink.offer(|| {
                            let mut b = prelude(t, k, pat, nparams);
                            let o = if n == 9 {
                                let a = b.lit(1);
                                let x = b.lit(2);
                                let p = b.let_(t, "Box", "B", &[x]);
                                let c = b.lit(3);
                                let y = b.lit(4);
                                let q = b.let_(t, "Box", "B", &[y]);
                                let e = b.lit(5);
                                b.let_(t, "Mix5", "M5", &[a, p, c, q, e])
                            } else {
                                let mut fields = Vec::new();
                                for f in 0..n {
                                    fields.push(b.lit(500 + f as i64));
                                }
                                b.let_(t, &format!("R{n}"), &format!("K{n}"), &fields)
                            };
                            let scrut = if shared {
                                let mut order = b.ids();
                                order.push(o);
                                let ids = b.arrange(&order);
                                *ids.last().unwrap()
                            } else {
                                o
                            };
                            // switch right here, in the full environment
                            let stmt = b.switch(t, scrut, |_, sub, _| epilogue(t, sub, wp));
                            let args: Vec<i64> = (0..nparams).map(|i| 11 * (i as i64 + 1)).collect();
                            case(format!("switchfull/shape{n}/k{k}/{}/p{nparams}/shared{shared}", pat.name()), t, stmt, vec![], nparams, args, wp)
                        });
                    }
                }
            }
        }
    }

    // ---- objects with object fields crossing block boundaries (Mix5, Node), dropped and reused -
    for k in env_sizes(cfg.thorough, cfg.cap.saturating_sub(6)) {
        for variant in 0..6 {
            sink.offer(|| {
                let mut b = prelude(t, k, Pat::Alt, 2);
                let a = b.lit(1);
                let x = b.lit(2);
                let p = b.let_(t, "Box", "B", &[x]);
                let c = b.lit(3);
                let y = b.lit(4);
                let q = b.let_(t, "Box", "B", &[y]);
                let e = b.lit(5);
                let m = b.let_(t, "Mix5", "M5", &[a, p, c, q, e]);
                match variant {
                    0 => {}
                    1 => {
                        // drop it (deferred list with children waiting), then allocate again
                        let keep: Vec<V> = b.ids().into_iter().filter(|v| *v != m).collect();
                        b.arrange(&keep);
                        let z = b.lit(9);
                        b.let_(t, "Box", "B", &[z]);
                        let z2 = b.lit(10);
                        b.let_(t, "Box", "B", &[z2]);
                    }
                    2 => {
                        // share it three times
                        let mut order = b.ids();
                        order.push(m);
                        order.push(m);
                        b.arrange(&order);
                    }
                    3 => {
                        // share, drop one copy, keep the other
                        let mut order = b.ids();
                        order.push(m);
                        let ids = b.arrange(&order);
                        let keep: Vec<V> = ids[..ids.len() - 1].to_vec();
                        b.arrange(&keep);
                    }
                    4 => {
                        // a tree: Fork(Fork(Leaf,1,Leaf),2,Leaf)
                        let l1 = b.let_(t, "Node", "Leaf", &[]);
                        let v1 = b.lit(1);
                        let l2 = b.let_(t, "Node", "Leaf", &[]);
                        let n1 = b.let_(t, "Node", "Fork", &[l1, v1, l2]);
                        let v2 = b.lit(2);
                        let l3 = b.let_(t, "Node", "Leaf", &[]);
                        b.let_(t, "Node", "Fork", &[n1, v2, l3]);
                    }
                    _ => {
                        // drop everything except the integers, then rebuild a list (reuse)
                        let keep = b.ints();
                        b.arrange(&keep);
                        let n0 = b.let_(t, "List", "Nil", &[]);
                        let x1 = b.lit(1);
                        let c1 = b.let_(t, "List", "Cons", &[x1, n0]);
                        let x2 = b.lit(2);
                        b.let_(t, "List", "Cons", &[x2, c1]);
                    }
                }
                case(format!("heapmix/k{k}/v{variant}"), t, epilogue(t, b, wp), vec![], 2, vec![1, 2], wp)
            });
        }
    }

    // ---- multi-constructor switches (jump tables): every constructor of Tri, Quad, List --------
    for k in env_sizes(cfg.thorough, cfg.cap.saturating_sub(4)) {
        for (tn, tags) in [("Tri", vec!["T0", "T1", "T2"]), ("Quad", vec!["Q0", "Q1", "Q2", "Q3"]), ("List", vec!["Nil", "Cons"])] {
            for (ti, tag) in tags.iter().enumerate() {
                for pat in [Pat::Ints, Pat::Alt, Pat::AltRot] {
                    sink.offer(|| {
                        let mut b = prelude(t, k, pat, 2);
                        let decl = find_type(t, tn);
                        let sig = &decl.xtors[ti];
                        let mut args = Vec::new();
                        for a in &sig.args.bindings {
                            if a.chi == Chirality::Ext {
                                args.push(b.lit(70 + args.len() as i64));
                            } else {
                                args.push(b.let_(t, "List", "Nil", &[]));
                            }
                        }
                        b.let_(t, tn, tag, &args);
                        case(format!("jumptable/{tn}.{tag}/k{k}/{}", pat.name()), t, epilogue(t, b, wp), vec![], 2, vec![5, 6], wp)
                    });
                }
            }
        }
    }

    // ---- CREATE + INVOKE: closures capturing 0..8 variables; multi-method objects ---------------
    for k in env_sizes(cfg.thorough, cfg.cap.saturating_sub(4)) {
        // captured environments of 0..8 variables, and 11 / 14 so that the loads at method entry
        // cross the AArch64 register/spill boundary as well
        for m in (0..=8usize).chain([11, 14]) {
            if k + m + 3 > cfg.cap {
                continue;
            }
            for method in ["m0", "m1", "m2"] {
                for objcap in [false, true] {
                    if objcap && m == 0 {
                        continue;
                    }
                    sink.offer(|| {
                        let mut b = prelude(t, k, Pat::Alt, 2);
                        let mut envv = Vec::new();
                        for f in 0..m {
                            if objcap && f == m / 2 {
                                let x = b.lit(900 + f as i64);
                                envv.push(b.let_(t, "Box", "B", &[x]));
                            } else {
                                envv.push(b.lit(600 + f as i64));
                            }
                        }
                        let o = b.create(t, "Obj", &envv, |mname, mut mb, ps, es| {
                            // result = weighted sum of integer parameters and captured integers
                            let k = *ps.last().unwrap();
                            let mut acc = mb.lit(mname.len() as i64 * 10000 + (mname.as_bytes()[1] - b'0') as i64);
                            let ints: Vec<V> = ps[..ps.len() - 1].iter().chain(es.iter()).copied().filter(|v| mb.binding(*v).chi == Chirality::Ext).collect();
                            for v in ints {
                                let t2 = mb.op(acc, BinOp::Sum, acc);
                                let keep: Vec<V> = mb.ids().into_iter().filter(|x| *x != acc).collect();
                                mb.arrange(&keep);
                                let n = mb.op(t2, BinOp::Sum, v);
                                let keep: Vec<V> = mb.ids().into_iter().filter(|x| *x != t2 && *x != v).collect();
                                mb.arrange(&keep);
                                acc = n;
                            }
                            mb.invoke(t, k, "Ret", &[acc])
                        });
                        // invoke through the epilogue-style continuation, with the chosen method
                        let rest: Vec<V> = b.ids().into_iter().filter(|x| *x != o).collect();
                        let kont = b.create(t, "_Cont", &rest, |_, mb, ps, _| {
                            let mut mb = mb;
                            if wp {
                                mb.print(ps[0], false);
                            }
                            epilogue(t, mb, wp)
                        });
                        let stmt = match method {
                            "m0" => b.invoke(t, o, "m0", &[kont]),
                            "m1" => {
                                let x = b.lit(31);
                                b.invoke(t, o, "m1", &[x, kont])
                            }
                            _ => {
                                let x = b.lit(31);
                                let y = b.lit(32);
                                b.invoke(t, o, "m2", &[x, y, kont])
                            }
                        };
                        case(format!("closure/k{k}/env{m}/{method}/obj{objcap}"), t, stmt, vec![], 2, vec![8, 9], wp)
                    });
                }
            }
        }
    }

    // ---- INVOKE of a method with 0 / 6 / 12 parameters: the object is invoked from a register or
    // from a spill slot (the jump into the method table is computed in a temporary) -------------
    for k in [0usize, 2] {
        for m in [0usize, 1, 3] {
            for (method, nargs) in [("wa", 0usize), ("wb", 6), ("wc", 12)] {
                if nargs + 3 > cfg.cap {
                    continue;
                }
                sink.offer(|| {
                    let mut b = prelude(t, k, Pat::Alt, 2);
                    let envv: Vec<V> = (0..m).map(|f| b.lit(600 + f as i64)).collect();
                    let o = b.create(t, "Wide", &envv, |mname, mut mb, ps, es| {
                        let k = *ps.last().unwrap();
                        let mut acc = mb.lit(mname.as_bytes()[1] as i64 * 1000);
                        let ints: Vec<V> = ps[..ps.len() - 1].iter().chain(es.iter()).copied().collect();
                        for v in ints {
                            let t2 = mb.op(acc, BinOp::Sum, acc);
                            let keep: Vec<V> = mb.ids().into_iter().filter(|x| *x != acc).collect();
                            mb.arrange(&keep);
                            let n = mb.op(t2, BinOp::Sum, v);
                            let keep: Vec<V> = mb.ids().into_iter().filter(|x| *x != t2 && *x != v).collect();
                            mb.arrange(&keep);
                            acc = n;
                        }
                        mb.invoke(t, k, "Ret", &[acc])
                    });
                    let rest: Vec<V> = b.ids().into_iter().filter(|x| *x != o).collect();
                    let kont = b.create(t, "_Cont", &rest, |_, mb, ps, _| {
                        let mut mb = mb;
                        if wp {
                            mb.print(ps[0], false);
                        }
                        epilogue(t, mb, wp)
                    });
                    let mut args: Vec<V> = (0..nargs).map(|i| b.lit(31 + i as i64)).collect();
                    args.push(kont);
                    let stmt = b.invoke(t, o, method, &args);
                    case(format!("wideinvoke/k{k}/env{m}/{method}"), t, stmt, vec![], 2, vec![8, 9], wp)
                });
            }
        }
    }

    // ---- PRINT with 0..22 live variables (C13) x kind patterns x printed position --------------
    if wp {
        let ks: Vec<usize> = if cfg.thorough { (1..=22).collect() } else { vec![1, 2, 3, 4, 5, 6, 7, 8, 11, 12, 13, 14, 15, 20] };
        for k in ks {
            if k > cfg.cap {
                continue;
            }
            for pat in pats {
                let b0 = prelude(t, k, pat, 2);
                let ints = b0.ints();
                for pi in positions(ints.len()) {
                    for newline in [false, true] {
                        sink.offer(|| {
                            let mut b = prelude(t, k, pat, 2);
                            let ints = b.ints();
                            b.print(ints[pi], newline);
                            b.print(ints[pi], !newline);
                            case(format!("print/k{k}/{}/pos{pi}/nl{newline}", pat.name()), t, epilogue(t, b, true), vec![], 2, vec![-42, 43], true)
                        });
                    }
                }
            }
        }
    }

    // ---- entry arguments 0..max_params, CALL with k parameters, EXIT at each position ----------
    for np in 0..=cfg.max_params {
        for k in [np, np + 1, 7.max(np), 13.max(np)] {
            if k > cfg.cap.saturating_sub(2) {
                continue;
            }
            sink.offer(|| {
                let b = prelude(t, k, Pat::Ints, np);
                let args: Vec<i64> = (0..np).map(|i| (i as i64 + 1) * 1_000_003 * if i % 2 == 0 { 1 } else { -1 }).collect();
                case(format!("entry/np{np}/k{k}"), t, epilogue(t, b, wp), vec![], np, args, wp)
            });
        }
    }
    for k in env_sizes(cfg.thorough, cfg.cap.saturating_sub(2)) {
        for pat in [Pat::Ints, Pat::Alt, Pat::AltRot, Pat::ClosRot] {
            sink.offer(|| {
                let b = prelude(t, k, pat, 2);
                // callee takes the environment reversed
                let mut order = b.ids();
                order.reverse();
                let callee_params: Vec<ContextBinding> = order
                    .iter()
                    .enumerate()
                    .map(|(i, v)| {
                        let ob = b.binding(*v);
                        ContextBinding { var: axcut::syntax::Identifier { name: format!("q{i}"), id: 50_000 + i }, chi: ob.chi.clone(), ty: ob.ty.clone() }
                    })
                    .collect();
                let cb = Bld::new(callee_params.clone(), 60_000);
                let callee = def("callee", callee_params, epilogue(t, cb, wp));
                let stmt = b.call("callee", &order);
                case(format!("call/k{k}/{}", pat.name()), t, stmt, vec![callee], 2, vec![12, 13], wp)
            });
            let b0 = prelude(t, k, pat, 2);
            for pi in positions(b0.ints().len()) {
                sink.offer(|| {
                    let b = prelude(t, k, pat, 2);
                    let v = b.ints()[pi];
                    case(format!("exit/k{k}/{}/pos{pi}", pat.name()), t, b.exit(v), vec![], 2, vec![250, 1 << 33], false)
                });
            }
        }
    }

    // ---- loops: build and drop structures n times through a recursive definition (heap reuse) --
    for n in if cfg.thorough { vec![1i64, 2, 5, 17] } else { vec![1, 3] } {
        for shape in 0..LOOP_SHAPES {
            sink.offer(|| loop_case(t, shape, n));
        }
    }
}

pub const LOOP_SHAPES: usize = 6;

/// `loop(i, acc)`: if i == 0 exit acc else { build a structure; use/drop it; loop(i-1, acc') }.
pub fn loop_case(t: &[TypeDeclaration], shape: usize, n: i64) -> AxCase {
    let params = vec![param("i", 1), param("acc", 2)];
    let b = Bld::new(params.clone(), 100);
    let body = b.ifc(IfSort::Equal, 1, None, |zero, mut br| {
        if zero {
            br.exit(2)
        } else {
            let one = br.lit(1);
            let i2 = br.op(1, BinOp::Sub, one);
            let nil = br.let_(t, "List", "Nil", &[]);
            let x1 = br.lit(3);
            let c1 = br.let_(t, "List", "Cons", &[x1, nil]);
            let x2 = br.lit(4);
            let c2 = br.let_(t, "List", "Cons", &[x2, c1]);
            match shape {
                0 => {
                    // drop the list unread
                    let acc2 = br.op(2, BinOp::Sum, i2);
                    br.call("loop", &[i2, acc2])
                }
                1 => {
                    // destruct the head uniquely, drop the tail
                    br.switch(t, c2, |tag, mut sb, fs| {
                        if tag == "Nil" {
                            sb.call("loop", &[i2, 2])
                        } else {
                            let acc2 = sb.op(2, BinOp::Sum, fs[0]);
                            sb.call("loop", &[i2, acc2])
                        }
                    })
                }
                2 => {
                    // share, destruct one copy, drop the other
                    let mut order = br.ids();
                    order.push(c2);
                    let ids = br.arrange(&order);
                    let dup = *ids.last().unwrap();
                    br.switch(t, dup, |tag, mut sb, fs| {
                        if tag == "Nil" {
                            sb.call("loop", &[i2, 2])
                        } else {
                            let acc2 = sb.op(2, BinOp::Sum, fs[0]);
                            sb.call("loop", &[i2, acc2])
                        }
                    })
                }
                3 => {
                    // a closure capturing the list and two integers, invoked once
                    let y = br.lit(9);
                    let f = br.create(t, "Fun", &[c2, y], |_, mut m, ps, es| {
                        let r = m.op(ps[0], BinOp::Sum, es[1]);
                        m.invoke(t, ps[1], "Ret", &[r])
                    });
                    let k = br.create(t, "_Cont", &[i2, 2], |_, mut m, ps, es| {
                        let acc2 = m.op(es[1], BinOp::Sum, ps[0]);
                        m.call("loop", &[es[0], acc2])
                    });
                    let arg = br.lit(1);
                    br.invoke(t, f, "ap", &[arg, k])
                }
                4 => {
                    // a tree with two object children and a 5-field object (two blocks), dropped
                    let l1 = br.let_(t, "Node", "Leaf", &[]);
                    let v1 = br.lit(1);
                    let l2 = br.let_(t, "Node", "Leaf", &[]);
                    let n1 = br.let_(t, "Node", "Fork", &[l1, v1, l2]);
                    let v2 = br.lit(2);
                    let l3 = br.let_(t, "Node", "Leaf", &[]);
                    let _n2 = br.let_(t, "Node", "Fork", &[n1, v2, l3]);
                    let a = br.lit(1);
                    let xx = br.lit(2);
                    let p = br.let_(t, "Box", "B", &[xx]);
                    let c = br.lit(3);
                    let yy = br.lit(4);
                    let q = br.let_(t, "Box", "B", &[yy]);
                    let e = br.lit(5);
                    let _m = br.let_(t, "Mix5", "M5", &[a, p, c, q, e]);
                    let acc2 = br.op(2, BinOp::Sum, i2);
                    br.call("loop", &[i2, acc2])
                }
                _ => {
                    // an 8-field record (three blocks) read back uniquely
                    let mut fs = Vec::new();
                    for f in 0..8 {
                        fs.push(br.lit(f));
                    }
                    let r = br.let_(t, "R8", "K8", &fs);
                    br.switch(t, r, |_, mut sb, fs| {
                        let acc2 = sb.op(2, BinOp::Sum, fs[7]);
                        sb.call("loop", &[i2, acc2])
                    })
                }
            }
        }
    });
    let lp = def("loop", params, body);
    let mb = Bld::new(vec![param("p0", 1), param("p1", 2)], 100);
    let main = mb.call("loop", &[1, 2]);
    let params2: Vec<ContextBinding> = (0..2).map(|i| param(&format!("p{i}"), 1 + i)).collect();
    AxCase { name: format!("loop/n{n}/shape{shape}"), prog: prog(vec![def("main", params2, main), lp], t.to_vec()), args: vec![n, 0], uses_print: false }
}
