//! A small term language for generating Fun source text, its renderer (placing parentheses as the
//! grammar requires) and a typed, size-tiered exhaustive enumerator (G-FUN, DESIGN §3.1).
use std::collections::HashMap;

#[derive(Clone, Debug, PartialEq, Eq, Hash, PartialOrd, Ord)]
pub enum Ty {
    Int,
    List,
    Fun,
    Stream,
    Tri,
    Pair,
}
impl Ty {
    pub fn text(&self) -> &'static str {
        match self {
            Ty::Int => "i64",
            Ty::List => "List[i64]",
            Ty::Fun => "Fun[i64, i64]",
            Ty::Stream => "Stream[i64]",
            Ty::Tri => "Tri",
            Ty::Pair => "Pair[i64, i64]",
        }
    }
    pub fn is_codata(&self) -> bool {
        matches!(self, Ty::Fun | Ty::Stream)
    }
}

#[derive(Clone, Debug, PartialEq, Eq, Hash)]
pub enum T {
    Lit(i64),
    Var(String),
    Op(Box<T>, &'static str, Box<T>),
    /// cmp is one of "==", "!=", "<", "<=", ">", ">="; `b == None` is the zero form `a cmp 0`
    If(&'static str, Box<T>, Option<Box<T>>, Box<T>, Box<T>),
    /// zero on the left: `0 cmp a`
    IfZeroLeft(&'static str, Box<T>, Box<T>, Box<T>),
    Let(String, Ty, Box<T>, Box<T>),
    Call(String, Vec<T>),
    Ctor(String, Vec<T>),
    Case(Box<T>, &'static str, Vec<(String, Vec<String>, T)>),
    Dtor(Box<T>, String, &'static str, Vec<T>),
    New(Vec<(String, Vec<String>, T)>),
    Label(String, Box<T>),
    Goto(String, Box<T>),
    Exit(Box<T>),
    Print(bool, Box<T>, Box<T>),
    Paren(Box<T>),
}

pub fn lit(n: i64) -> T {
    T::Lit(n)
}
pub fn var(s: &str) -> T {
    T::Var(s.to_string())
}
pub fn op(a: T, o: &'static str, b: T) -> T {
    T::Op(Box::new(a), o, Box::new(b))
}
pub fn let_(x: &str, ty: Ty, a: T, b: T) -> T {
    T::Let(x.to_string(), ty, Box::new(a), Box::new(b))
}
pub fn call(f: &str, args: Vec<T>) -> T {
    T::Call(f.to_string(), args)
}
pub fn ctor(c: &str, args: Vec<T>) -> T {
    T::Ctor(c.to_string(), args)
}
pub fn if_(cmp: &'static str, a: T, b: T, t: T, e: T) -> T {
    T::If(cmp, Box::new(a), Some(Box::new(b)), Box::new(t), Box::new(e))
}
pub fn ifz(cmp: &'static str, a: T, t: T, e: T) -> T {
    T::If(cmp, Box::new(a), None, Box::new(t), Box::new(e))
}
pub fn print(nl: bool, a: T, next: T) -> T {
    T::Print(nl, Box::new(a), Box::new(next))
}
pub fn case_list(scrut: T, nil: T, x: &str, xs: &str, cons: T) -> T {
    T::Case(Box::new(scrut), "[i64]", vec![("Nil".into(), vec![], nil), ("Cons".into(), vec![x.into(), xs.into()], cons)])
}
pub fn new_fun(x: &str, body: T) -> T {
    T::New(vec![("ap".into(), vec![x.into()], body)])
}
pub fn ap(f: T, a: T) -> T {
    T::Dtor(Box::new(f), "ap".into(), "[i64, i64]", vec![a])
}
pub fn label(a: &str, t: T) -> T {
    T::Label(a.to_string(), Box::new(t))
}
pub fn goto(a: &str, t: T) -> T {
    T::Goto(a.to_string(), Box::new(t))
}

impl T {
    pub fn size(&self) -> usize {
        match self {
            T::Lit(_) | T::Var(_) => 1,
            T::Op(a, _, b) => 1 + a.size() + b.size(),
            T::If(_, a, b, t, e) => 1 + a.size() + b.as_ref().map(|x| x.size()).unwrap_or(0) + t.size() + e.size(),
            T::IfZeroLeft(_, a, t, e) => 1 + a.size() + t.size() + e.size(),
            T::Let(_, _, a, b) => 1 + a.size() + b.size(),
            T::Call(_, args) | T::Ctor(_, args) => 1 + args.iter().map(|a| a.size()).sum::<usize>(),
            T::Case(s, _, cl) => 1 + s.size() + cl.iter().map(|c| c.2.size()).sum::<usize>(),
            T::Dtor(s, _, _, args) => 1 + s.size() + args.iter().map(|a| a.size()).sum::<usize>(),
            T::New(cl) => 1 + cl.iter().map(|c| c.2.size()).sum::<usize>(),
            T::Label(_, t) | T::Goto(_, t) | T::Exit(t) | T::Paren(t) => 1 + t.size(),
            T::Print(_, a, n) => 1 + a.size() + n.size(),
        }
    }

    fn atomic(&self) -> bool {
        matches!(self, T::Lit(n) if *n >= 0) || matches!(self, T::Var(_) | T::Call(..) | T::Paren(_))
    }
    fn term1(&self) -> String {
        // Term1: literal, variable, call, parenthesized term
        if self.atomic() || matches!(self, T::Lit(_)) {
            self.render()
        } else {
            format!("({})", self.render())
        }
    }
    fn term2(&self) -> String {
        // Term2 additionally allows new, constructor, destructor, case
        match self {
            T::New(_) | T::Ctor(..) | T::Dtor(..) | T::Case(..) => self.render(),
            _ => self.term1(),
        }
    }
    fn term3(&self) -> String {
        // everything except print
        match self {
            T::Print(..) => format!("({})", self.render()),
            _ => self.render(),
        }
    }
    /// operand of a comparison: must not swallow the comparison operator
    fn cond(&self) -> String {
        match self {
            T::Lit(_) | T::Var(_) | T::Call(..) | T::Paren(_) | T::Ctor(..) | T::Dtor(..) => self.render(),
            _ => format!("({})", self.render()),
        }
    }
    fn clauses(cl: &[(String, Vec<String>, T)]) -> String {
        cl.iter()
            .map(|(x, ps, b)| {
                if ps.is_empty() {
                    format!("{x} => {}", b.render())
                } else {
                    format!("{x}({}) => {}", ps.join(", "), b.render())
                }
            })
            .collect::<Vec<_>>()
            .join(", ")
    }

    pub fn render(&self) -> String {
        match self {
            T::Lit(n) => n.to_string(),
            T::Var(x) => x.clone(),
            T::Op(a, o, b) => format!("{} {o} {}", a.term1(), b.term1()),
            T::If(c, a, Some(b), t, e) => format!("if {} {c} {} {{ {} }} else {{ {} }}", a.cond(), b.cond(), t.render(), e.render()),
            T::If(c, a, None, t, e) => format!("if {} {c} 0 {{ {} }} else {{ {} }}", a.cond(), t.render(), e.render()),
            T::IfZeroLeft(c, a, t, e) => format!("if 0 {c} {} {{ {} }} else {{ {} }}", a.cond(), t.render(), e.render()),
            T::Let(x, ty, a, b) => format!("let {x}: {} = {}; {}", ty.text(), a.term3(), b.render()),
            T::Call(f, args) => format!("{f}({})", args.iter().map(|a| a.render()).collect::<Vec<_>>().join(", ")),
            T::Ctor(c, args) => {
                if args.is_empty() {
                    c.clone()
                } else {
                    format!("{c}({})", args.iter().map(|a| a.render()).collect::<Vec<_>>().join(", "))
                }
            }
            T::Case(s, tyargs, cl) => format!("{}.case{tyargs} {{ {} }}", s.term2(), T::clauses(cl)),
            T::Dtor(s, d, tyargs, args) => {
                if args.is_empty() {
                    format!("{}.{d}{tyargs}", s.term2())
                } else {
                    format!("{}.{d}{tyargs}({})", s.term2(), args.iter().map(|a| a.render()).collect::<Vec<_>>().join(", "))
                }
            }
            T::New(cl) => format!("new {{ {} }}", T::clauses(cl)),
            T::Label(a, t) => format!("label {a} {{ {} }}", t.render()),
            T::Goto(a, t) => format!("goto {a} ({})", t.render()),
            T::Exit(t) => format!("exit {}", t.render()),
            T::Print(nl, a, n) => format!("{}({}); {}", if *nl { "println_i64" } else { "print_i64" }, a.render(), n.render()),
            T::Paren(t) => format!("({})", t.render()),
        }
    }
}

pub const PRELUDE_TYPES: &str = "data List[A] { Nil, Cons(x: A, xs: List[A]) }
data Pair[A, B] { Tup(a: A, b: B) }
data Tri { T0, T1(a: i64), T2(a: i64, b: i64) }
codata Fun[A, B] { ap(x: A): B }
codata Stream[A] { hd: A, tl: Stream[A] }
";

pub const PRELUDE_DEFS: &str = "def inc(v: i64): i64 { v + 1 }
def sum(l: List[i64]): i64 { l.case[i64] { Nil => 0, Cons(h, t) => h + sum(t) } }
def range(k: i64): List[i64] { if k <= 0 { Nil } else { Cons(k, range(k - 1)) } }
def nats(k: i64): Stream[i64] { new { hd => k, tl => nats(k + 1) } }
";

pub struct FunDef {
    pub name: String,
    pub params: Vec<(String, Ty)>,
    pub ret: Ty,
    pub body: T,
}
impl FunDef {
    pub fn render(&self) -> String {
        format!(
            "def {}({}): {} {{ {} }}\n",
            self.name,
            self.params.iter().map(|(n, t)| format!("{n}: {}", t.text())).collect::<Vec<_>>().join(", "),
            self.ret.text(),
            self.body.render()
        )
    }
}

pub fn program(defs: &[FunDef]) -> String {
    let mut s = String::from(PRELUDE_TYPES);
    s.push_str(PRELUDE_DEFS);
    for d in defs {
        s.push_str(&d.render());
    }
    s
}

pub fn main_def(params: &[&str], body: T) -> FunDef {
    FunDef { name: "main".into(), params: params.iter().map(|p| (p.to_string(), Ty::Int)).collect(), ret: Ty::Int, body }
}

// ---------------------------------------------------------------------------------------------
// typed exhaustive enumeration
// ---------------------------------------------------------------------------------------------

#[derive(Clone)]
pub struct Alphabet {
    pub lits: Vec<i64>,
    pub ops: Vec<&'static str>,
    pub cmps: Vec<&'static str>,
    pub binders: Vec<&'static str>,
    pub labels: Vec<&'static str>,
    pub effects: bool,
    pub effects_in_args: bool,
    pub codata: bool,
    pub control: bool,
    pub calls: bool,
}

impl Alphabet {
    pub fn small() -> Alphabet {
        Alphabet {
            lits: vec![0, 1, 2],
            ops: vec!["+", "-", "*"],
            cmps: vec!["==", "<"],
            binders: vec!["x", "y"],
            labels: vec!["a"],
            effects: true,
            effects_in_args: false,
            codata: true,
            control: true,
            calls: true,
        }
    }
}

#[derive(Clone, PartialEq, Eq, Hash)]
pub struct Scope {
    pub vars: Vec<(String, Ty)>,
    pub covars: Vec<(String, Ty)>,
    /// inside an argument position / codata binding: no effects allowed (unless effects_in_args)
    pub pure_only: bool,
}
impl Scope {
    fn bind(&self, x: &str, t: Ty) -> Scope {
        let mut s = self.clone();
        // single namespace with shadowing: the newest binding of a name hides older ones (and
        // covariables of that name)
        s.vars.retain(|(n, _)| n != x);
        s.covars.retain(|(n, _)| n != x);
        s.vars.push((x.to_string(), t));
        s
    }
    fn bind_co(&self, a: &str, t: Ty) -> Scope {
        let mut s = self.clone();
        s.vars.retain(|(n, _)| n != a);
        s.covars.retain(|(n, _)| n != a);
        s.covars.push((a.to_string(), t));
        s
    }
    fn pure(&self) -> Scope {
        let mut s = self.clone();
        s.pure_only = true;
        s
    }
}

pub struct Enumerator {
    pub alpha: Alphabet,
    memo: HashMap<(Ty, Scope, usize), std::rc::Rc<Vec<T>>>,
}

impl Enumerator {
    pub fn new(alpha: Alphabet) -> Enumerator {
        Enumerator { alpha, memo: HashMap::new() }
    }

    /// All terms of type `ty` with exactly `size` nodes in `scope`.
    pub fn terms(&mut self, ty: &Ty, scope: &Scope, size: usize) -> std::rc::Rc<Vec<T>> {
        let key = (ty.clone(), scope.clone(), size);
        if let Some(v) = self.memo.get(&key) {
            return v.clone();
        }
        let mut out: Vec<T> = Vec::new();
        let a = self.alpha.clone();
        let eff_ok = a.effects && (!scope.pure_only || a.effects_in_args);
        let arg_scope = if a.effects_in_args { scope.clone() } else { scope.pure() };
        if size == 1 {
            if *ty == Ty::Int {
                for l in &a.lits {
                    out.push(T::Lit(*l));
                }
            }
            for (n, t) in &scope.vars {
                if t == ty {
                    out.push(T::Var(n.clone()));
                }
            }
            match ty {
                Ty::List => out.push(ctor("Nil", vec![])),
                Ty::Tri => out.push(ctor("T0", vec![])),
                _ => {}
            }
        } else {
            let rest = size - 1;
            // let x: S = e1; e2   (any S in a small set)
            for bt in [Ty::Int, Ty::List, Ty::Fun] {
                if bt.is_codata() && !a.codata {
                    continue;
                }
                for s1 in 1..rest {
                    let s2 = rest - s1;
                    let bound_scope = if bt.is_codata() && !a.effects_in_args { scope.pure() } else { scope.clone() };
                    let e1s = self.terms(&bt, &bound_scope, s1);
                    if e1s.is_empty() {
                        continue;
                    }
                    for x in &a.binders {
                        let e2s = self.terms(ty, &scope.bind(x, bt.clone()), s2);
                        for e1 in e1s.iter() {
                            for e2 in e2s.iter() {
                                out.push(let_(x, bt.clone(), e1.clone(), e2.clone()));
                            }
                        }
                    }
                }
            }
            // if a cmp b {t} else {e}  /  zero forms
            if rest >= 3 {
                for sa in 1..rest - 1 {
                    for st in 1..rest - sa {
                        let se = rest - sa - st;
                        if se == 0 {
                            continue;
                        }
                        let conds = self.terms(&Ty::Int, &arg_scope, sa);
                        let ts = self.terms(ty, scope, st);
                        let es = self.terms(ty, scope, se);
                        for c in conds.iter() {
                            for t in ts.iter() {
                                for e in es.iter() {
                                    out.push(ifz(a.cmps[0], c.clone(), t.clone(), e.clone()));
                                }
                            }
                        }
                    }
                }
            }
            if rest >= 4 {
                for sa in 1..rest - 2 {
                    for sb in 1..rest - sa - 1 {
                        for st in 1..rest - sa - sb {
                            let se = rest - sa - sb - st;
                            if se == 0 {
                                continue;
                            }
                            let xs = self.terms(&Ty::Int, &arg_scope, sa);
                            let ys = self.terms(&Ty::Int, &arg_scope, sb);
                            let ts = self.terms(ty, scope, st);
                            let es = self.terms(ty, scope, se);
                            for cmp in a.cmps.iter().skip(1) {
                                for x in xs.iter() {
                                    for y in ys.iter() {
                                        for t in ts.iter() {
                                            for e in es.iter() {
                                                out.push(if_(cmp, x.clone(), y.clone(), t.clone(), e.clone()));
                                            }
                                        }
                                    }
                                }
                            }
                        }
                    }
                }
            }
            // l.case { Nil => t, Cons(x, xs) => e }
            if rest >= 3 {
                for ss in 1..rest - 1 {
                    for sn in 1..rest - ss {
                        let sc = rest - ss - sn;
                        if sc == 0 {
                            continue;
                        }
                        let scruts = self.terms(&Ty::List, &arg_scope, ss);
                        let ns = self.terms(ty, scope, sn);
                        for x in &a.binders {
                            let inner = scope.bind(x, Ty::Int).bind("t", Ty::List);
                            let cs = self.terms(ty, &inner, sc);
                            for s in scruts.iter() {
                                for n in ns.iter() {
                                    for c in cs.iter() {
                                        out.push(case_list(s.clone(), n.clone(), x, "t", c.clone()));
                                    }
                                }
                            }
                        }
                    }
                }
            }
            // label a { t } / goto a (t)
            if a.control {
                for l in &a.labels {
                    for t in self.terms(ty, &scope.bind_co(l, ty.clone()), rest).iter() {
                        out.push(label(l, t.clone()));
                    }
                }
                if eff_ok {
                    for (l, lt) in scope.covars.clone() {
                        for t in self.terms(&lt, scope, rest).iter() {
                            out.push(goto(&l, t.clone()));
                        }
                    }
                }
            }
            match ty {
                Ty::Int => {
                    // a op b
                    for sa in 1..rest {
                        let sb = rest - sa;
                        let xs = self.terms(&Ty::Int, &arg_scope, sa);
                        let ys = self.terms(&Ty::Int, &arg_scope, sb);
                        for o in &a.ops {
                            for x in xs.iter() {
                                for y in ys.iter() {
                                    out.push(op(x.clone(), o, y.clone()));
                                }
                            }
                        }
                    }
                    if a.calls {
                        for x in self.terms(&Ty::Int, &arg_scope, rest).iter() {
                            out.push(call("inc", vec![x.clone()]));
                        }
                        for x in self.terms(&Ty::List, &arg_scope, rest).iter() {
                            out.push(call("sum", vec![x.clone()]));
                        }
                    }
                    if a.codata {
                        // f.ap(x), s.hd
                        for sf in 1..rest {
                            let sx = rest - sf;
                            let fs = self.terms(&Ty::Fun, &arg_scope, sf);
                            let xs = self.terms(&Ty::Int, &arg_scope, sx);
                            for f in fs.iter() {
                                for x in xs.iter() {
                                    out.push(ap(f.clone(), x.clone()));
                                }
                            }
                        }
                    }
                    if eff_ok {
                        for sa in 1..rest {
                            let sn = rest - sa;
                            let xs = self.terms(&Ty::Int, &arg_scope, sa);
                            let ns = self.terms(&Ty::Int, scope, sn);
                            for x in xs.iter() {
                                for n in ns.iter() {
                                    out.push(print(true, x.clone(), n.clone()));
                                }
                            }
                        }
                        for x in self.terms(&Ty::Int, &arg_scope, rest).iter() {
                            out.push(T::Exit(Box::new(x.clone())));
                        }
                    }
                }
                Ty::List => {
                    for sa in 1..rest {
                        let sb = rest - sa;
                        let xs = self.terms(&Ty::Int, &arg_scope, sa);
                        let ys = self.terms(&Ty::List, &arg_scope, sb);
                        for x in xs.iter() {
                            for y in ys.iter() {
                                out.push(ctor("Cons", vec![x.clone(), y.clone()]));
                            }
                        }
                    }
                    if a.calls {
                        for x in self.terms(&Ty::Int, &arg_scope, rest).iter() {
                            out.push(call("range", vec![x.clone()]));
                        }
                    }
                }
                Ty::Fun => {
                    for x in &a.binders {
                        // the body of a method is a fresh, impure position again
                        let mut inner = scope.bind(x, Ty::Int);
                        inner.pure_only = scope.pure_only;
                        for b in self.terms(&Ty::Int, &inner, rest).iter() {
                            out.push(new_fun(x, b.clone()));
                        }
                    }
                }
                _ => {}
            }
        }
        let rc = std::rc::Rc::new(out);
        self.memo.insert(key, rc.clone());
        rc
    }
}
