//! Architecture-agnostic wrappers (one growing code store + clonable machine states), used by the
//! explicit-state searches that execute one real code fragment per transition.
use super::*;
use crate::pipeline::Arch;

pub enum AnyProg {
    X86(x86::Program),
    A64(a64::Program),
    Rv(rv64::Program),
}

#[derive(Clone, PartialEq, Eq, Hash)]
pub enum AnyState {
    X86(x86::State),
    A64(a64::State),
    Rv(rv64::State),
}

impl AnyProg {
    pub fn new(arch: Arch) -> AnyProg {
        match arch {
            Arch::X86 => AnyProg::X86(x86::Program::new()),
            Arch::A64 => AnyProg::A64(a64::Program::new()),
            Arch::Rv64 => AnyProg::Rv(rv64::Program::new()),
        }
    }
    /// Appends text and returns the index of its first instruction.
    pub fn append(&mut self, text: &str) -> Result<usize, String> {
        match self {
            AnyProg::X86(p) => {
                let i = p.insns.len();
                p.append(text)?;
                Ok(i)
            }
            AnyProg::A64(p) => {
                let i = p.insns.len();
                p.append(text)?;
                Ok(i)
            }
            AnyProg::Rv(p) => {
                let i = p.insns.len();
                p.append(text)?;
                Ok(i)
            }
        }
    }
    pub fn label(&self, l: &str) -> Option<usize> {
        match self {
            AnyProg::X86(p) => p.labels.get(l).copied(),
            AnyProg::A64(p) => p.labels.get(l).copied(),
            AnyProg::Rv(p) => p.labels.get(l).copied(),
        }
    }
    pub fn len(&self) -> usize {
        match self {
            AnyProg::X86(p) => p.insns.len(),
            AnyProg::A64(p) => p.insns.len(),
            AnyProg::Rv(p) => p.insns.len(),
        }
    }
}

pub fn run_any(prog: &AnyProg, info: &ArchInfo, st: &mut AnyState, start: usize, limit: u64, mon: &mut dyn Monitor) -> RunResult {
    match (prog, st) {
        (AnyProg::X86(p), AnyState::X86(s)) => x86::Emu { prog: p, info, limit }.run(s, start, mon),
        (AnyProg::A64(p), AnyState::A64(s)) => a64::Emu { prog: p, info, limit }.run(s, start, mon),
        (AnyProg::Rv(p), AnyState::Rv(s)) => rv64::Emu { prog: p, info, limit }.run(s, start, mon),
        _ => panic!("architecture mismatch"),
    }
}

impl AnyState {
    pub fn entry(arch: Arch, info: &ArchInfo, heap_words: usize, stack_words: usize, args: &[i64]) -> AnyState {
        match arch {
            Arch::X86 => {
                let mut s = x86::State::at_entry(heap_words, args);
                s.mem = rebuild_mem(&s.mem, heap_words, stack_words, s.entry_sp);
                AnyState::X86(s)
            }
            Arch::A64 => {
                let mut s = a64::State::at_entry(heap_words, args);
                s.mem = rebuild_mem(&s.mem, heap_words, stack_words, s.entry_sp);
                AnyState::A64(s)
            }
            Arch::Rv64 => {
                let params: Vec<(usize, i64)> = args
                    .iter()
                    .enumerate()
                    .filter_map(|(i, a)| match info.temps.get(2 * i + 1) {
                        Some(Loc::Reg(r)) => Some((*r, *a)),
                        _ => None,
                    })
                    .collect();
                AnyState::Rv(rv64::State::at_entry(heap_words, info, &params))
            }
        }
    }
    pub fn with_cpu<R>(&self, info: &ArchInfo, f: impl FnOnce(&dyn Cpu) -> R) -> R {
        match self {
            AnyState::X86(s) => f(&x86::X86Cpu { st: s, info }),
            AnyState::A64(s) => f(&a64::A64Cpu { st: s, info }),
            AnyState::Rv(s) => f(&rv64::RvCpu { st: s, info }),
        }
    }
    pub fn mem(&self) -> &Mem {
        match self {
            AnyState::X86(s) => &s.mem,
            AnyState::A64(s) => &s.mem,
            AnyState::Rv(s) => &s.mem,
        }
    }
    pub fn mem_mut(&mut self) -> &mut Mem {
        match self {
            AnyState::X86(s) => &mut s.mem,
            AnyState::A64(s) => &mut s.mem,
            AnyState::Rv(s) => &mut s.mem,
        }
    }
    pub fn sp(&self) -> u64 {
        match self {
            AnyState::X86(s) => s.regs[x86::RSP].v as u64,
            AnyState::A64(s) => s.regs[a64::SP].v as u64,
            AnyState::Rv(_) => 0,
        }
    }
    pub fn entry_sp(&self) -> u64 {
        match self {
            AnyState::X86(s) => s.entry_sp,
            AnyState::A64(s) => s.entry_sp,
            AnyState::Rv(_) => 0,
        }
    }
    pub fn reg(&self, r: usize) -> Word {
        match self {
            AnyState::X86(s) => s.regs[r],
            AnyState::A64(s) => s.regs[r],
            AnyState::Rv(s) => s.regs[r],
        }
    }
    pub fn set_reg(&mut self, r: usize, w: Word) {
        match self {
            AnyState::X86(s) => s.regs[r] = w,
            AnyState::A64(s) => s.regs[r] = w,
            AnyState::Rv(s) => {
                if r != 0 {
                    s.regs[r] = w
                }
            }
        }
    }
    pub fn get_loc(&self, loc: Loc) -> Word {
        match loc {
            Loc::Reg(r) => self.reg(r),
            Loc::Spill(off) => {
                let a = (self.sp() as i64 + off) as u64;
                self.mem().load(a, self.sp(), self.entry_sp()).unwrap_or(Word::undef(0))
            }
        }
    }
    pub fn set_loc(&mut self, loc: Loc, w: Word) {
        match loc {
            Loc::Reg(r) => self.set_reg(r, w),
            Loc::Spill(off) => {
                let (sp, lim) = (self.sp(), self.entry_sp());
                let a = (sp as i64 + off) as u64;
                let _ = self.mem_mut().store(a, w, sp, lim);
            }
        }
    }
    pub fn clear_flags(&mut self) {
        match self {
            AnyState::X86(s) => s.flags.d = false,
            AnyState::A64(s) => s.flags.d = false,
            AnyState::Rv(_) => {}
        }
    }
}

fn rebuild_mem(old: &Mem, heap_words: usize, stack_words: usize, entry_sp: u64) -> Mem {
    // keep the word at entry_sp (the return address on x86-64) when shrinking the stack region
    let mut m = Mem::with_stack(heap_words, stack_words);
    if entry_sp >= old.stack_base() && entry_sp < STACK_TOP {
        let oi = ((entry_sp - old.stack_base()) / 8) as usize;
        let ni = ((entry_sp - m.stack_base()) / 8) as usize;
        if oi < old.stack.len() && ni < m.stack.len() {
            m.stack[ni] = old.stack[oi];
        }
    }
    m
}

/// A memory-light snapshot of a machine state relative to a template state of the same search
/// (only registers, the heap and the stack words that are not the undefined filler).
#[derive(Clone)]
pub struct Compact {
    regs: Vec<Word>,
    flags_defined: bool,
    heap: Vec<Word>,
    high_water: usize,
    stack_sparse: Vec<(u32, Word)>,
    /// indices of stack words equal to `SCRUBBED` (the value the searches write over dead slots)
    stack_scrubbed: Vec<u16>,
}

/// The undefined word the searches write over everything that is dead at a statement boundary.
pub const SCRUBBED: Word = Word::undef(0x0dead_0000);

impl Compact {
    pub fn approx_bytes(&self) -> usize {
        (self.regs.len() + self.heap.len()) * std::mem::size_of::<Word>() + self.stack_sparse.len() * std::mem::size_of::<(u32, Word)>() + self.stack_scrubbed.len() * 2 + 120
    }
}

impl AnyState {
    fn regs_slice(&self) -> &[Word] {
        match self {
            AnyState::X86(s) => &s.regs,
            AnyState::A64(s) => &s.regs,
            AnyState::Rv(s) => &s.regs,
        }
    }
    /// Snapshot relative to `template` (the state the search started from): only the stack words
    /// that differ from the template's are stored.
    pub fn compact(&self, template: &AnyState) -> Compact {
        let mem = self.mem();
        let tstack = &template.mem().stack;
        assert!(mem.stack.len() == tstack.len() && mem.stack.len() <= u16::MAX as usize, "compact snapshot: stack regions differ");
        Compact {
            regs: self.regs_slice().to_vec(),
            flags_defined: false,
            heap: {
                // the untouched tail of the heap region is not stored
                let filler = *mem.heap.last().expect("heap region");
                let n = mem.heap.iter().rposition(|w| *w != filler).map_or(0, |i| i + 1);
                mem.heap[..n].to_vec()
            },
            high_water: mem.heap_high_water,
            stack_sparse: mem.stack.iter().zip(tstack.iter()).enumerate().filter(|(_, (w, t))| **w != **t && **w != SCRUBBED).map(|(i, (w, _))| (i as u32, *w)).collect(),
            stack_scrubbed: mem.stack.iter().zip(tstack.iter()).enumerate().filter(|(_, (w, t))| **w != **t && **w == SCRUBBED).map(|(i, _)| i as u16).collect(),
        }
    }
    /// Rebuilds a full state from a snapshot; `template` supplies everything that never changes
    /// during a search (entry registers, entry stack pointer, region sizes).
    pub fn expand(template: &AnyState, c: &Compact) -> AnyState {
        let mut st = template.clone();
        {
            let mem = st.mem_mut();
            let filler = *mem.heap.last().expect("heap region");
            let n = c.heap.len();
            mem.heap[..n].copy_from_slice(&c.heap);
            mem.heap[n..].fill(filler);
            mem.heap_high_water = c.high_water;
            for (i, w) in &c.stack_sparse {
                mem.stack[*i as usize] = *w;
            }
            for i in &c.stack_scrubbed {
                mem.stack[*i as usize] = SCRUBBED;
            }
        }
        match &mut st {
            AnyState::X86(s) => s.regs.copy_from_slice(&c.regs),
            AnyState::A64(s) => s.regs.copy_from_slice(&c.regs),
            AnyState::Rv(s) => s.regs.copy_from_slice(&c.regs),
        }
        st.clear_flags();
        st
    }
}
