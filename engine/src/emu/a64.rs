//! AArch64 emulator for the text printed by `axcut2aarch64` (subset the backend can emit).
use super::*;
use std::collections::HashMap;

pub const SP: usize = 31;
pub const XZR: usize = 32;
pub const LR: usize = 30;

pub fn reg_index(name: &str) -> Option<usize> {
    match name {
        "SP" => Some(SP),
        "XZR" => Some(XZR),
        _ => {
            let n: usize = name.strip_prefix('X')?.parse().ok()?;
            if n <= 30 { Some(n) } else { None }
        }
    }
}
pub fn reg_name(r: usize) -> String {
    match r {
        SP => "SP".into(),
        XZR => "XZR".into(),
        n => format!("X{n}"),
    }
}

#[derive(Debug, Clone, Copy, PartialEq)]
pub enum Cond {
    Eq,
    Ne,
    Lt,
    Le,
    Gt,
    Ge,
}

#[derive(Debug, Clone, PartialEq)]
pub enum Insn {
    Add(usize, usize, usize),
    AddI(usize, usize, i64),
    Sub(usize, usize, usize),
    SubI(usize, usize, i64),
    Mul(usize, usize, usize),
    Sdiv(usize, usize, usize),
    Msub(usize, usize, usize, usize),
    B(String),
    Br(usize),
    Bl(String),
    Adr(usize, String),
    Mov(usize, usize),
    Movz(usize, i64, i64),
    Movn(usize, i64, i64),
    Movk(usize, i64, i64),
    Ldr(usize, usize, i64),
    Str(usize, usize, i64),
    LdpPost(usize, usize, usize, i64),
    StpPre(usize, usize, usize, i64),
    Cmp(usize, usize),
    CmpI(usize, i64),
    Bcc(Cond, String),
    Ret,
    Marker(Marker),
}

#[derive(Debug, Clone, Default)]
pub struct Program {
    pub insns: Vec<Insn>,
    pub text: Vec<String>,
    pub labels: HashMap<String, usize>,
    pub dup_labels: Vec<String>,
    pub globals: Vec<String>,
}

fn reg(s: &str) -> Result<usize, String> {
    reg_index(s.trim()).ok_or_else(|| format!("bad register `{s}`"))
}
fn imm(s: &str) -> Result<i64, String> {
    s.trim().trim_start_matches('#').parse::<i64>().map_err(|_| format!("bad immediate `{s}`"))
}

impl Program {
    pub fn new() -> Program {
        Program::default()
    }
    pub fn parse(text: &str) -> Result<Program, String> {
        let mut p = Program::new();
        p.append(text)?;
        Ok(p)
    }
    pub fn addr_of(&self, idx: usize) -> u64 {
        CODE_BASE + 4 * idx as u64
    }
    pub fn index_of(&self, addr: u64) -> Option<usize> {
        if addr >= CODE_BASE && (addr - CODE_BASE) % 4 == 0 {
            let i = ((addr - CODE_BASE) / 4) as usize;
            if i < self.insns.len() { Some(i) } else { None }
        } else {
            None
        }
    }
    fn push(&mut self, i: Insn, line: &str) {
        self.insns.push(i);
        self.text.push(line.trim().to_string());
    }
    pub fn append(&mut self, text: &str) -> Result<(), String> {
        for raw in text.lines() {
            let line = raw.trim();
            if line.is_empty() {
                continue;
            }
            if let Some(c) = line.strip_prefix("//") {
                if let Some(m) = parse_marker(c) {
                    // markers occupy no code space: they are attached as zero-size pseudo
                    // instructions, so we keep them out of the address computation by
                    // recording them on the *next* instruction index
                    self.push(Insn::Marker(m), line);
                }
                continue;
            }
            if line == ".text" {
                continue;
            }
            if let Some(l) = line.strip_prefix(".global ") {
                self.globals.push(l.trim().to_string());
                continue;
            }
            if let Some(l) = line.strip_suffix(':') {
                let idx = self.insns.len();
                label_map_insert(&mut self.labels, &mut self.dup_labels, l.trim(), idx);
                continue;
            }
            let (mn, rest) = match line.split_once(char::is_whitespace) {
                Some((m, r)) => (m, r.trim()),
                None => (line, ""),
            };
            // memory operands: "[ SP, -16 ]!" / "[ X0, 56 ]" / "[ SP ], 16"
            let cleaned = rest.replace("[ ", "[").replace(" ]", "]");
            let ops: Vec<String> = split_ops(&cleaned);
            let o = |i: usize| -> Result<&str, String> {
                ops.get(i).map(|s| s.as_str()).ok_or_else(|| format!("missing operand in `{line}`"))
            };
            let insn = match mn {
                "ADD" | "SUB" => {
                    let d = reg(o(0)?)?;
                    let n = reg(o(1)?)?;
                    let third = o(2)?;
                    match reg_index(third.trim()) {
                        Some(m) => {
                            if mn == "ADD" { Insn::Add(d, n, m) } else { Insn::Sub(d, n, m) }
                        }
                        None => {
                            let i = imm(third)?;
                            if mn == "ADD" { Insn::AddI(d, n, i) } else { Insn::SubI(d, n, i) }
                        }
                    }
                }
                "MUL" => Insn::Mul(reg(o(0)?)?, reg(o(1)?)?, reg(o(2)?)?),
                "SDIV" => Insn::Sdiv(reg(o(0)?)?, reg(o(1)?)?, reg(o(2)?)?),
                "MSUB" => Insn::Msub(reg(o(0)?)?, reg(o(1)?)?, reg(o(2)?)?, reg(o(3)?)?),
                "B" => Insn::B(rest.to_string()),
                "BR" => Insn::Br(reg(rest)?),
                "BL" => Insn::Bl(rest.to_string()),
                "ADR" => Insn::Adr(reg(o(0)?)?, o(1)?.trim().to_string()),
                "MOV" => Insn::Mov(reg(o(0)?)?, reg(o(1)?)?),
                "MOVZ" | "MOVN" | "MOVK" => {
                    let d = reg(o(0)?)?;
                    let i = imm(o(1)?)?;
                    let sh = o(2)?.trim().strip_prefix("LSL").ok_or_else(|| format!("expected LSL in `{line}`"))?;
                    let sh = imm(sh)?;
                    match mn {
                        "MOVZ" => Insn::Movz(d, i, sh),
                        "MOVN" => Insn::Movn(d, i, sh),
                        _ => Insn::Movk(d, i, sh),
                    }
                }
                "LDR" | "STR" => {
                    let t = reg(o(0)?)?;
                    let (b, off, mode) = parse_mem(&ops[1..], line)?;
                    if mode != 0 {
                        return Err(format!("unmodelled addressing mode in `{line}`"));
                    }
                    if mn == "LDR" { Insn::Ldr(t, b, off) } else { Insn::Str(t, b, off) }
                }
                "LDP" | "STP" => {
                    let t1 = reg(o(0)?)?;
                    let t2 = reg(o(1)?)?;
                    let (b, off, mode) = parse_mem(&ops[2..], line)?;
                    match (mn, mode) {
                        ("LDP", 2) => Insn::LdpPost(t1, t2, b, off),
                        ("STP", 1) => Insn::StpPre(t1, t2, b, off),
                        _ => return Err(format!("unmodelled pair addressing mode in `{line}`")),
                    }
                }
                "CMP" => {
                    let n = reg(o(0)?)?;
                    match reg_index(o(1)?.trim()) {
                        Some(m) => Insn::Cmp(n, m),
                        None => Insn::CmpI(n, imm(o(1)?)?),
                    }
                }
                "BEQ" => Insn::Bcc(Cond::Eq, rest.to_string()),
                "BNE" => Insn::Bcc(Cond::Ne, rest.to_string()),
                "BLT" => Insn::Bcc(Cond::Lt, rest.to_string()),
                "BLE" => Insn::Bcc(Cond::Le, rest.to_string()),
                "BGT" => Insn::Bcc(Cond::Gt, rest.to_string()),
                "BGE" => Insn::Bcc(Cond::Ge, rest.to_string()),
                "RET" => Insn::Ret,
                _ => return Err(format!("unmodelled aarch64 line `{line}`")),
            };
            self.push(insn, line);
        }
        Ok(())
    }
}

/// splits on commas that are not inside brackets
fn split_ops(s: &str) -> Vec<String> {
    let mut out = Vec::new();
    let mut depth = 0;
    let mut cur = String::new();
    for ch in s.chars() {
        match ch {
            '[' => {
                depth += 1;
                cur.push(ch);
            }
            ']' => {
                depth -= 1;
                cur.push(ch);
            }
            ',' if depth == 0 => {
                out.push(cur.trim().to_string());
                cur.clear();
            }
            _ => cur.push(ch),
        }
    }
    if !cur.trim().is_empty() {
        out.push(cur.trim().to_string());
    }
    out
}

/// returns (base, offset, mode) with mode 0 = offset, 1 = pre-index, 2 = post-index
fn parse_mem(ops: &[String], line: &str) -> Result<(usize, i64, u8), String> {
    let first = ops.first().ok_or_else(|| format!("missing memory operand in `{line}`"))?;
    let (inner, pre) = if let Some(x) = first.strip_suffix("]!") {
        (x, true)
    } else if let Some(x) = first.strip_suffix(']') {
        (x, false)
    } else {
        return Err(format!("bad memory operand in `{line}`"));
    };
    let inner = inner.strip_prefix('[').ok_or_else(|| format!("bad memory operand in `{line}`"))?;
    let parts: Vec<&str> = inner.split(',').map(|x| x.trim()).collect();
    let base = reg(parts[0])?;
    let off = if parts.len() > 1 { imm(parts[1])? } else { 0 };
    if pre {
        Ok((base, off, 1))
    } else if ops.len() > 1 {
        Ok((base, imm(&ops[1])?, 2))
    } else {
        Ok((base, off, 0))
    }
}

#[derive(Debug, Clone, Copy, PartialEq, Eq, Hash)]
pub struct Flags {
    pub z: bool,
    pub n: bool,
    pub v: bool,
    pub d: bool,
}

#[derive(Debug, Clone, PartialEq, Eq, Hash)]
pub struct State {
    /// X0..X30, then SP at index 31
    pub regs: [Word; 32],
    pub flags: Flags,
    pub mem: Mem,
    pub entry_sp: u64,
    pub entry_regs: [Word; 32],
}

pub const CALLEE_SAVED: [usize; 11] = [19, 20, 21, 22, 23, 24, 25, 26, 27, 28, 29];

impl State {
    pub fn at_entry(heap_words: usize, args: &[i64]) -> State {
        let mut regs = [Word::undef(0); 32];
        for (i, r) in regs.iter_mut().enumerate() {
            *r = Word {
                v: 0x0bad_0000_0000 + (i as i64) * 0x1111,
                d: CALLEE_SAVED.contains(&i),
            };
        }
        let entry_sp = STACK_TOP - 64;
        regs[SP] = Word::def(entry_sp as i64);
        regs[LR] = Word::def(RET_SENTINEL as i64);
        regs[0] = Word::def(HEAP_BASE as i64);
        for (i, a) in args.iter().enumerate() {
            regs[i + 1] = Word::def(*a);
        }
        State {
            regs,
            flags: Flags { z: false, n: false, v: false, d: false },
            mem: Mem::new(heap_words),
            entry_sp,
            entry_regs: regs,
        }
    }
}

pub struct A64Cpu<'a> {
    pub st: &'a State,
    pub info: &'a ArchInfo,
}
impl Cpu for A64Cpu<'_> {
    fn info(&self) -> &ArchInfo {
        self.info
    }
    fn reg(&self, r: usize) -> Word {
        if r == XZR { Word::def(0) } else { self.st.regs[r] }
    }
    fn sp(&self) -> u64 {
        self.st.regs[SP].v as u64
    }
    fn entry_sp(&self) -> u64 {
        self.st.entry_sp
    }
    fn memory(&self) -> &Mem {
        &self.st.mem
    }
}

pub struct Emu<'a> {
    pub prog: &'a Program,
    pub info: &'a ArchInfo,
    pub limit: u64,
}

fn rd(st: &State, r: usize) -> Word {
    if r == XZR { Word::def(0) } else { st.regs[r] }
}
fn wr(st: &mut State, r: usize, w: Word) {
    if r != XZR {
        st.regs[r] = w;
    }
}

impl Emu<'_> {
    fn mem_addr(&self, st: &State, base: usize, off: i64, what: &str) -> Result<u64, Fault> {
        let b = rd(st, base);
        if !b.d {
            return Err(Fault::Undefined(format!("memory address uses undefined {} in `{what}`", reg_name(base))));
        }
        if base == SP && (b.v as u64) % 16 != 0 {
            return Err(Fault::Misaligned(format!("SP = {:#x} not 16-byte aligned at `{what}`", b.v)));
        }
        Ok(b.v.wrapping_add(off) as u64)
    }
    fn goto_label(&self, l: &str) -> Result<usize, Stop> {
        match self.prog.labels.get(l) {
            Some(i) => Ok(*i),
            None => Err(Stop::External(l.to_string())),
        }
    }

    pub fn run(&self, st: &mut State, mut pc: usize, mon: &mut dyn Monitor) -> RunResult {
        let mut prints = Vec::new();
        let mut stats = RunStats::default();
        let prog = self.prog;
        let stop = 'outer: loop {
            if pc >= prog.insns.len() {
                break Stop::Fault(Fault::BadJump("fell off the end of the code".into()));
            }
            stats.insns += 1;
            if stats.insns > self.limit {
                break Stop::Fault(Fault::InsnLimit);
            }
            let what = &prog.text[pc];
            macro_rules! tri {
                ($e:expr) => {
                    match $e {
                        Ok(v) => v,
                        Err(f) => break 'outer Stop::Fault(f),
                    }
                };
            }
            let (sp, lim) = (st.regs[SP].v as u64, st.entry_sp);
            match &prog.insns[pc] {
                Insn::Marker(m) => {
                    stats.boundaries += 1;
                    let cpu = A64Cpu { st, info: self.info };
                    if let Err(e) = mon.boundary(&cpu, m) {
                        break Stop::Fault(Fault::Monitor(e));
                    }
                    pc += 1;
                }
                Insn::Add(d, n, m) => {
                    let (a, b) = (rd(st, *n), rd(st, *m));
                    wr(st, *d, Word { v: a.v.wrapping_add(b.v), d: a.d && b.d });
                    pc += 1;
                }
                Insn::Sub(d, n, m) => {
                    let (a, b) = (rd(st, *n), rd(st, *m));
                    wr(st, *d, Word { v: a.v.wrapping_sub(b.v), d: a.d && b.d });
                    pc += 1;
                }
                Insn::AddI(d, n, i) | Insn::SubI(d, n, i) => {
                    let mag = i.unsigned_abs();
                    if !(mag < 4096 || (mag % 4096 == 0 && mag < (4096 << 12))) {
                        break Stop::Fault(Fault::Encoding(format!("immediate {i} does not fit ADD/SUB imm12 in `{what}`")));
                    }
                    let a = rd(st, *n);
                    let v = if matches!(&prog.insns[pc], Insn::AddI(..)) { a.v.wrapping_add(*i) } else { a.v.wrapping_sub(*i) };
                    wr(st, *d, Word { v, d: a.d });
                    pc += 1;
                }
                Insn::Mul(d, n, m) => {
                    let (a, b) = (rd(st, *n), rd(st, *m));
                    wr(st, *d, Word { v: a.v.wrapping_mul(b.v), d: a.d && b.d });
                    pc += 1;
                }
                Insn::Sdiv(d, n, m) => {
                    let (a, b) = (rd(st, *n), rd(st, *m));
                    // AArch64 does not trap: x/0 = 0, MIN/-1 = MIN
                    let v = if b.v == 0 { 0 } else { a.v.wrapping_div(b.v) };
                    wr(st, *d, Word { v, d: a.d && b.d });
                    pc += 1;
                }
                Insn::Msub(d, n, m, a) => {
                    let (x, y, z) = (rd(st, *n), rd(st, *m), rd(st, *a));
                    wr(st, *d, Word { v: z.v.wrapping_sub(x.v.wrapping_mul(y.v)), d: x.d && y.d && z.d });
                    pc += 1;
                }
                Insn::B(l) => match self.goto_label(l) {
                    Ok(i) => pc = i,
                    Err(s) => break s,
                },
                Insn::Br(r) => {
                    let t = rd(st, *r);
                    if !t.d {
                        break Stop::Fault(Fault::Undefined(format!("BR through undefined {}", reg_name(*r))));
                    }
                    match prog.index_of(t.v as u64) {
                        Some(i) => pc = i,
                        None => break Stop::Fault(Fault::BadJump(format!("BR to {:#x}: not an instruction address (`{what}`)", t.v))),
                    }
                }
                Insn::Bl(f) => {
                    let newline = match f.as_str() {
                        "print_i64" => false,
                        "println_i64" => true,
                        _ => break Stop::Fault(Fault::Unmodelled(format!("BL to unknown external {f}"))),
                    };
                    if !st.regs[SP].d || sp % 16 != 0 {
                        break Stop::Fault(Fault::Misaligned(format!("SP = {sp:#x} at `BL {f}` is not 16-byte aligned")));
                    }
                    if sp > st.entry_sp || sp < st.mem.stack_base() + 64 {
                        break Stop::Fault(Fault::OutOfBounds { addr: sp, what: "stack pointer out of range at call".into() });
                    }
                    let a = st.regs[0];
                    if !a.d {
                        break Stop::Fault(Fault::Undefined(format!("argument of {f} is undefined")));
                    }
                    prints.push((newline, a.v));
                    for r in 0..=18 {
                        st.regs[r] = Word::undef(0x0c10_bbe2_0000 + r as i64);
                    }
                    // BL overwrites the link register; what it holds after the callee returns is
                    // unspecified (LR is caller-saved): depending on it is a fault
                    st.regs[LR] = Word::undef(prog.addr_of(pc + 1) as i64);
                    st.flags.d = false;
                    st.mem.clobber_below(sp);
                    pc += 1;
                }
                Insn::Adr(d, l) => {
                    let Some(i) = prog.labels.get(l) else {
                        break Stop::Fault(Fault::BadJump(format!("ADR of undefined label {l}")));
                    };
                    // markers are zero-size in reality; the address of a label is the address of
                    // the first real instruction at or after it
                    let a = prog.addr_of(*i);
                    wr(st, *d, Word::def(a as i64));
                    pc += 1;
                }
                Insn::Mov(d, s) => {
                    let w = rd(st, *s);
                    wr(st, *d, w);
                    pc += 1;
                }
                Insn::Movz(d, i, sh) | Insn::Movn(d, i, sh) | Insn::Movk(d, i, sh) => {
                    if !(0..=0xFFFF).contains(i) || ![0, 16, 32, 48].contains(sh) {
                        break Stop::Fault(Fault::Encoding(format!("operand out of range in `{what}`")));
                    }
                    let v = match &prog.insns[pc] {
                        Insn::Movz(..) => Word::def(i << sh),
                        Insn::Movn(..) => Word::def(!(i << sh)),
                        _ => {
                            let old = rd(st, *d);
                            Word { v: (old.v & !(0xFFFFi64 << sh)) | (i << sh), d: old.d }
                        }
                    };
                    wr(st, *d, v);
                    pc += 1;
                }
                Insn::Ldr(t, b, off) => {
                    let a = tri!(self.mem_addr(st, *b, *off, what));
                    let w = tri!(st.mem.load(a, sp, lim));
                    wr(st, *t, w);
                    pc += 1;
                }
                Insn::Str(t, b, off) => {
                    let a = tri!(self.mem_addr(st, *b, *off, what));
                    let w = rd(st, *t);
                    tri!(st.mem.store(a, w, sp, lim));
                    pc += 1;
                }
                Insn::StpPre(t1, t2, b, off) => {
                    let base = rd(st, *b);
                    if !base.d {
                        break Stop::Fault(Fault::Undefined(format!("undefined base in `{what}`")));
                    }
                    let a = base.v.wrapping_add(*off) as u64;
                    if *b == SP && a % 16 != 0 {
                        break Stop::Fault(Fault::Misaligned(format!("SP = {a:#x} not aligned at `{what}`")));
                    }
                    let nsp = if *b == SP { a } else { sp };
                    let (w1, w2) = (rd(st, *t1), rd(st, *t2));
                    wr(st, *b, Word::def(a as i64));
                    tri!(st.mem.store(a, w1, nsp, lim));
                    tri!(st.mem.store(a + 8, w2, nsp, lim));
                    pc += 1;
                }
                Insn::LdpPost(t1, t2, b, off) => {
                    let a = tri!(self.mem_addr(st, *b, 0, what));
                    let w1 = tri!(st.mem.load(a, sp, lim));
                    let w2 = tri!(st.mem.load(a + 8, sp, lim));
                    wr(st, *t1, w1);
                    wr(st, *t2, w2);
                    wr(st, *b, Word::def((a as i64).wrapping_add(*off)));
                    pc += 1;
                }
                Insn::Cmp(n, m) => {
                    let (a, b) = (rd(st, *n), rd(st, *m));
                    let (r, v) = a.v.overflowing_sub(b.v);
                    st.flags = Flags { z: r == 0, n: r < 0, v, d: a.d && b.d };
                    pc += 1;
                }
                Insn::CmpI(n, i) => {
                    if i.unsigned_abs() >= 4096 {
                        break Stop::Fault(Fault::Encoding(format!("immediate {i} does not fit CMP imm12 in `{what}`")));
                    }
                    let a = rd(st, *n);
                    let (r, v) = a.v.overflowing_sub(*i);
                    st.flags = Flags { z: r == 0, n: r < 0, v, d: a.d };
                    pc += 1;
                }
                Insn::Bcc(c, l) => {
                    if !st.flags.d {
                        break Stop::Fault(Fault::Undefined(format!("conditional branch on undefined flags (`{what}`)")));
                    }
                    let f = st.flags;
                    let taken = match c {
                        Cond::Eq => f.z,
                        Cond::Ne => !f.z,
                        Cond::Lt => f.n != f.v,
                        Cond::Le => f.z || f.n != f.v,
                        Cond::Gt => !f.z && f.n == f.v,
                        Cond::Ge => f.n == f.v,
                    };
                    if taken {
                        match self.goto_label(l) {
                            Ok(i) => pc = i,
                            Err(s) => break s,
                        }
                    } else {
                        pc += 1;
                    }
                }
                Insn::Ret => {
                    let lr = st.regs[LR];
                    if !lr.d || lr.v as u64 != RET_SENTINEL {
                        break Stop::Fault(Fault::CallConv(format!(
                            "RET with X30 = {:#x} (defined: {}), not the caller's return address",
                            lr.v, lr.d
                        )));
                    }
                    if sp != st.entry_sp {
                        break Stop::Fault(Fault::CallConv(format!("RET with SP = {sp:#x}, entry SP was {:#x}", st.entry_sp)));
                    }
                    for r in CALLEE_SAVED {
                        let now = st.regs[r];
                        let then = st.entry_regs[r];
                        if !now.d || now.v != then.v {
                            break 'outer Stop::Fault(Fault::CallConv(format!(
                                "callee-saved X{r} not restored: {:#x} (defined: {}) instead of {:#x}",
                                now.v, now.d, then.v
                            )));
                        }
                    }
                    let res = st.regs[0];
                    if !res.d {
                        break Stop::Fault(Fault::Undefined("result register X0 undefined at RET".into()));
                    }
                    break Stop::Return(res.v);
                }
            }
        };
        let lo = pc.saturating_sub(6);
        let hi = (pc + 1).min(prog.text.len());
        RunResult { stop, prints, stats, tail: prog.text[lo..hi].to_vec() }
    }
}
