//! Text-level emulators for the three backends' printed assembly, with a common memory model,
//! definedness (taint) tracking and an external-call model. See DESIGN §3.3.
pub mod a64;
pub mod any;
pub mod rv64;
pub mod x86;

use crate::pipeline::Arch;
use std::collections::HashMap;

pub const HEAP_BASE: u64 = 0x1000_0000;
pub const STACK_TOP: u64 = 0x7fff_0000;
pub const CODE_BASE: u64 = 0x4000_0000;
pub const RET_SENTINEL: u64 = 0x00de_ad00_0000;
pub const STACK_WORDS: usize = 1024;

#[derive(Debug, Clone, Copy, PartialEq, Eq, Hash)]
pub struct Word {
    pub v: i64,
    pub d: bool,
}
impl Word {
    pub const fn def(v: i64) -> Word {
        Word { v, d: true }
    }
    pub const fn undef(v: i64) -> Word {
        Word { v, d: false }
    }
}

#[derive(Debug, Clone, PartialEq, Eq)]
pub enum Fault {
    /// access outside heap / live stack (C09: "touches no memory outside ...")
    OutOfBounds { addr: u64, what: String },
    /// an undefined value reached a sink (branch, address, jump target, print argument, result)
    Undefined(String),
    /// stack pointer alignment rule broken
    Misaligned(String),
    /// indirect jump to an address that is not the start of an instruction / unknown label
    BadJump(String),
    /// hardware trap (division by zero / overflowing division)
    DivTrap,
    /// the heap region configured for this run is exhausted (not a violation: capacity)
    HeapExhausted,
    /// instruction budget exhausted
    InsnLimit,
    /// an operand that the target assembler cannot encode in the printed instruction form
    Encoding(String),
    /// calling-convention breach detected at return
    CallConv(String),
    /// the emulator met something it does not model: a machinery error, never a verdict
    Unmodelled(String),
    /// a monitor attached to the run reported a violation
    Monitor(String),
}

#[derive(Debug, Clone, PartialEq, Eq)]
pub enum Stop {
    /// returned to the caller of the entry routine with this result
    Return(i64),
    /// jumped to a label not defined in the code (used as the exit of fragments)
    External(String),
    /// RV64: reached the trailing `cleanup` label
    Fault(Fault),
}

#[derive(Debug, Clone, PartialEq)]
pub struct MarkerVar {
    pub name: String,
    pub id: usize,
    pub chi: Chi,
    pub ty: String,
}
#[derive(Debug, Clone, Copy, PartialEq, Eq, Hash, PartialOrd, Ord)]
pub enum Chi {
    Prd,
    Cns,
    Ext,
}
#[derive(Debug, Clone, PartialEq)]
pub struct Marker {
    pub kind: String,
    pub env: Vec<MarkerVar>,
}

pub fn parse_marker(comment: &str) -> Option<Marker> {
    let rest = comment.trim().strip_prefix("@@V ")?;
    let (kind, envs) = rest.split_once('|')?;
    let mut env = Vec::new();
    for item in envs.split(';') {
        let item = item.trim();
        if item.is_empty() {
            continue;
        }
        // name#id:chi:type
        let (nameid, rest) = item.split_once(':')?;
        let (chi, ty) = rest.split_once(':')?;
        let (name, id) = nameid.rsplit_once('#')?;
        env.push(MarkerVar {
            name: name.to_string(),
            id: id.parse().ok()?,
            chi: match chi {
                "prd" => Chi::Prd,
                "cns" => Chi::Cns,
                "ext" => Chi::Ext,
                _ => return None,
            },
            ty: ty.trim().to_string(),
        });
    }
    Some(Marker {
        kind: kind.trim().to_string(),
        env,
    })
}

/// Flat memory: a zero-filled heap region and a stack region.
#[derive(Debug, Clone, PartialEq, Eq, Hash)]
pub struct Mem {
    pub heap: Vec<Word>,
    pub stack: Vec<Word>,
    /// highest heap word index ever written (for C10), +1; 0 if none
    pub heap_high_water: usize,
}

impl Mem {
    pub fn new(heap_words: usize) -> Mem {
        Mem::with_stack(heap_words, STACK_WORDS)
    }
    pub fn with_stack(heap_words: usize, stack_words: usize) -> Mem {
        Mem {
            heap: vec![Word::def(0); heap_words],
            stack: vec![Word::undef(0x5555_5555_5555_5555u64 as i64); stack_words],
            heap_high_water: 0,
        }
    }
    pub fn heap_end(&self) -> u64 {
        HEAP_BASE + 8 * self.heap.len() as u64
    }
    pub fn stack_base(&self) -> u64 {
        STACK_TOP - 8 * self.stack.len() as u64
    }
    pub fn in_heap(&self, addr: u64) -> bool {
        addr >= HEAP_BASE && addr < self.heap_end()
    }
    /// `sp`: current stack pointer, `limit`: entry stack pointer (exclusive upper bound of what
    /// the routine owns).
    pub fn load(&self, addr: u64, sp: u64, limit: u64) -> Result<Word, Fault> {
        if addr % 8 != 0 {
            return Err(Fault::OutOfBounds {
                addr,
                what: "unaligned 8-byte load".into(),
            });
        }
        if self.in_heap(addr) {
            Ok(self.heap[((addr - HEAP_BASE) / 8) as usize])
        } else if addr >= self.heap_end() && addr < self.heap_end() + (1 << 20) {
            Err(Fault::HeapExhausted)
        } else if addr >= sp && addr < limit && addr >= self.stack_base() {
            Ok(self.stack[((addr - self.stack_base()) / 8) as usize])
        } else {
            Err(Fault::OutOfBounds {
                addr,
                what: format!("load outside heap and live stack (sp={sp:#x}, entry sp={limit:#x})"),
            })
        }
    }
    pub fn store(&mut self, addr: u64, w: Word, sp: u64, limit: u64) -> Result<(), Fault> {
        if addr % 8 != 0 {
            return Err(Fault::OutOfBounds {
                addr,
                what: "unaligned 8-byte store".into(),
            });
        }
        if self.in_heap(addr) {
            let i = ((addr - HEAP_BASE) / 8) as usize;
            self.heap[i] = w;
            if i + 1 > self.heap_high_water {
                self.heap_high_water = i + 1;
            }
            Ok(())
        } else if addr >= self.heap_end() && addr < self.heap_end() + (1 << 20) {
            Err(Fault::HeapExhausted)
        } else if addr >= sp && addr < limit && addr >= self.stack_base() {
            let i = ((addr - self.stack_base()) / 8) as usize;
            self.stack[i] = w;
            Ok(())
        } else {
            Err(Fault::OutOfBounds {
                addr,
                what: format!("store outside heap and live stack (sp={sp:#x}, entry sp={limit:#x})"),
            })
        }
    }
    /// Everything below `sp` becomes undefined (an external call may have clobbered it).
    pub fn clobber_below(&mut self, sp: u64) {
        let base = self.stack_base();
        if sp <= base {
            return;
        }
        let n = (((sp - base) / 8) as usize).min(self.stack.len());
        for w in &mut self.stack[..n] {
            *w = Word::undef(0x6666_6666_6666_6666u64 as i64);
        }
    }
    pub fn heap_word(&self, addr: u64) -> Option<Word> {
        if self.in_heap(addr) && addr % 8 == 0 {
            Some(self.heap[((addr - HEAP_BASE) / 8) as usize])
        } else {
            None
        }
    }
}

/// Location of a temporary as the backend's own `Utils` assigns it.
#[derive(Debug, Clone, Copy, PartialEq, Eq, Hash)]
pub enum Loc {
    /// hardware register, emulator numbering
    Reg(usize),
    /// spill slot: byte offset from the stack pointer
    Spill(i64),
}

/// Per-architecture facts taken from the backend crates (never copied constants).
#[derive(Debug, Clone)]
pub struct ArchInfo {
    pub arch: Arch,
    /// location of temporary position p (2*var + {0,1}); panics caught => None beyond capacity
    pub temps: Vec<Loc>,
    pub heap_reg: usize,
    pub free_reg: usize,
    pub fields_per_block: usize,
    pub block_words: usize,
    pub refcount_off: i64,
    pub next_off: i64,
    /// field_offset(Fst, i), field_offset(Snd, i)
    pub field_off: Vec<(i64, i64)>,
    pub jump_length_1: i64,
    /// scratch registers of the backend (dead at every statement boundary)
    pub scratch_regs: Vec<usize>,
    /// byte offset (from SP) of the scratch spill slot, if the backend has one
    pub scratch_spill: Option<i64>,
}

/// A uniform, read-only view of a stopped CPU for the monitors.
pub trait Cpu {
    fn info(&self) -> &ArchInfo;
    fn reg(&self, r: usize) -> Word;
    fn sp(&self) -> u64;
    fn entry_sp(&self) -> u64;
    fn memory(&self) -> &Mem;
    fn read_loc(&self, loc: Loc) -> Word {
        match loc {
            Loc::Reg(r) => self.reg(r),
            Loc::Spill(off) => {
                let addr = (self.sp() as i64 + off) as u64;
                self.memory()
                    .load(addr, self.sp(), self.entry_sp())
                    .unwrap_or(Word::undef(0))
            }
        }
    }
}

/// Called by the emulators at every `@@V` marker (statement boundary) and at print calls.
pub trait Monitor {
    fn boundary(&mut self, _cpu: &dyn Cpu, _marker: &Marker) -> Result<(), String> {
        Ok(())
    }
}
pub struct NoMonitor;
impl Monitor for NoMonitor {}

#[derive(Debug, Clone, Default)]
pub struct RunStats {
    pub insns: u64,
    pub boundaries: u64,
}

#[derive(Debug, Clone)]
pub struct RunResult {
    pub stop: Stop,
    pub prints: Vec<(bool, i64)>,
    pub stats: RunStats,
    /// (label or text of the last few instructions) for diagnostics
    pub tail: Vec<String>,
}

pub fn label_map_insert(map: &mut HashMap<String, usize>, dups: &mut Vec<String>, name: &str, idx: usize) {
    if map.insert(name.to_string(), idx).is_some() {
        dups.push(name.to_string());
    }
}
