//! RV64 emulator for the pseudo-assembly printed by `axcut2rv64` (`LW`/`SW` are 64-bit accesses,
//! as property C08 states). There is no prologue: the harness initialises the heap and free
//! registers and the parameters, and execution stops at the trailing `cleanup` label.
use super::*;
use std::collections::HashMap;

pub fn reg_index(name: &str) -> Option<usize> {
    let n: usize = name.strip_prefix('X')?.parse().ok()?;
    if n < 32 { Some(n) } else { None }
}

#[derive(Debug, Clone, Copy, PartialEq)]
pub enum Cond {
    Eq,
    Ne,
    Lt,
    Le,
    Gt,
    Ge,
}

#[derive(Debug, Clone, PartialEq)]
pub enum Insn {
    Add(usize, usize, usize),
    AddI(usize, usize, i64),
    Sub(usize, usize, usize),
    Mul(usize, usize, usize),
    Div(usize, usize, usize),
    Rem(usize, usize, usize),
    Jal(usize, String),
    Jalr(usize, usize, i64),
    La(usize, String),
    Li(usize, i64),
    Mv(usize, usize),
    Lw(usize, i64, usize),
    Sw(usize, i64, usize),
    Bcc(Cond, usize, usize, String),
    Marker(Marker),
}

#[derive(Debug, Clone, Default)]
pub struct Program {
    pub insns: Vec<Insn>,
    pub text: Vec<String>,
    pub labels: HashMap<String, usize>,
    pub dup_labels: Vec<String>,
}

fn reg(s: &str) -> Result<usize, String> {
    reg_index(s.trim()).ok_or_else(|| format!("bad register `{s}`"))
}
fn imm(s: &str) -> Result<i64, String> {
    s.trim().parse::<i64>().map_err(|_| format!("bad immediate `{s}`"))
}

impl Program {
    pub fn new() -> Program {
        Program::default()
    }
    pub fn parse(text: &str) -> Result<Program, String> {
        let mut p = Program::new();
        p.append(text)?;
        Ok(p)
    }
    pub fn addr_of(&self, idx: usize) -> u64 {
        CODE_BASE + 4 * idx as u64
    }
    pub fn index_of(&self, addr: u64) -> Option<usize> {
        if addr >= CODE_BASE && (addr - CODE_BASE) % 4 == 0 {
            let i = ((addr - CODE_BASE) / 4) as usize;
            if i <= self.insns.len() { Some(i) } else { None }
        } else {
            None
        }
    }
    pub fn append(&mut self, text: &str) -> Result<(), String> {
        for raw in text.lines() {
            let mut line = raw.trim();
            if line.is_empty() {
                continue;
            }
            if let Some(c) = line.strip_prefix("//") {
                // `into_rv64_routine` glues the first instruction onto the "// actual code" line
                if let Some(rest) = c.trim().strip_prefix("actual code") {
                    if rest.is_empty() {
                        continue;
                    }
                    line = rest.trim();
                } else {
                    if let Some(m) = parse_marker(c) {
                        self.insns.push(Insn::Marker(m));
                        self.text.push(line.to_string());
                    }
                    continue;
                }
            }
            if let Some(l) = line.strip_suffix(':') {
                let idx = self.insns.len();
                label_map_insert(&mut self.labels, &mut self.dup_labels, l.trim(), idx);
                continue;
            }
            let toks: Vec<&str> = line.split_whitespace().collect();
            let t = |i: usize| -> Result<&str, String> {
                toks.get(i).copied().ok_or_else(|| format!("missing operand in `{line}`"))
            };
            let insn = match toks[0] {
                "ADD" => {
                    let d = reg(t(1)?)?;
                    let a = reg(t(2)?)?;
                    match reg_index(t(3)?) {
                        Some(b) => Insn::Add(d, a, b),
                        None => Insn::AddI(d, a, imm(t(3)?)?),
                    }
                }
                "SUB" => Insn::Sub(reg(t(1)?)?, reg(t(2)?)?, reg(t(3)?)?),
                "MUL" => Insn::Mul(reg(t(1)?)?, reg(t(2)?)?, reg(t(3)?)?),
                "DIV" => Insn::Div(reg(t(1)?)?, reg(t(2)?)?, reg(t(3)?)?),
                "REM" => Insn::Rem(reg(t(1)?)?, reg(t(2)?)?, reg(t(3)?)?),
                "JAL" => Insn::Jal(reg(t(1)?)?, t(2)?.to_string()),
                "JALR" => Insn::Jalr(reg(t(1)?)?, reg(t(2)?)?, imm(t(3)?)?),
                "LA" => Insn::La(reg(t(1)?)?, t(2)?.to_string()),
                "LI" => Insn::Li(reg(t(1)?)?, imm(t(2)?)?),
                "MV" => Insn::Mv(reg(t(1)?)?, reg(t(2)?)?),
                "LW" => Insn::Lw(reg(t(1)?)?, imm(t(2)?)?, reg(t(3)?)?),
                "SW" => Insn::Sw(reg(t(1)?)?, imm(t(2)?)?, reg(t(3)?)?),
                "BEQ" => Insn::Bcc(Cond::Eq, reg(t(1)?)?, reg(t(2)?)?, t(3)?.to_string()),
                "BNE" => Insn::Bcc(Cond::Ne, reg(t(1)?)?, reg(t(2)?)?, t(3)?.to_string()),
                "BLT" => Insn::Bcc(Cond::Lt, reg(t(1)?)?, reg(t(2)?)?, t(3)?.to_string()),
                "BLE" => Insn::Bcc(Cond::Le, reg(t(1)?)?, reg(t(2)?)?, t(3)?.to_string()),
                "BGT" => Insn::Bcc(Cond::Gt, reg(t(1)?)?, reg(t(2)?)?, t(3)?.to_string()),
                "BGE" => Insn::Bcc(Cond::Ge, reg(t(1)?)?, reg(t(2)?)?, t(3)?.to_string()),
                _ => return Err(format!("unmodelled rv64 line `{line}`")),
            };
            self.insns.push(insn);
            self.text.push(line.to_string());
        }
        Ok(())
    }
}

#[derive(Debug, Clone, PartialEq, Eq, Hash)]
pub struct State {
    pub regs: [Word; 32],
    pub mem: Mem,
}

impl State {
    /// `params` are (register, value) pairs for main's parameters.
    pub fn at_entry(heap_words: usize, info: &ArchInfo, params: &[(usize, i64)]) -> State {
        let mut regs = [Word::undef(0); 32];
        for (i, r) in regs.iter_mut().enumerate() {
            *r = Word::undef(0x0bad_0000_0000 + (i as i64) * 0x1111);
        }
        regs[0] = Word::def(0);
        regs[info.heap_reg] = Word::def(HEAP_BASE as i64);
        regs[info.free_reg] = Word::def(HEAP_BASE as i64 + 8 * info.block_words as i64);
        for (r, v) in params {
            regs[*r] = Word::def(*v);
        }
        State { regs, mem: Mem::new(heap_words) }
    }
}

pub struct RvCpu<'a> {
    pub st: &'a State,
    pub info: &'a ArchInfo,
}
impl Cpu for RvCpu<'_> {
    fn info(&self) -> &ArchInfo {
        self.info
    }
    fn reg(&self, r: usize) -> Word {
        self.st.regs[r]
    }
    fn sp(&self) -> u64 {
        0
    }
    fn entry_sp(&self) -> u64 {
        0
    }
    fn memory(&self) -> &Mem {
        &self.st.mem
    }
}

pub struct Emu<'a> {
    pub prog: &'a Program,
    pub info: &'a ArchInfo,
    pub limit: u64,
}

fn wr(st: &mut State, r: usize, w: Word) {
    if r != 0 {
        st.regs[r] = w;
    }
}
fn fits12(i: i64) -> bool {
    (-2048..=2047).contains(&i)
}

impl Emu<'_> {
    pub fn run(&self, st: &mut State, mut pc: usize, mon: &mut dyn Monitor) -> RunResult {
        let prints = Vec::new();
        let mut stats = RunStats::default();
        let prog = self.prog;
        let stop = 'outer: loop {
            if pc >= prog.insns.len() {
                // the routine ends with the `cleanup:` label: reaching the end through it is the
                // exit point
                if prog.labels.get("cleanup") == Some(&pc) {
                    let r = st.regs[10];
                    if !r.d {
                        break Stop::Fault(Fault::Undefined("result register X10 undefined at exit".into()));
                    }
                    break Stop::Return(r.v);
                }
                break Stop::Fault(Fault::BadJump("fell off the end of the code".into()));
            }
            stats.insns += 1;
            if stats.insns > self.limit {
                break Stop::Fault(Fault::InsnLimit);
            }
            let what = &prog.text[pc];
            macro_rules! tri {
                ($e:expr) => {
                    match $e {
                        Ok(v) => v,
                        Err(f) => break 'outer Stop::Fault(f),
                    }
                };
            }
            macro_rules! goto {
                ($l:expr) => {
                    match prog.labels.get($l) {
                        Some(i) => pc = *i,
                        None => break 'outer Stop::External($l.to_string()),
                    }
                };
            }
            match &prog.insns[pc] {
                Insn::Marker(m) => {
                    stats.boundaries += 1;
                    let cpu = RvCpu { st, info: self.info };
                    if let Err(e) = mon.boundary(&cpu, m) {
                        break Stop::Fault(Fault::Monitor(e));
                    }
                    pc += 1;
                }
                Insn::Add(d, a, b) => {
                    let (x, y) = (st.regs[*a], st.regs[*b]);
                    wr(st, *d, Word { v: x.v.wrapping_add(y.v), d: x.d && y.d });
                    pc += 1;
                }
                Insn::AddI(d, a, i) => {
                    if !fits12(*i) {
                        break Stop::Fault(Fault::Encoding(format!("immediate {i} does not fit imm12 in `{what}`")));
                    }
                    let x = st.regs[*a];
                    wr(st, *d, Word { v: x.v.wrapping_add(*i), d: x.d });
                    pc += 1;
                }
                Insn::Sub(d, a, b) => {
                    let (x, y) = (st.regs[*a], st.regs[*b]);
                    wr(st, *d, Word { v: x.v.wrapping_sub(y.v), d: x.d && y.d });
                    pc += 1;
                }
                Insn::Mul(d, a, b) => {
                    let (x, y) = (st.regs[*a], st.regs[*b]);
                    wr(st, *d, Word { v: x.v.wrapping_mul(y.v), d: x.d && y.d });
                    pc += 1;
                }
                Insn::Div(d, a, b) => {
                    let (x, y) = (st.regs[*a], st.regs[*b]);
                    // RISC-V does not trap: x/0 = -1, MIN/-1 = MIN
                    let v = if y.v == 0 { -1 } else { x.v.wrapping_div(y.v) };
                    wr(st, *d, Word { v, d: x.d && y.d });
                    pc += 1;
                }
                Insn::Rem(d, a, b) => {
                    let (x, y) = (st.regs[*a], st.regs[*b]);
                    let v = if y.v == 0 { x.v } else { x.v.wrapping_rem(y.v) };
                    wr(st, *d, Word { v, d: x.d && y.d });
                    pc += 1;
                }
                Insn::Jal(d, l) => {
                    let ret = prog.addr_of(pc + 1);
                    wr(st, *d, Word::def(ret as i64));
                    goto!(l);
                }
                Insn::Jalr(d, b, i) => {
                    if !fits12(*i) {
                        break Stop::Fault(Fault::Encoding(format!("immediate {i} does not fit imm12 in `{what}`")));
                    }
                    let t = st.regs[*b];
                    if !t.d {
                        break Stop::Fault(Fault::Undefined(format!("JALR through undefined X{b}")));
                    }
                    let ret = prog.addr_of(pc + 1);
                    let target = t.v.wrapping_add(*i) as u64;
                    wr(st, *d, Word::def(ret as i64));
                    match prog.index_of(target) {
                        Some(i) => pc = i,
                        None => break Stop::Fault(Fault::BadJump(format!("JALR to {target:#x}: not an instruction address (`{what}`)"))),
                    }
                }
                Insn::La(d, l) => {
                    let Some(i) = prog.labels.get(l) else {
                        break Stop::Fault(Fault::BadJump(format!("LA of undefined label {l}")));
                    };
                    wr(st, *d, Word::def(prog.addr_of(*i) as i64));
                    pc += 1;
                }
                Insn::Li(d, i) => {
                    wr(st, *d, Word::def(*i));
                    pc += 1;
                }
                Insn::Mv(d, s) => {
                    let w = st.regs[*s];
                    wr(st, *d, w);
                    pc += 1;
                }
                Insn::Lw(d, off, b) => {
                    if !fits12(*off) {
                        break Stop::Fault(Fault::Encoding(format!("offset {off} does not fit imm12 in `{what}`")));
                    }
                    let base = st.regs[*b];
                    if !base.d {
                        break Stop::Fault(Fault::Undefined(format!("memory address uses undefined X{b} in `{what}`")));
                    }
                    let w = tri!(st.mem.load(base.v.wrapping_add(*off) as u64, 0, 0));
                    wr(st, *d, w);
                    pc += 1;
                }
                Insn::Sw(s, off, b) => {
                    if !fits12(*off) {
                        break Stop::Fault(Fault::Encoding(format!("offset {off} does not fit imm12 in `{what}`")));
                    }
                    let base = st.regs[*b];
                    if !base.d {
                        break Stop::Fault(Fault::Undefined(format!("memory address uses undefined X{b} in `{what}`")));
                    }
                    let w = st.regs[*s];
                    tri!(st.mem.store(base.v.wrapping_add(*off) as u64, w, 0, 0));
                    pc += 1;
                }
                Insn::Bcc(c, a, b, l) => {
                    let (x, y) = (st.regs[*a], st.regs[*b]);
                    if !(x.d && y.d) {
                        break Stop::Fault(Fault::Undefined(format!("branch on undefined register (`{what}`)")));
                    }
                    let taken = match c {
                        Cond::Eq => x.v == y.v,
                        Cond::Ne => x.v != y.v,
                        Cond::Lt => x.v < y.v,
                        Cond::Le => x.v <= y.v,
                        Cond::Gt => x.v > y.v,
                        Cond::Ge => x.v >= y.v,
                    };
                    if taken {
                        goto!(l);
                    } else {
                        pc += 1;
                    }
                }
            }
        };
        let lo = pc.saturating_sub(6).min(prog.text.len());
        let hi = (pc + 1).min(prog.text.len());
        RunResult { stop, prints, stats, tail: prog.text[lo..hi].to_vec() }
    }
}
