//! x86-64 emulator for the NASM-syntax text printed by `axcut2x86_64`.
use super::*;
use std::collections::HashMap;

pub const REG_NAMES: [&str; 16] = [
    "rax", "rcx", "rdx", "rbx", "rsp", "rbp", "rsi", "rdi", "r8", "r9", "r10", "r11", "r12", "r13",
    "r14", "r15",
];
pub const RAX: usize = 0;
pub const RCX: usize = 1;
pub const RDX: usize = 2;
pub const RBX: usize = 3;
pub const RSP: usize = 4;
pub const RBP: usize = 5;
pub const RSI: usize = 6;
pub const RDI: usize = 7;
pub const CALLEE_SAVED: [usize; 6] = [RBX, RBP, 12, 13, 14, 15];
pub const CALLER_SAVED: [usize; 9] = [RAX, RCX, RDX, RSI, RDI, 8, 9, 10, 11];
pub const ARG_REGS: [usize; 6] = [RDI, RSI, RDX, RCX, 8, 9];

pub fn reg_index(name: &str) -> Option<usize> {
    REG_NAMES.iter().position(|n| *n == name)
}

#[derive(Debug, Clone, PartialEq)]
pub enum Opnd {
    Reg(usize),
    Imm(i64),
    Mem(usize, i64),
}

#[derive(Debug, Clone, Copy, PartialEq)]
pub enum Alu {
    Add,
    Sub,
    Imul,
    Cmp,
    Mov,
}

#[derive(Debug, Clone, Copy, PartialEq)]
pub enum Cond {
    E,
    Ne,
    L,
    Le,
    G,
    Ge,
}

#[derive(Debug, Clone, PartialEq)]
pub enum Insn {
    Alu(Alu, Opnd, Opnd),
    Idiv(Opnd),
    Cqo,
    JmpReg(usize),
    JmpLabel(String, bool),
    Lea(usize, String),
    Jcc(Cond, String),
    Push(usize),
    Pop(usize),
    Call(String),
    Ret,
    Marker(Marker),
}

#[derive(Debug, Clone, Default)]
pub struct Program {
    pub insns: Vec<Insn>,
    pub text: Vec<String>,
    pub labels: HashMap<String, usize>,
    pub dup_labels: Vec<String>,
    pub addr: Vec<u64>,
    pub by_addr: HashMap<u64, usize>,
    pub next_addr: u64,
    pub externs: Vec<String>,
    pub globals: Vec<String>,
}

fn parse_opnd(s: &str) -> Result<Opnd, String> {
    let s = s.trim();
    let s = s.strip_prefix("qword").map(|x| x.trim()).unwrap_or(s);
    if let Some(inner) = s.strip_prefix('[') {
        let inner = inner.strip_suffix(']').ok_or_else(|| format!("bad memory operand {s}"))?;
        let compact: String = inner.chars().filter(|c| !c.is_whitespace()).collect();
        // base+disp or base
        let (base, disp) = match compact.find('+') {
            Some(p) => (&compact[..p], &compact[p + 1..]),
            None => (compact.as_str(), "0"),
        };
        let b = reg_index(base).ok_or_else(|| format!("bad base register in {s}"))?;
        let d: i64 = disp.parse().map_err(|_| format!("bad displacement in {s}"))?;
        return Ok(Opnd::Mem(b, d));
    }
    if let Some(r) = reg_index(s) {
        return Ok(Opnd::Reg(r));
    }
    s.parse::<i64>().map(Opnd::Imm).map_err(|_| format!("bad operand {s}"))
}

fn split2(rest: &str) -> Result<(&str, &str), String> {
    // split at the top-level comma (memory operands contain no commas)
    rest.split_once(',').ok_or_else(|| format!("expected two operands in `{rest}`"))
}

impl Program {
    pub fn new() -> Program {
        Program {
            next_addr: CODE_BASE,
            ..Default::default()
        }
    }

    pub fn parse(text: &str) -> Result<Program, String> {
        let mut p = Program::new();
        p.append(text)?;
        Ok(p)
    }

    fn push(&mut self, insn: Insn, line: &str, size: u64) {
        let idx = self.insns.len();
        self.insns.push(insn);
        self.text.push(line.trim().to_string());
        self.addr.push(self.next_addr);
        self.by_addr.entry(self.next_addr).or_insert(idx);
        self.next_addr += size;
    }

    /// Appends more printed text (used for fragments). Labels share one namespace.
    pub fn append(&mut self, text: &str) -> Result<(), String> {
        for raw in text.lines() {
            let line = raw.trim();
            if line.is_empty() {
                continue;
            }
            if let Some(c) = line.strip_prefix(';') {
                if let Some(m) = parse_marker(c) {
                    self.push(Insn::Marker(m), line, 0);
                }
                continue;
            }
            if line.starts_with("section ") {
                continue;
            }
            if let Some(l) = line.strip_prefix("extern ") {
                self.externs.push(l.trim().to_string());
                continue;
            }
            if let Some(l) = line.strip_prefix("global ") {
                self.globals.push(l.trim().to_string());
                continue;
            }
            if let Some(l) = line.strip_suffix(':') {
                let idx = self.insns.len();
                label_map_insert(&mut self.labels, &mut self.dup_labels, l.trim(), idx);
                continue;
            }
            let (mn, rest) = match line.split_once(char::is_whitespace) {
                Some((m, r)) => (m, r.trim()),
                None => (line, ""),
            };
            let insn = match mn {
                "add" | "sub" | "imul" | "cmp" | "mov" => {
                    let (a, b) = split2(rest)?;
                    let op = match mn {
                        "add" => Alu::Add,
                        "sub" => Alu::Sub,
                        "imul" => Alu::Imul,
                        "cmp" => Alu::Cmp,
                        _ => Alu::Mov,
                    };
                    Insn::Alu(op, parse_opnd(a)?, parse_opnd(b)?)
                }
                "idiv" => Insn::Idiv(parse_opnd(rest)?),
                "cqo" => Insn::Cqo,
                "jmp" => {
                    if let Some(l) = rest.strip_prefix("near ") {
                        Insn::JmpLabel(l.trim().to_string(), true)
                    } else if let Some(r) = reg_index(rest) {
                        Insn::JmpReg(r)
                    } else {
                        Insn::JmpLabel(rest.to_string(), false)
                    }
                }
                "lea" => {
                    let (a, b) = split2(rest)?;
                    let r = reg_index(a.trim()).ok_or_else(|| format!("bad lea target in `{line}`"))?;
                    let b = b.trim();
                    let inner = b
                        .strip_prefix('[')
                        .and_then(|x| x.strip_suffix(']'))
                        .ok_or_else(|| format!("bad lea source in `{line}`"))?
                        .trim();
                    let l = inner
                        .strip_prefix("rel ")
                        .ok_or_else(|| format!("lea without rel in `{line}`"))?;
                    Insn::Lea(r, l.trim().to_string())
                }
                "je" => Insn::Jcc(Cond::E, rest.to_string()),
                "jne" => Insn::Jcc(Cond::Ne, rest.to_string()),
                "jl" => Insn::Jcc(Cond::L, rest.to_string()),
                "jle" => Insn::Jcc(Cond::Le, rest.to_string()),
                "jg" => Insn::Jcc(Cond::G, rest.to_string()),
                "jge" => Insn::Jcc(Cond::Ge, rest.to_string()),
                "push" => Insn::Push(reg_index(rest).ok_or_else(|| format!("bad push `{line}`"))?),
                "pop" => Insn::Pop(reg_index(rest).ok_or_else(|| format!("bad pop `{line}`"))?),
                "call" => Insn::Call(rest.to_string()),
                "ret" => Insn::Ret,
                _ => return Err(format!("unmodelled x86 line `{line}`")),
            };
            let size = match &insn {
                Insn::JmpLabel(_, true) => 5,
                Insn::JmpLabel(_, false) => 2,
                _ => 16,
            };
            self.push(insn, line, size);
        }
        Ok(())
    }
}

#[derive(Debug, Clone, Copy, PartialEq, Eq, Hash)]
pub struct Flags {
    pub zf: bool,
    pub sf: bool,
    pub of: bool,
    pub d: bool,
}

#[derive(Debug, Clone, PartialEq, Eq, Hash)]
pub struct State {
    pub regs: [Word; 16],
    pub flags: Flags,
    pub mem: Mem,
    pub entry_sp: u64,
    pub entry_regs: [Word; 16],
}

impl State {
    /// State at the first instruction of `asm_main`, as the C driver would call it.
    pub fn at_entry(heap_words: usize, args: &[i64]) -> State {
        let mut regs = [Word::undef(0); 16];
        for (i, r) in regs.iter_mut().enumerate() {
            // distinct sentinels; callee-saved are defined (the caller owns their values)
            *r = Word {
                v: 0x0bad_0000_0000 + (i as i64) * 0x1111,
                d: CALLEE_SAVED.contains(&i),
            };
        }
        let entry_sp = STACK_TOP - 8 - 64; // ≡ 8 mod 16, as after a `call`
        regs[RSP] = Word::def(entry_sp as i64);
        regs[RDI] = Word::def(HEAP_BASE as i64);
        for (i, a) in args.iter().enumerate() {
            regs[ARG_REGS[i + 1]] = Word::def(*a);
        }
        let mut mem = Mem::new(heap_words);
        // the return address pushed by the caller
        let idx = ((entry_sp - mem.stack_base()) / 8) as usize;
        mem.stack[idx] = Word::def(RET_SENTINEL as i64);
        State {
            regs,
            flags: Flags { zf: false, sf: false, of: false, d: false },
            mem,
            entry_sp,
            entry_regs: regs,
        }
    }
}

pub struct X86Cpu<'a> {
    pub st: &'a State,
    pub info: &'a ArchInfo,
}
impl Cpu for X86Cpu<'_> {
    fn info(&self) -> &ArchInfo {
        self.info
    }
    fn reg(&self, r: usize) -> Word {
        self.st.regs[r]
    }
    fn sp(&self) -> u64 {
        self.st.regs[RSP].v as u64
    }
    fn entry_sp(&self) -> u64 {
        self.st.entry_sp
    }
    fn memory(&self) -> &Mem {
        &self.st.mem
    }
}

fn flags_of_sub(a: i64, b: i64, d: bool) -> Flags {
    let (r, of) = a.overflowing_sub(b);
    Flags { zf: r == 0, sf: r < 0, of, d }
}
fn flags_of_add(a: i64, b: i64, d: bool) -> Flags {
    let (r, of) = a.overflowing_add(b);
    Flags { zf: r == 0, sf: r < 0, of, d }
}

pub struct Emu<'a> {
    pub prog: &'a Program,
    pub info: &'a ArchInfo,
    pub limit: u64,
}

impl Emu<'_> {
    fn addr_of(&self, st: &State, base: usize, disp: i64, what: &str) -> Result<u64, Fault> {
        let b = st.regs[base];
        if !b.d {
            return Err(Fault::Undefined(format!(
                "memory address uses undefined register {} in `{what}`",
                REG_NAMES[base]
            )));
        }
        Ok(b.v.wrapping_add(disp) as u64)
    }
    fn sp_limit(&self, st: &State) -> (u64, u64) {
        (st.regs[RSP].v as u64, st.entry_sp)
    }
    fn read(&self, st: &State, o: &Opnd, what: &str) -> Result<Word, Fault> {
        match o {
            Opnd::Reg(r) => Ok(st.regs[*r]),
            Opnd::Imm(i) => Ok(Word::def(*i)),
            Opnd::Mem(b, d) => {
                let a = self.addr_of(st, *b, *d, what)?;
                let (sp, lim) = self.sp_limit(st);
                st.mem.load(a, sp, lim)
            }
        }
    }
    fn write(&self, st: &mut State, o: &Opnd, w: Word, what: &str) -> Result<(), Fault> {
        match o {
            Opnd::Reg(r) => {
                st.regs[*r] = w;
                Ok(())
            }
            Opnd::Imm(_) => Err(Fault::Unmodelled(format!("write to immediate in `{what}`"))),
            Opnd::Mem(b, d) => {
                let a = self.addr_of(st, *b, *d, what)?;
                let (sp, lim) = self.sp_limit(st);
                st.mem.store(a, w, sp, lim)
            }
        }
    }

    fn goto_label(&self, l: &str) -> Result<usize, Stop> {
        match self.prog.labels.get(l) {
            Some(i) => Ok(*i),
            None => Err(Stop::External(l.to_string())),
        }
    }

    /// Runs from instruction index `pc` until return / external label / fault.
    pub fn run(&self, st: &mut State, mut pc: usize, mon: &mut dyn Monitor) -> RunResult {
        let mut prints = Vec::new();
        let mut stats = RunStats::default();
        let prog = self.prog;
        let stop = 'outer: loop {
            if pc >= prog.insns.len() {
                break Stop::Fault(Fault::BadJump("fell off the end of the code".into()));
            }
            stats.insns += 1;
            if stats.insns > self.limit {
                break Stop::Fault(Fault::InsnLimit);
            }
            let what = &prog.text[pc];
            macro_rules! tri {
                ($e:expr) => {
                    match $e {
                        Ok(v) => v,
                        Err(f) => break 'outer Stop::Fault(f),
                    }
                };
            }
            match &prog.insns[pc] {
                Insn::Marker(m) => {
                    stats.boundaries += 1;
                    let cpu = X86Cpu { st, info: self.info };
                    if let Err(e) = mon.boundary(&cpu, m) {
                        break Stop::Fault(Fault::Monitor(e));
                    }
                    pc += 1;
                }
                Insn::Alu(op, dst, src) => {
                    if let Opnd::Imm(i) = src {
                        // only `mov r64, imm64` can carry a 64-bit immediate
                        let wide_ok = *op == Alu::Mov && matches!(dst, Opnd::Reg(_));
                        if !wide_ok && i32::try_from(*i).is_err() {
                            break Stop::Fault(Fault::Encoding(format!("immediate {i} does not fit imm32 in `{what}`")));
                        }
                    }
                    if let Opnd::Mem(_, d) = dst {
                        if i32::try_from(*d).is_err() {
                            break Stop::Fault(Fault::Encoding(format!("displacement {d} does not fit disp32 in `{what}`")));
                        }
                    }
                    let b = tri!(self.read(st, src, what));
                    match op {
                        Alu::Mov => {
                            tri!(self.write(st, dst, b, what));
                        }
                        Alu::Cmp => {
                            let a = tri!(self.read(st, dst, what));
                            st.flags = flags_of_sub(a.v, b.v, a.d && b.d);
                        }
                        Alu::Add => {
                            let a = tri!(self.read(st, dst, what));
                            st.flags = flags_of_add(a.v, b.v, a.d && b.d);
                            tri!(self.write(st, dst, Word { v: a.v.wrapping_add(b.v), d: a.d && b.d }, what));
                        }
                        Alu::Sub => {
                            let a = tri!(self.read(st, dst, what));
                            st.flags = flags_of_sub(a.v, b.v, a.d && b.d);
                            tri!(self.write(st, dst, Word { v: a.v.wrapping_sub(b.v), d: a.d && b.d }, what));
                        }
                        Alu::Imul => {
                            if !matches!(dst, Opnd::Reg(_)) {
                                break Stop::Fault(Fault::Unmodelled(format!(
                                    "imul with a memory destination does not exist: `{what}`"
                                )));
                            }
                            let a = tri!(self.read(st, dst, what));
                            st.flags.d = false;
                            tri!(self.write(st, dst, Word { v: a.v.wrapping_mul(b.v), d: a.d && b.d }, what));
                        }
                    }
                    pc += 1;
                }
                Insn::Cqo => {
                    let a = st.regs[RAX];
                    st.regs[RDX] = Word { v: if a.v < 0 { -1 } else { 0 }, d: a.d };
                    pc += 1;
                }
                Insn::Idiv(o) => {
                    let d = tri!(self.read(st, o, what));
                    let lo = st.regs[RAX];
                    let hi = st.regs[RDX];
                    if !(d.d && lo.d && hi.d) {
                        // a trap may depend on an undefined value
                        break Stop::Fault(Fault::Undefined(format!("idiv operands undefined in `{what}`")));
                    }
                    let dividend = ((hi.v as i128) << 64) | (lo.v as u64 as i128);
                    if d.v == 0 {
                        break Stop::Fault(Fault::DivTrap);
                    }
                    let q = dividend / d.v as i128;
                    let r = dividend % d.v as i128;
                    if q > i64::MAX as i128 || q < i64::MIN as i128 {
                        break Stop::Fault(Fault::DivTrap);
                    }
                    st.regs[RAX] = Word::def(q as i64);
                    st.regs[RDX] = Word::def(r as i64);
                    st.flags.d = false;
                    pc += 1;
                }
                Insn::JmpReg(r) => {
                    let t = st.regs[*r];
                    if !t.d {
                        break Stop::Fault(Fault::Undefined(format!("indirect jump through undefined {}", REG_NAMES[*r])));
                    }
                    match prog.by_addr.get(&(t.v as u64)) {
                        Some(i) => pc = *i,
                        None => {
                            break Stop::Fault(Fault::BadJump(format!(
                                "indirect jump to {:#x}, which is not the start of an instruction (`{what}`)",
                                t.v
                            )));
                        }
                    }
                }
                Insn::JmpLabel(l, _) => match self.goto_label(l) {
                    Ok(i) => pc = i,
                    Err(s) => break s,
                },
                Insn::Lea(r, l) => {
                    let Some(i) = prog.labels.get(l) else {
                        break Stop::Fault(Fault::BadJump(format!("lea of undefined label {l}")));
                    };
                    // address of the first instruction at or after the label
                    let a = if *i < prog.addr.len() { prog.addr[*i] } else { prog.next_addr };
                    st.regs[*r] = Word::def(a as i64);
                    pc += 1;
                }
                Insn::Jcc(c, l) => {
                    if !st.flags.d {
                        break Stop::Fault(Fault::Undefined(format!("conditional jump on undefined flags (`{what}`)")));
                    }
                    let f = st.flags;
                    let taken = match c {
                        Cond::E => f.zf,
                        Cond::Ne => !f.zf,
                        Cond::L => f.sf != f.of,
                        Cond::Le => f.zf || f.sf != f.of,
                        Cond::G => !f.zf && f.sf == f.of,
                        Cond::Ge => f.sf == f.of,
                    };
                    if taken {
                        match self.goto_label(l) {
                            Ok(i) => pc = i,
                            Err(s) => break s,
                        }
                    } else {
                        pc += 1;
                    }
                }
                Insn::Push(r) => {
                    let w = st.regs[*r];
                    let nsp = (st.regs[RSP].v as u64).wrapping_sub(8);
                    st.regs[RSP] = Word::def(nsp as i64);
                    let lim = st.entry_sp;
                    tri!(st.mem.store(nsp, w, nsp, lim));
                    pc += 1;
                }
                Insn::Pop(r) => {
                    let sp = st.regs[RSP].v as u64;
                    let w = tri!(st.mem.load(sp, sp, st.entry_sp));
                    st.regs[RSP] = Word::def(sp.wrapping_add(8) as i64);
                    if *r != RSP {
                        st.regs[*r] = w;
                    }
                    pc += 1;
                }
                Insn::Call(f) => {
                    let newline = match f.as_str() {
                        "print_i64" => false,
                        "println_i64" => true,
                        _ => break Stop::Fault(Fault::Unmodelled(format!("call of unknown external {f}"))),
                    };
                    let sp = st.regs[RSP].v as u64;
                    if !st.regs[RSP].d || sp % 16 != 0 {
                        break Stop::Fault(Fault::Misaligned(format!(
                            "rsp = {sp:#x} at `call {f}` is not 16-byte aligned"
                        )));
                    }
                    if sp > st.entry_sp || sp < st.mem.stack_base() + 64 {
                        break Stop::Fault(Fault::OutOfBounds { addr: sp, what: "stack pointer out of range at call".into() });
                    }
                    let a = st.regs[RDI];
                    if !a.d {
                        break Stop::Fault(Fault::Undefined(format!("argument of {f} is undefined")));
                    }
                    prints.push((newline, a.v));
                    // the callee may clobber every caller-saved register, the flags and
                    // everything below the stack pointer
                    for r in CALLER_SAVED {
                        st.regs[r] = Word::undef(0x0c10_bbe2_0000 + r as i64);
                    }
                    st.flags.d = false;
                    st.mem.clobber_below(sp);
                    pc += 1;
                }
                Insn::Ret => {
                    let sp = st.regs[RSP].v as u64;
                    if sp != st.entry_sp {
                        break Stop::Fault(Fault::CallConv(format!(
                            "ret with rsp = {sp:#x}, entry rsp was {:#x}",
                            st.entry_sp
                        )));
                    }
                    for r in CALLEE_SAVED {
                        let now = st.regs[r];
                        let then = st.entry_regs[r];
                        if !now.d || now.v != then.v {
                            break 'outer Stop::Fault(Fault::CallConv(format!(
                                "callee-saved {} not restored: {:#x} (defined: {}) instead of {:#x}",
                                REG_NAMES[r], now.v, now.d, then.v
                            )));
                        }
                    }
                    let res = st.regs[RAX];
                    if !res.d {
                        break Stop::Fault(Fault::Undefined("result register rax undefined at ret".into()));
                    }
                    break Stop::Return(res.v);
                }
            }
        };
        let lo = pc.saturating_sub(6);
        let hi = (pc + 1).min(prog.text.len());
        RunResult {
            stop,
            prints,
            stats,
            tail: prog.text[lo..hi].to_vec(),
        }
    }
}
