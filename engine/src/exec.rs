//! Running printed routines on the emulators and comparing with reference traces.
use crate::emu::{self, a64, rv64, x86, ArchInfo, Fault, Loc, Monitor, RunResult, Stop};
use crate::pipeline::Arch;
use crate::sem::ax::{Outcome, Trace};

#[derive(Debug, Clone, Copy)]
pub struct ExecCfg {
    pub heap_words: usize,
    pub insn_limit: u64,
}
impl Default for ExecCfg {
    fn default() -> Self {
        ExecCfg { heap_words: 8 * 4096, insn_limit: 5_000_000 }
    }
}

/// Runs a complete routine text (as the driver would write it) from its entry point.
pub fn run_text(
    arch: Arch,
    info: &ArchInfo,
    text: &str,
    args: &[i64],
    cfg: ExecCfg,
    mon: &mut dyn Monitor,
) -> Result<RunResult, String> {
    match arch {
        Arch::X86 => {
            let prog = x86::Program::parse(text)?;
            let Some(entry) = prog.labels.get("asm_main").copied() else {
                return Err("no asm_main label".into());
            };
            if args.len() > 5 {
                return Err("x86-64 entry takes at most 5 arguments".into());
            }
            let mut st = x86::State::at_entry(cfg.heap_words, args);
            let emu = x86::Emu { prog: &prog, info, limit: cfg.insn_limit };
            Ok(emu.run(&mut st, entry, mon))
        }
        Arch::A64 => {
            let prog = a64::Program::parse(text)?;
            let Some(entry) = prog.labels.get("asm_main").copied() else {
                return Err("no asm_main label".into());
            };
            if args.len() > 7 {
                return Err("aarch64 entry takes at most 7 arguments".into());
            }
            let mut st = a64::State::at_entry(cfg.heap_words, args);
            let emu = a64::Emu { prog: &prog, info, limit: cfg.insn_limit };
            Ok(emu.run(&mut st, entry, mon))
        }
        Arch::Rv64 => {
            let prog = rv64::Program::parse(text)?;
            let mut params = Vec::new();
            for (i, a) in args.iter().enumerate() {
                match info.temps.get(2 * i + 1) {
                    Some(Loc::Reg(r)) => params.push((*r, *a)),
                    _ => return Err("rv64: parameter beyond register capacity".into()),
                }
            }
            let mut st = rv64::State::at_entry(cfg.heap_words, info, &params);
            let emu = rv64::Emu { prog: &prog, info, limit: cfg.insn_limit };
            let mut r = emu.run(&mut st, 0, mon);
            if let Stop::External(l) = &r.stop {
                if l == "cleanup" {
                    let w = st.regs[10];
                    r.stop = if w.d { Stop::Return(w.v) } else { Stop::Fault(Fault::Undefined("X10 undefined at exit".into())) };
                }
            }
            Ok(r)
        }
    }
}

#[derive(Debug, Clone, PartialEq, Eq)]
pub enum Verdict {
    Match,
    /// outside the property's domain (undefined reference semantics, capacity)
    Skip(String),
    Violation(String),
    Machinery(String),
}

pub fn fault_text(f: &Fault) -> String {
    format!("{f:?}")
}

/// Compares an emulated run against the reference trace of the same program and inputs.
pub fn compare(reference: &Trace, run: &RunResult) -> Verdict {
    match &reference.outcome {
        Outcome::Undefined(why) => return Verdict::Skip(format!("reference undefined: {why}")),
        Outcome::Fuel => return Verdict::Skip("reference ran out of fuel".into()),
        Outcome::Stuck(msg) => return Verdict::Machinery(format!("reference machine stuck: {msg}")),
        Outcome::Exit(_) => {}
    }
    let Outcome::Exit(expected) = reference.outcome else { unreachable!() };
    match &run.stop {
        Stop::Fault(Fault::HeapExhausted) => Verdict::Skip("emulated heap exhausted".into()),
        Stop::Fault(Fault::Unmodelled(m)) => Verdict::Machinery(format!("emulator: {m}")),
        Stop::Fault(f) => Verdict::Violation(format!(
            "generated code faults: {} (after {} print calls; reference exits with {expected})",
            fault_text(f),
            run.prints.len()
        )),
        Stop::External(l) => Verdict::Violation(format!("generated code jumps to undefined label {l}")),
        Stop::Return(v) => {
            if run.prints != reference.prints {
                let n = run.prints.iter().zip(&reference.prints).take_while(|(a, b)| a == b).count();
                return Verdict::Violation(format!(
                    "print sequence differs at call #{n}: code {:?}, reference {:?} (lengths {} vs {})",
                    run.prints.get(n),
                    reference.prints.get(n),
                    run.prints.len(),
                    reference.prints.len()
                ));
            }
            if *v != expected {
                return Verdict::Violation(format!("result {v} differs from reference result {expected}"));
            }
            Verdict::Match
        }
    }
}

pub fn emu_noop() -> emu::NoMonitor {
    emu::NoMonitor
}
