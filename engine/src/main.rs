#![allow(dead_code, unused_imports, unused_variables, clippy::all)]
mod arch;
mod checks;
mod emu;
mod exec;
mod framework;
mod generate;
mod mon;
mod native;
mod pipeline;
mod sem;
mod tc;

use framework::*;
use std::time::Instant;

fn usage() -> ! {
    eprintln!("usage: vcheck <Cxx> <quick|thorough> | vcheck <Cxx> --replay <file> | vcheck worker ... | vcheck dump <file> <stage>");
    std::process::exit(2);
}

fn main() {
    let args: Vec<String> = std::env::args().collect();
    if args.len() < 2 {
        usage();
    }
    match args[1].as_str() {
        "dump" => dump(&args),
        "c17-history" => {
            pipeline::install_quiet_panic_hook();
            let a: Vec<String> = args[2..].to_vec();
            let h = std::thread::Builder::new().stack_size(1 << 28).spawn(move || checks::determinism::child_history(&a)).unwrap();
            std::process::exit(h.join().unwrap_or(2));
        }
        "c17-dump" => {
            pipeline::install_quiet_panic_hook();
            let a = args[2].clone();
            let h = std::thread::Builder::new().stack_size(1 << 28).spawn(move || checks::determinism::child_dump(&a)).unwrap();
            std::process::exit(h.join().unwrap_or(2));
        }
        "selftest" => {
            pipeline::install_quiet_panic_hook();
            let h = std::thread::Builder::new().stack_size(1 << 30).spawn(checks::selftest::run).unwrap();
            std::process::exit(h.join().unwrap_or(2));
        }
        "worker" => {
            pipeline::install_quiet_panic_hook();
            // worker <check> <tier> <shard> <n> <out> [extra...]
            let check = &args[2];
            let tier = Tier::parse(&args[3]).unwrap_or_else(|| usage());
            let ctx = WorkerCtx {
                tier,
                shard: args[4].parse().unwrap(),
                nshards: args[5].parse().unwrap(),
                seed: seed(),
                started: Instant::now(),
                budget_s: std::env::var("VERIF_BUDGET_S").ok().and_then(|s| s.parse().ok()).unwrap_or(if tier.thorough() { 3000.0 } else { 150.0 }),
            };
            let check = check.clone();
            let extra: Vec<String> = args[7..].to_vec();
            let out = args[6].clone();
            // deep recursion over program trees: run on a large stack
            let h = std::thread::Builder::new()
                .stack_size(1 << 30)
                .spawn(move || {
                    let rep = checks::run_worker(&check, &ctx, &extra);
                    write_worker_report(&out, &rep);
                })
                .unwrap();
            let _ = h.join();
        }
        id if id.starts_with('C') => {
            if args.len() >= 4 && args[2] == "--replay" {
                pipeline::install_quiet_panic_hook();
                std::process::exit(checks::replay(id, &args[3]));
            }
            let tier = args.get(2).and_then(|s| Tier::parse(s)).or_else(|| std::env::var("VERIF_TIER").ok().and_then(|s| Tier::parse(&s))).unwrap_or(Tier::Quick);
            pipeline::install_quiet_panic_hook();
            std::process::exit(checks::run_check(id, tier));
        }
        _ => usage(),
    }
}

fn dump(args: &[String]) {
    let src = std::fs::read_to_string(&args[2]).unwrap();
    let st = pipeline::all_stages(&src).unwrap();
    use printer::Print;
    let what = args.get(3).map(|s| s.as_str()).unwrap_or("x86");
    match what {
        "core" => println!("{}", st.core.print_to_string(None)),
        "focused" => println!("{}", st.focused.print_to_string(None)),
        "shrunk" => println!("{}", st.shrunk.print_to_string(None)),
        "linear" => println!("{}", st.linear.print_to_string(None)),
        "x86" => println!("{}", pipeline::codegen(st.linear, pipeline::Arch::X86).unwrap().0),
        "a64" => println!("{}", pipeline::codegen(st.linear, pipeline::Arch::A64).unwrap().0),
        "rv64" => println!("{}", pipeline::codegen(st.linear, pipeline::Arch::Rv64).unwrap().0),
        _ => panic!("unknown"),
    }
}
