pub mod ax;
pub mod core;
