//! TC-CORE: independent scoping/typing checker for Core programs with the annotations they carry
//! (the judgments listed in property C12), plus the binder-uniqueness check of C03.
use core_lang::syntax::declaration::{Polarity, TypeDeclaration, XtorSig};
use core_lang::syntax::statements::Statement;
use core_lang::syntax::terms::{Chi, Clause, Cns, Prd, Term};
use core_lang::syntax::arguments::Argument;
use core_lang::syntax::{Arguments, Chirality, ContextBinding, Identifier, Prog, Ty, TypingContext};
use printer::Print;

#[derive(Clone, Default)]
struct Scope {
    vars: Vec<(Identifier, Ty)>,
    covars: Vec<(Identifier, Ty)>,
}
impl Scope {
    fn var(&self, id: &Identifier) -> Option<&Ty> {
        self.vars.iter().rev().find(|(i, _)| i == id).map(|(_, t)| t)
    }
    fn covar(&self, id: &Identifier) -> Option<&Ty> {
        self.covars.iter().rev().find(|(i, _)| i == id).map(|(_, t)| t)
    }
    fn with(&self, ctx: &TypingContext) -> Scope {
        let mut s = self.clone();
        for b in &ctx.bindings {
            match b.chi {
                Chirality::Prd => s.vars.push((b.var.clone(), b.ty.clone())),
                Chirality::Cns => s.covars.push((b.var.clone(), b.ty.clone())),
            }
        }
        s
    }
}

fn tyname(t: &Ty) -> String {
    t.print_to_string(None)
}
fn idname(i: &Identifier) -> String {
    i.print_to_string(None)
}

fn find_decl<'a, P: Polarity>(decls: &'a [TypeDeclaration<P>], ty: &Ty) -> Option<&'a TypeDeclaration<P>> {
    match ty {
        Ty::Decl(n) => decls.iter().find(|d| d.name == *n),
        Ty::I64 => None,
    }
}

fn well_formed_ty(prog: &Prog, ty: &Ty) -> Result<(), String> {
    match ty {
        Ty::I64 => Ok(()),
        Ty::Decl(n) => {
            if prog.data_types.iter().any(|d| d.name == *n) || prog.codata_types.iter().any(|d| d.name == *n) {
                Ok(())
            } else {
                Err(format!("type {} is not declared", idname(n)))
            }
        }
    }
}

pub struct Stats {
    pub nodes: u64,
}

pub fn check_prog(prog: &Prog) -> Result<Stats, String> {
    let mut stats = Stats { nodes: 0 };
    let mut names = std::collections::HashSet::new();
    for d in &prog.defs {
        if !names.insert(idname(&d.name)) {
            return Err(format!("definition {} declared twice", idname(&d.name)));
        }
    }
    for decl in &prog.data_types {
        for x in &decl.xtors {
            for b in &x.args.bindings {
                well_formed_ty(prog, &b.ty).map_err(|e| format!("declaration {}: {e}", idname(&decl.name)))?;
            }
        }
    }
    for decl in &prog.codata_types {
        for x in &decl.xtors {
            for b in &x.args.bindings {
                well_formed_ty(prog, &b.ty).map_err(|e| format!("declaration {}: {e}", idname(&decl.name)))?;
            }
        }
    }
    for d in &prog.defs {
        for b in &d.context.bindings {
            well_formed_ty(prog, &b.ty).map_err(|e| format!("def {}: {e}", idname(&d.name)))?;
        }
        let scope = Scope::default().with(&d.context);
        stmt(prog, &d.body, &scope, &mut stats).map_err(|e| format!("def {}: {e}", idname(&d.name)))?;
    }
    Ok(stats)
}

fn args(prog: &Prog, sig: &TypingContext, actual: &Arguments, scope: &Scope, what: &str, stats: &mut Stats) -> Result<(), String> {
    if sig.bindings.len() != actual.entries.len() {
        return Err(format!("{what}: {} arguments for a signature of {}", actual.entries.len(), sig.bindings.len()));
    }
    for (b, a) in sig.bindings.iter().zip(&actual.entries) {
        match (&b.chi, a) {
            (Chirality::Prd, Argument::Producer(p)) => prd(prog, p, &b.ty, scope, stats).map_err(|e| format!("{what}, argument {}: {e}", b.var.name))?,
            (Chirality::Cns, Argument::Consumer(c)) => cns(prog, c, &b.ty, scope, stats).map_err(|e| format!("{what}, argument {}: {e}", b.var.name))?,
            (Chirality::Prd, _) => return Err(format!("{what}: consumer given for producer parameter {}", b.var.name)),
            (Chirality::Cns, _) => return Err(format!("{what}: producer given for consumer parameter {}", b.var.name)),
        }
    }
    Ok(())
}

fn clauses<C: Chi, P: Polarity>(
    prog: &Prog,
    decl: &TypeDeclaration<P>,
    cls: &[Clause<C, Statement>],
    scope: &Scope,
    what: &str,
    stats: &mut Stats,
) -> Result<(), String> {
    if cls.len() != decl.xtors.len() {
        return Err(format!("{what}: {} clauses for type {} with {} xtors", cls.len(), idname(&decl.name), decl.xtors.len()));
    }
    for x in &decl.xtors {
        let n = cls.iter().filter(|c| c.xtor == x.name).count();
        if n != 1 {
            return Err(format!("{what}: {n} clauses for xtor {} of type {}", idname(&x.name), idname(&decl.name)));
        }
    }
    for c in cls {
        let sig: &XtorSig<P> = decl.xtors.iter().find(|x| x.name == c.xtor).unwrap();
        if sig.args.bindings.len() != c.context.bindings.len() {
            return Err(format!("{what}: clause {} binds {} parameters, declaration has {}", idname(&c.xtor), c.context.bindings.len(), sig.args.bindings.len()));
        }
        for (s, b) in sig.args.bindings.iter().zip(&c.context.bindings) {
            if s.chi != b.chi || s.ty != b.ty {
                return Err(format!(
                    "{what}: clause {} parameter {} is {:?} {}, declaration says {:?} {}",
                    idname(&c.xtor),
                    idname(&b.var),
                    b.chi,
                    tyname(&b.ty),
                    s.chi,
                    tyname(&s.ty)
                ));
            }
        }
        stmt(prog, &c.body, &scope.with(&c.context), stats).map_err(|e| format!("clause {}: {e}", idname(&c.xtor)))?;
    }
    Ok(())
}

fn prd(prog: &Prog, t: &Term<Prd>, expected: &Ty, scope: &Scope, stats: &mut Stats) -> Result<(), String> {
    stats.nodes += 1;
    match t {
        Term::XVar(v) => match scope.var(&v.var) {
            None => Err(format!("unbound variable {}", idname(&v.var))),
            Some(ty) if ty != expected || v.ty != *expected => Err(format!(
                "variable {} bound at {}, annotated {}, used at {}",
                idname(&v.var),
                tyname(ty),
                tyname(&v.ty),
                tyname(expected)
            )),
            _ => Ok(()),
        },
        Term::Literal(_) => {
            if *expected == Ty::I64 { Ok(()) } else { Err(format!("literal used at type {}", tyname(expected))) }
        }
        Term::Op(o) => {
            if *expected != Ty::I64 {
                return Err(format!("arithmetic used at type {}", tyname(expected)));
            }
            prd(prog, &o.fst, &Ty::I64, scope, stats)?;
            prd(prog, &o.snd, &Ty::I64, scope, stats)
        }
        Term::Mu(m) => {
            if m.ty != *expected {
                return Err(format!("mu-abstraction of {} annotated {}, used at {}", idname(&m.variable), tyname(&m.ty), tyname(expected)));
            }
            let mut s = scope.clone();
            s.covars.push((m.variable.clone(), m.ty.clone()));
            stmt(prog, &m.statement, &s, stats)
        }
        Term::Xtor(x) => {
            if x.ty != *expected {
                return Err(format!("constructor {} annotated {}, used at {}", idname(&x.name), tyname(&x.ty), tyname(expected)));
            }
            let Some(decl) = find_decl(&prog.data_types, &x.ty) else {
                return Err(format!("constructor {} at {}, which is not a declared data type", idname(&x.name), tyname(&x.ty)));
            };
            let Some(sig) = decl.xtors.iter().find(|s| s.name == x.name) else {
                return Err(format!("constructor {} is not declared in {}", idname(&x.name), tyname(&x.ty)));
            };
            args(prog, &sig.args, &x.args, scope, &format!("constructor {}", idname(&x.name)), stats)
        }
        Term::XCase(x) => {
            if x.ty != *expected {
                return Err(format!("cocase annotated {}, used at {}", tyname(&x.ty), tyname(expected)));
            }
            let Some(decl) = find_decl(&prog.codata_types, &x.ty) else {
                return Err(format!("cocase at {}, which is not a declared codata type", tyname(&x.ty)));
            };
            clauses(prog, decl, &x.clauses, scope, "cocase", stats)
        }
    }
}

fn cns(prog: &Prog, t: &Term<Cns>, expected: &Ty, scope: &Scope, stats: &mut Stats) -> Result<(), String> {
    stats.nodes += 1;
    match t {
        Term::XVar(v) => match scope.covar(&v.var) {
            None => Err(format!("unbound covariable {}", idname(&v.var))),
            Some(ty) if ty != expected || v.ty != *expected => Err(format!(
                "covariable {} bound at {}, annotated {}, used at {}",
                idname(&v.var),
                tyname(ty),
                tyname(&v.ty),
                tyname(expected)
            )),
            _ => Ok(()),
        },
        Term::Literal(_) | Term::Op(_) => Err("literal/arithmetic in consumer position".into()),
        Term::Mu(m) => {
            if m.ty != *expected {
                return Err(format!("mu-tilde-abstraction of {} annotated {}, used at {}", idname(&m.variable), tyname(&m.ty), tyname(expected)));
            }
            let mut s = scope.clone();
            s.vars.push((m.variable.clone(), m.ty.clone()));
            stmt(prog, &m.statement, &s, stats)
        }
        Term::Xtor(x) => {
            if x.ty != *expected {
                return Err(format!("destructor {} annotated {}, used at {}", idname(&x.name), tyname(&x.ty), tyname(expected)));
            }
            let Some(decl) = find_decl(&prog.codata_types, &x.ty) else {
                return Err(format!("destructor {} at {}, which is not a declared codata type", idname(&x.name), tyname(&x.ty)));
            };
            let Some(sig) = decl.xtors.iter().find(|s| s.name == x.name) else {
                return Err(format!("destructor {} is not declared in {}", idname(&x.name), tyname(&x.ty)));
            };
            args(prog, &sig.args, &x.args, scope, &format!("destructor {}", idname(&x.name)), stats)
        }
        Term::XCase(x) => {
            if x.ty != *expected {
                return Err(format!("case annotated {}, used at {}", tyname(&x.ty), tyname(expected)));
            }
            let Some(decl) = find_decl(&prog.data_types, &x.ty) else {
                return Err(format!("case at {}, which is not a declared data type", tyname(&x.ty)));
            };
            clauses(prog, decl, &x.clauses, scope, "case", stats)
        }
    }
}

fn stmt(prog: &Prog, s: &Statement, scope: &Scope, stats: &mut Stats) -> Result<(), String> {
    stats.nodes += 1;
    match s {
        Statement::Cut(c) => {
            well_formed_ty(prog, &c.ty)?;
            prd(prog, &c.producer, &c.ty, scope, stats).map_err(|e| format!("cut at {}: producer: {e}", tyname(&c.ty)))?;
            cns(prog, &c.consumer, &c.ty, scope, stats).map_err(|e| format!("cut at {}: consumer: {e}", tyname(&c.ty)))
        }
        Statement::IfC(i) => {
            prd(prog, &i.fst, &Ty::I64, scope, stats)?;
            if let Some(snd) = &i.snd {
                prd(prog, snd, &Ty::I64, scope, stats)?;
            }
            stmt(prog, &i.thenc, scope, stats)?;
            stmt(prog, &i.elsec, scope, stats)
        }
        Statement::PrintI64(p) => {
            prd(prog, &p.arg, &Ty::I64, scope, stats)?;
            stmt(prog, &p.next, scope, stats)
        }
        Statement::Call(c) => {
            let Some(def) = prog.defs.iter().find(|d| d.name == c.name) else {
                return Err(format!("call of undefined {}", idname(&c.name)));
            };
            args(prog, &def.context, &c.args, scope, &format!("call {}", idname(&c.name)), stats)
        }
        Statement::Exit(e) => prd(prog, &e.arg, &Ty::I64, scope, stats),
    }
}

// ---------------------------------------------------------------------------------------------
// C03: after focusing, binders along every path are distinct, non-zero, <= max_id, and every
// argument position holds a variable
// ---------------------------------------------------------------------------------------------

use core_lang::syntax::program::FsProg;
use core_lang::syntax::statements::FsStatement;
use core_lang::syntax::terms::FsTerm;

fn fs_bind(path: &mut Vec<usize>, id: &Identifier, max_id: usize) -> Result<(), String> {
    if id.id == 0 {
        return Err(format!("binder {} has id 0 after uniquification", id.name));
    }
    if id.id > max_id {
        return Err(format!("binder {}_{} exceeds max_id {max_id}", id.name, id.id));
    }
    if path.contains(&id.id) {
        return Err(format!("binder id {} ({}) occurs twice along one path", id.id, id.name));
    }
    path.push(id.id);
    Ok(())
}

fn fs_term<C: Chi>(t: &FsTerm<C>, path: &mut Vec<usize>, max_id: usize, n: &mut u64) -> Result<(), String> {
    *n += 1;
    match t {
        FsTerm::XVar(_) | FsTerm::Literal(_) | FsTerm::Op(_) | FsTerm::Xtor(_) => Ok(()),
        FsTerm::Mu(m) => {
            let depth = path.len();
            fs_bind(path, &m.variable, max_id)?;
            fs_stmt(&m.statement, path, max_id, n)?;
            path.truncate(depth);
            Ok(())
        }
        FsTerm::XCase(x) => {
            for c in &x.clauses {
                let depth = path.len();
                for b in &c.context.bindings {
                    fs_bind(path, &b.var, max_id)?;
                }
                fs_stmt(&c.body, path, max_id, n)?;
                path.truncate(depth);
            }
            Ok(())
        }
    }
}

fn fs_stmt(s: &FsStatement, path: &mut Vec<usize>, max_id: usize, n: &mut u64) -> Result<(), String> {
    *n += 1;
    match s {
        FsStatement::Cut(c) => {
            // binders of the producer side stay in scope of nothing on the consumer side, but both
            // lie on paths through this cut: check them sequentially on one path
            let depth = path.len();
            fs_term(&c.producer, path, max_id, n)?;
            path.truncate(depth);
            fs_term(&c.consumer, path, max_id, n)?;
            path.truncate(depth);
            Ok(())
        }
        FsStatement::IfC(i) => {
            fs_stmt(&i.thenc, path, max_id, n)?;
            fs_stmt(&i.elsec, path, max_id, n)
        }
        FsStatement::PrintI64(p) => fs_stmt(&p.next, path, max_id, n),
        FsStatement::Call(_) | FsStatement::Exit(_) => Ok(()),
    }
}

pub fn check_unique_binders(p: &FsProg) -> Result<u64, String> {
    let mut n = 0;
    for d in &p.defs {
        let mut path = Vec::new();
        for b in &d.context.bindings {
            fs_bind(&mut path, &b.var, p.max_id).map_err(|e| format!("def {}: parameter: {e}", d.name.name))?;
        }
        fs_stmt(&d.body, &mut path, p.max_id, &mut n).map_err(|e| format!("def {}: {e}", d.name.name))?;
    }
    Ok(n)
}
