//! TC-AX: independent checker for the ordered-linear discipline the backends assume
//! (DESIGN Appendix A), plus a scoping/typing checker for non-linear AxCut.
use axcut::syntax::statements::*;
use axcut::syntax::{
    Chirality, ContextBinding, Prog, Statement, Ty, TypeDeclaration, TypingContext, XtorSig,
};
use printer::Print;
use std::collections::HashSet;

pub type Gamma = Vec<ContextBinding>;

fn show(g: &[ContextBinding]) -> String {
    g.iter()
        .map(|b| {
            format!(
                "{}_{}:{:?}:{}",
                b.var.name,
                b.var.id,
                b.chi,
                b.ty.print_to_string(None)
            )
        })
        .collect::<Vec<_>>()
        .join(", ")
}

fn same_kind(a: &ContextBinding, b: &ContextBinding) -> bool {
    a.chi == b.chi && a.ty == b.ty
}

fn lookup_type<'a>(types: &'a [TypeDeclaration], ty: &Ty) -> Result<&'a TypeDeclaration, String> {
    match ty {
        Ty::I64 => Err("i64 is not a declared type".into()),
        Ty::Decl(name) => types
            .iter()
            .find(|t| t.name == *name)
            .ok_or_else(|| format!("type {} is not declared", name.name)),
    }
}

fn lookup_xtor<'a>(decl: &'a TypeDeclaration, tag: &axcut::syntax::Identifier) -> Result<&'a XtorSig, String> {
    decl.xtors
        .iter()
        .find(|x| x.name == *tag)
        .ok_or_else(|| format!("xtor {} not declared in type {}", tag.name, decl.name.name))
}

fn distinct_ids(g: &[ContextBinding]) -> Result<(), String> {
    let mut seen = HashSet::new();
    for b in g {
        if !seen.insert(b.var.id) {
            return Err(format!("duplicate variable id {} in environment [{}]", b.var.id, show(g)));
        }
    }
    Ok(())
}

fn well_formed_binding(types: &[TypeDeclaration], b: &ContextBinding) -> Result<(), String> {
    match (&b.chi, &b.ty) {
        (Chirality::Ext, Ty::I64) => Ok(()),
        (Chirality::Ext, _) => Err(format!("ext binding {} at declared type", b.var.name)),
        (_, Ty::I64) => Err(format!("prd/cns binding {} at i64", b.var.name)),
        (_, t) => lookup_type(types, t).map(|_| ()),
    }
}

fn sig_matches(sig: &TypingContext, actual: &[ContextBinding]) -> bool {
    sig.bindings.len() == actual.len()
        && sig.bindings.iter().zip(actual).all(|(s, a)| same_kind(s, a))
}

fn clauses_match(
    decl: &TypeDeclaration,
    clauses: &[Clause],
    what: &str,
) -> Result<(), String> {
    if clauses.len() != decl.xtors.len() {
        return Err(format!(
            "{what}: {} clauses for type {} with {} xtors",
            clauses.len(),
            decl.name.name,
            decl.xtors.len()
        ));
    }
    for (clause, xtor) in clauses.iter().zip(&decl.xtors) {
        if clause.xtor != xtor.name {
            return Err(format!(
                "{what}: clause {} at the position of declared xtor {} (jump tables are emitted in clause order, tags are declaration positions)",
                clause.xtor.name, xtor.name.name
            ));
        }
        if !sig_matches(&xtor.args, &clause.context.bindings) {
            return Err(format!(
                "{what}: clause {} binds [{}] but the declaration says [{}]",
                clause.xtor.name,
                show(&clause.context.bindings),
                show(&xtor.args.bindings)
            ));
        }
    }
    Ok(())
}

fn need_ext(g: &[ContextBinding], id: usize, what: &str) -> Result<(), String> {
    match g.iter().find(|b| b.var.id == id) {
        Some(b) if b.chi == Chirality::Ext && b.ty == Ty::I64 => Ok(()),
        Some(b) => Err(format!("{what}: variable {}_{} is not an integer", b.var.name, id)),
        None => Err(format!("{what}: variable id {id} not in environment [{}]", show(g))),
    }
}

pub struct LinearStats {
    pub statements: u64,
    pub paths: u64,
}

/// Checks every definition of a linearized program. Returns the number of statements checked.
pub fn check_linear_prog(prog: &Prog) -> Result<LinearStats, String> {
    let mut stats = LinearStats { statements: 0, paths: 0 };
    let mut names = HashSet::new();
    for def in &prog.defs {
        if !names.insert(def.name.print_to_string(None)) {
            return Err(format!("definition {} declared twice", def.name.print_to_string(None)));
        }
    }
    for def in &prog.defs {
        for b in &def.context.bindings {
            well_formed_binding(&prog.types, b).map_err(|e| format!("def {}: {e}", def.name.name))?;
        }
        check_linear(prog, &def.body, def.context.bindings.clone(), &mut stats)
            .map_err(|e| format!("def {}: {e}", def.name.print_to_string(None)))?;
    }
    Ok(stats)
}

pub fn check_linear(
    prog: &Prog,
    stmt: &Statement,
    g: Gamma,
    stats: &mut LinearStats,
) -> Result<(), String> {
    stats.statements += 1;
    distinct_ids(&g)?;
    let types = &prog.types;
    match stmt {
        Statement::Substitute(s) => {
            let mut new_g = Vec::new();
            for (new, old) in &s.rearrange {
                let Some(src) = g.iter().find(|b| b.var.id == old.id) else {
                    return Err(format!(
                        "substitute: source {}_{} not in environment [{}]",
                        old.name,
                        old.id,
                        show(&g)
                    ));
                };
                if !same_kind(src, new) {
                    return Err(format!(
                        "substitute: {}_{} := {}_{} changes kind/type",
                        new.var.name, new.var.id, old.name, old.id
                    ));
                }
                new_g.push(new.clone());
            }
            distinct_ids(&new_g).map_err(|e| format!("substitute targets: {e}"))?;
            check_linear(prog, &s.next, new_g, stats)
        }
        Statement::Call(c) => {
            stats.paths += 1;
            let Some(def) = prog.defs.iter().find(|d| d.name == c.label) else {
                return Err(format!("call of undefined label {}", c.label.print_to_string(None)));
            };
            if !sig_matches(&def.context, &g) {
                return Err(format!(
                    "call {}: environment [{}] is not the parameter list [{}]",
                    c.label.print_to_string(None),
                    show(&g),
                    show(&def.context.bindings)
                ));
            }
            Ok(())
        }
        Statement::Let(l) => {
            let decl = lookup_type(types, &l.ty).map_err(|e| format!("let: {e}"))?;
            let xtor = lookup_xtor(decl, &l.tag).map_err(|e| format!("let: {e}"))?;
            let n = l.args.bindings.len();
            if !sig_matches(&xtor.args, &l.args.bindings) {
                return Err(format!(
                    "let {}: arguments [{}] do not match signature [{}]",
                    l.tag.name,
                    show(&l.args.bindings),
                    show(&xtor.args.bindings)
                ));
            }
            if g.len() < n || g[g.len() - n..] != l.args.bindings[..] {
                return Err(format!(
                    "let {}: environment [{}] does not end with the arguments [{}]",
                    l.tag.name,
                    show(&g),
                    show(&l.args.bindings)
                ));
            }
            let mut new_g = g[..g.len() - n].to_vec();
            new_g.push(ContextBinding {
                var: l.var.clone(),
                chi: Chirality::Prd,
                ty: l.ty.clone(),
            });
            check_linear(prog, &l.next, new_g, stats)
        }
        Statement::Switch(s) => {
            let decl = lookup_type(types, &s.ty).map_err(|e| format!("switch: {e}"))?;
            let Some(last) = g.last() else {
                return Err("switch in empty environment".into());
            };
            if last.var.id != s.var.id || last.chi != Chirality::Prd || last.ty != s.ty {
                return Err(format!(
                    "switch {}_{}: scrutinee is not the last entry of [{}] at prd {}",
                    s.var.name,
                    s.var.id,
                    show(&g),
                    s.ty.print_to_string(None)
                ));
            }
            clauses_match(decl, &s.clauses, "switch")?;
            let g0 = &g[..g.len() - 1];
            for clause in &s.clauses {
                let mut cg = g0.to_vec();
                cg.extend(clause.context.bindings.iter().cloned());
                check_linear(prog, &clause.body, cg, stats)
                    .map_err(|e| format!("clause {}: {e}", clause.xtor.name))?;
            }
            Ok(())
        }
        Statement::Create(c) => {
            let decl = lookup_type(types, &c.ty).map_err(|e| format!("create: {e}"))?;
            let Some(env) = &c.context else {
                return Err("create: closure environment not annotated".into());
            };
            let n = env.bindings.len();
            if g.len() < n || g[g.len() - n..] != env.bindings[..] {
                return Err(format!(
                    "create {}_{}: environment [{}] does not end with the closure environment [{}]",
                    c.var.name,
                    c.var.id,
                    show(&g),
                    show(&env.bindings)
                ));
            }
            clauses_match(decl, &c.clauses, "create")?;
            for clause in &c.clauses {
                let mut cg = clause.context.bindings.clone();
                cg.extend(env.bindings.iter().cloned());
                check_linear(prog, &clause.body, cg, stats)
                    .map_err(|e| format!("method {}: {e}", clause.xtor.name))?;
            }
            let mut new_g = g[..g.len() - n].to_vec();
            new_g.push(ContextBinding {
                var: c.var.clone(),
                chi: Chirality::Cns,
                ty: c.ty.clone(),
            });
            check_linear(prog, &c.next, new_g, stats)
        }
        Statement::Invoke(i) => {
            stats.paths += 1;
            let decl = lookup_type(types, &i.ty).map_err(|e| format!("invoke: {e}"))?;
            let xtor = lookup_xtor(decl, &i.tag).map_err(|e| format!("invoke: {e}"))?;
            let Some(last) = g.last() else {
                return Err("invoke in empty environment".into());
            };
            if last.var.id != i.var.id || last.chi != Chirality::Cns || last.ty != i.ty {
                return Err(format!(
                    "invoke {}_{}: closure is not the last entry of [{}] at cns {}",
                    i.var.name,
                    i.var.id,
                    show(&g),
                    i.ty.print_to_string(None)
                ));
            }
            if !sig_matches(&xtor.args, &g[..g.len() - 1]) {
                return Err(format!(
                    "invoke {}: arguments [{}] do not match signature [{}]",
                    i.tag.name,
                    show(&g[..g.len() - 1]),
                    show(&xtor.args.bindings)
                ));
            }
            Ok(())
        }
        Statement::Literal(l) => {
            let mut new_g = g;
            new_g.push(ContextBinding {
                var: l.var.clone(),
                chi: Chirality::Ext,
                ty: Ty::I64,
            });
            check_linear(prog, &l.next, new_g, stats)
        }
        Statement::Op(o) => {
            need_ext(&g, o.fst.id, "op")?;
            need_ext(&g, o.snd.id, "op")?;
            let mut new_g = g;
            new_g.push(ContextBinding {
                var: o.var.clone(),
                chi: Chirality::Ext,
                ty: Ty::I64,
            });
            check_linear(prog, &o.next, new_g, stats)
        }
        Statement::PrintI64(p) => {
            need_ext(&g, p.var.id, "print")?;
            check_linear(prog, &p.next, g, stats)
        }
        Statement::IfC(i) => {
            need_ext(&g, i.fst.id, "ifc")?;
            if let Some(snd) = &i.snd {
                need_ext(&g, snd.id, "ifc")?;
            }
            check_linear(prog, &i.thenc, g.clone(), stats).map_err(|e| format!("then: {e}"))?;
            check_linear(prog, &i.elsec, g, stats).map_err(|e| format!("else: {e}"))
        }
        Statement::Exit(e) => {
            stats.paths += 1;
            need_ext(&g, e.var.id, "exit")
        }
    }
}

// ---------------------------------------------------------------------------------------------
// non-linear (named) scoping and typing
// ---------------------------------------------------------------------------------------------

fn find<'a>(g: &'a [ContextBinding], id: usize) -> Option<&'a ContextBinding> {
    g.iter().rev().find(|b| b.var.id == id)
}

fn args_ok(g: &[ContextBinding], sig: &TypingContext, args: &TypingContext, what: &str) -> Result<(), String> {
    if sig.bindings.len() != args.bindings.len() {
        return Err(format!(
            "{what}: {} arguments for a signature of {}",
            args.bindings.len(),
            sig.bindings.len()
        ));
    }
    for (s, a) in sig.bindings.iter().zip(&args.bindings) {
        if !same_kind(s, a) {
            return Err(format!(
                "{what}: argument {}_{} annotated {:?} {} but signature says {:?} {}",
                a.var.name,
                a.var.id,
                a.chi,
                a.ty.print_to_string(None),
                s.chi,
                s.ty.print_to_string(None)
            ));
        }
        match find(g, a.var.id) {
            None => return Err(format!("{what}: argument {}_{} is unbound", a.var.name, a.var.id)),
            Some(b) if !same_kind(b, a) => {
                return Err(format!(
                    "{what}: argument {}_{} is bound at {:?} {} but used at {:?} {}",
                    a.var.name,
                    a.var.id,
                    b.chi,
                    b.ty.print_to_string(None),
                    a.chi,
                    a.ty.print_to_string(None)
                ));
            }
            _ => {}
        }
    }
    Ok(())
}

/// Checks a non-linear AxCut program (output of shrinking): scoping, argument kinds/types,
/// clause sets, and that binder ids are unique along every path.
pub fn check_named_prog(prog: &Prog) -> Result<u64, String> {
    let mut n = 0u64;
    let mut names = HashSet::new();
    for def in &prog.defs {
        if !names.insert(def.name.print_to_string(None)) {
            return Err(format!("definition {} declared twice", def.name.print_to_string(None)));
        }
    }
    for def in &prog.defs {
        distinct_ids(&def.context.bindings).map_err(|e| format!("def {}: {e}", def.name.name))?;
        check_named(prog, &def.body, def.context.bindings.clone(), &mut n)
            .map_err(|e| format!("def {}: {e}", def.name.print_to_string(None)))?;
    }
    Ok(n)
}

fn bind(g: &mut Gamma, b: ContextBinding) -> Result<(), String> {
    if g.iter().any(|x| x.var.id == b.var.id) {
        return Err(format!("binder id {} ({}) is not unique along its path", b.var.id, b.var.name));
    }
    g.push(b);
    Ok(())
}

fn check_named(prog: &Prog, stmt: &Statement, mut g: Gamma, n: &mut u64) -> Result<(), String> {
    *n += 1;
    let types = &prog.types;
    match stmt {
        Statement::Substitute(_) => Err("explicit substitution in a non-linear program".into()),
        Statement::Call(c) => {
            let Some(def) = prog.defs.iter().find(|d| d.name == c.label) else {
                return Err(format!("call of undefined label {}", c.label.print_to_string(None)));
            };
            args_ok(&g, &def.context, &c.args, &format!("call {}", c.label.name))
        }
        Statement::Let(l) => {
            let decl = lookup_type(types, &l.ty).map_err(|e| format!("let: {e}"))?;
            let xtor = lookup_xtor(decl, &l.tag).map_err(|e| format!("let: {e}"))?;
            args_ok(&g, &xtor.args, &l.args, &format!("let {}", l.tag.name))?;
            bind(&mut g, ContextBinding { var: l.var.clone(), chi: Chirality::Prd, ty: l.ty.clone() })?;
            check_named(prog, &l.next, g, n)
        }
        Statement::Switch(s) => {
            let decl = lookup_type(types, &s.ty).map_err(|e| format!("switch: {e}"))?;
            match find(&g, s.var.id) {
                Some(b) if b.chi == Chirality::Prd && b.ty == s.ty => {}
                Some(b) => {
                    return Err(format!(
                        "switch on {}_{} bound at {:?} {}, annotated prd {}",
                        s.var.name,
                        s.var.id,
                        b.chi,
                        b.ty.print_to_string(None),
                        s.ty.print_to_string(None)
                    ));
                }
                None => return Err(format!("switch on unbound {}_{}", s.var.name, s.var.id)),
            }
            clauses_match(decl, &s.clauses, "switch")?;
            for clause in &s.clauses {
                let mut cg = g.clone();
                for b in &clause.context.bindings {
                    bind(&mut cg, b.clone())?;
                }
                check_named(prog, &clause.body, cg, n).map_err(|e| format!("clause {}: {e}", clause.xtor.name))?;
            }
            Ok(())
        }
        Statement::Create(c) => {
            let decl = lookup_type(types, &c.ty).map_err(|e| format!("create: {e}"))?;
            clauses_match(decl, &c.clauses, "create")?;
            for clause in &c.clauses {
                let mut cg = g.clone();
                for b in &clause.context.bindings {
                    bind(&mut cg, b.clone())?;
                }
                check_named(prog, &clause.body, cg, n).map_err(|e| format!("method {}: {e}", clause.xtor.name))?;
            }
            bind(&mut g, ContextBinding { var: c.var.clone(), chi: Chirality::Cns, ty: c.ty.clone() })?;
            check_named(prog, &c.next, g, n)
        }
        Statement::Invoke(i) => {
            let decl = lookup_type(types, &i.ty).map_err(|e| format!("invoke: {e}"))?;
            let xtor = lookup_xtor(decl, &i.tag).map_err(|e| format!("invoke: {e}"))?;
            match find(&g, i.var.id) {
                Some(b) if b.chi == Chirality::Cns && b.ty == i.ty => {}
                Some(b) => {
                    return Err(format!(
                        "invoke on {}_{} bound at {:?} {}, annotated cns {}",
                        i.var.name,
                        i.var.id,
                        b.chi,
                        b.ty.print_to_string(None),
                        i.ty.print_to_string(None)
                    ));
                }
                None => return Err(format!("invoke on unbound {}_{}", i.var.name, i.var.id)),
            }
            args_ok(&g, &xtor.args, &i.args, &format!("invoke {}", i.tag.name))
        }
        Statement::Literal(l) => {
            bind(&mut g, ContextBinding { var: l.var.clone(), chi: Chirality::Ext, ty: Ty::I64 })?;
            check_named(prog, &l.next, g, n)
        }
        Statement::Op(o) => {
            need_ext(&g, o.fst.id, "op")?;
            need_ext(&g, o.snd.id, "op")?;
            bind(&mut g, ContextBinding { var: o.var.clone(), chi: Chirality::Ext, ty: Ty::I64 })?;
            check_named(prog, &o.next, g, n)
        }
        Statement::PrintI64(p) => {
            need_ext(&g, p.var.id, "print")?;
            check_named(prog, &p.next, g, n)
        }
        Statement::IfC(i) => {
            need_ext(&g, i.fst.id, "ifc")?;
            if let Some(snd) = &i.snd {
                need_ext(&g, snd.id, "ifc")?;
            }
            check_named(prog, &i.thenc, g.clone(), n)?;
            check_named(prog, &i.elsec, g, n)
        }
        Statement::Exit(e) => need_ext(&g, e.var.id, "exit"),
    }
}
