#!/bin/bash
# ./seedcheck.sh <patch.diff> [Cxx ...]   -- apply a seeded change to /repo, run the repository suite and the
# given checks (default: all) at the quick tier, ALWAYS revert. Prints one line per check.
set -u
patch="$1"; shift
checks="${*:-C01 C02 C03 C04 C05 C06 C07 C08 C09 C10 C11 C12 C13 C14 C15 C16 C17 C18 C19 C20}"
cd /repo || exit 2
if [ -n "$(git status --porcelain -- lang app)" ]; then echo "/repo has uncommitted changes; refusing"; exit 2; fi
trap 'git -C /repo checkout -- . >/dev/null 2>&1' EXIT
git apply "$patch" || { echo "patch does not apply"; exit 2; }
if [ "${SKIP_REPO_TESTS:-0}" != "1" ]; then
  res=$(cargo test --workspace --no-fail-fast --offline 2>&1 | grep -E '^test result' | awk '{p+=$4; f+=$6} END {print "passed="p" failed="f}')
  echo "repo-suite: $res"
fi
cd /verif
# evidence of runs against a mutated tree must never land in /verif/evidence
export VERIF_EVIDENCE_DIR=/verif/engine/target/seed-evidence
mkdir -p "$VERIF_EVIDENCE_DIR"
for c in $checks; do
  out=$(./run $c ${TIER:-quick} 2>&1); code=$?
  nv=$(echo "$out" | grep -c '^VIOLATION')
  first=$(echo "$out" | grep -m1 "^\[$c\] .* :: " | cut -c1-220)
  echo "$c exit=$code violations=$nv $first"
done
