#!/bin/bash
# ./seedverify.sh <worktree> [checks...] : confirm the agent's demonstration fails with the change and passes
# without it (in the agent's worktree), then run seedcheck on /repo.
wt="$1"; shift
cd "$wt" || exit 2
export CARGO_TARGET_DIR="$wt/target"
git apply -R --check seed/patch.diff 2>/dev/null || git apply seed/patch.diff 2>/dev/null
bash seed/demo.sh >/tmp/sv1.log 2>&1; a=$?
git apply -R seed/patch.diff
bash seed/demo.sh >/tmp/sv2.log 2>&1; b=$?
git apply seed/patch.diff
echo "demo with change: exit $a | without: exit $b"
unset CARGO_TARGET_DIR
cd /verif && ./seedcheck.sh "$wt/seed/patch.diff" "$@"
