#!/bin/bash
# ./seedregress.sh [N]  — regression over all archived seeded changes WITHOUT touching /repo:
# N (default 4) private copies of the repository (git worktrees of /repo's HEAD under /tmp/rr<i>) and of the
# engine (path dependencies rewritten to the copy) work through the seeds in parallel. For every seed the
# quick tier of the checks listed under "breaks" in its meta.json is run against the patched copy
# (VERIF_REPO / VERIF_SCC point the engine at the copy; evidence goes to the copy's own directory).
# Output: one line per seed "id: Cxx:exit=1 ..." (exit=1 = still detected). The copies are removed at the end.
N="${1:-4}"
cd /verif/seeded || exit 2
ids=( $(ls -d C[0-9][0-9]-* | sort) )
# REGRESS_IDS=<file>: only the ids listed in the file; REGRESS_PRIMARY=1: only the first check of "breaks"
if [ -n "$REGRESS_IDS" ]; then ids=( $(cat "$REGRESS_IDS") ); fi
worker() {
  i="$1"; R="/tmp/rr$i"
  rm -rf "$R"; git -C /repo worktree prune
  mkdir -p "$R/engine" "$R/ev"
  git -C /repo worktree add --detach "$R/repo" HEAD >/dev/null 2>&1 || { echo "worker $i: cannot create worktree"; return; }
  cp -r /verif/engine/src /verif/engine/Cargo.toml /verif/engine/Cargo.lock "$R/engine/"
  sed -i "s#/repo/lang#$R/repo/lang#g" "$R/engine/Cargo.toml"
  (cd "$R/engine" && CARGO_NET_OFFLINE=true cargo build --release --offline >"$R/build0.log" 2>&1) || { echo "worker $i: initial build failed"; return; }
  for k in "${!ids[@]}"; do
    [ $((k % N)) -eq "$i" ] || continue
    id="${ids[$k]}"
    [ -f "/verif/seeded/$id/patch.diff" ] || continue
    checks=$(python3 -c "import json;print(' '.join(json.load(open('/verif/seeded/$id/meta.json'))['breaks']))")
    if [ -n "$REGRESS_PRIMARY" ]; then checks="${checks%% *}"; fi
    if ! git -C "$R/repo" apply "/verif/seeded/$id/patch.diff" 2>/dev/null; then echo "$id: PATCH DOES NOT APPLY"; continue; fi
    if ! (cd "$R/engine" && CARGO_NET_OFFLINE=true cargo build --release --offline >"$R/build.log" 2>&1); then echo "$id: BUILD FAILED"; git -C "$R/repo" checkout -- .; continue; fi
    case " $checks " in *" C16 "*|*" C17 "*|*" C18 "*)
      (cd "$R/repo" && CARGO_NET_OFFLINE=true cargo build --release --offline -p scc --target-dir "$R/scc" >"$R/build-scc.log" 2>&1) ;;
    esac
    line="$id:"
    for c in $checks; do
      (cd /verif && VERIF_REPO="$R/repo" VERIF_SCC="$R/scc/release/scc" VERIF_EVIDENCE_DIR="$R/ev" VERIF_BUDGET_S=1500 VERIF_JOBS=4 "$R/engine/target/release/vcheck" "$c" quick >"$R/out.log" 2>&1); code=$?
      line="$line $c:exit=$code"
    done
    echo "$line"
    git -C "$R/repo" checkout -- . >/dev/null 2>&1
  done
  git -C /repo worktree remove --force "$R/repo" >/dev/null 2>&1
  rm -rf "$R"
}
for i in $(seq 0 $((N-1))); do worker "$i" & done
wait
git -C /repo worktree prune
