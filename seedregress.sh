#!/bin/bash
# ./seedregress.sh [id ...] : for every archived seeded change (default: all) apply it to /repo, run the quick
# tier of the checks its meta.json lists under "breaks" and report whether each still raises an alarm.
# Always reverts /repo. Evidence of these runs goes to engine/target/seed-evidence (never to evidence/).
cd /verif/seeded || exit 2
ids="${*:-$(ls -d C*-* | sort)}"
for id in $ids; do
  [ -f "$id/patch.diff" ] || continue
  checks=$(python3 -c "import json;print(' '.join(json.load(open('$id/meta.json'))['breaks']))")
  if ! git -C /repo apply --check "/verif/seeded/$id/patch.diff" 2>/dev/null; then echo "$id: PATCH DOES NOT APPLY"; continue; fi
  res=$(SKIP_REPO_TESTS=1 /verif/seedcheck.sh "/verif/seeded/$id/patch.diff" $checks 2>&1 | awk '{print $1":"$2}' | tr '\n' ' ')
  echo "$id: $res"
done
