#!/bin/bash
# baseline_off_cmd: the repository's own suite with every verification hook OFF (cargo features
# default to off inside the repository workspace).
cd /repo && exec cargo test --workspace --no-fail-fast --offline
